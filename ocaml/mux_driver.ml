(* Replays lock-step scenarios on the extracted session-pair model (coq/Model/Mux.v).
   Same input as harness/multiplex/mux_test.go, each step optionally suffixed with
   @c1.c2... = the connections pickRandConn drew during that step (from the wire tap). *)
let rec z_of_int i = if i = 0 then Z0 else if i > 0 then Zpos (pos_of_int i) else Zneg (pos_of_int (-i))
let side_of s = if s = "A" then SA else SB
let sname = function SA -> "A" | SB -> "B"
let ni n = string_of_int (int_of_n n)
let show_ev = function
  | EFrame (s, c, fr) -> Printf.sprintf "f%s%s:%s:%s:%s:%d" (sname s) (ni c) (ni fr.w_sid) (ni fr.w_seq) (ni fr.w_cl) (List.length fr.w_pay)
  | ERet (code, n, d) -> Printf.sprintf "r%s:%s:%s" (ni code) (ni n) (hex_of_bytes d)
  | EPend (PRead (s, sid, k), code, n, d) -> Printf.sprintf "pR%s:%s:%d:%s:%s:%s" (sname s) (ni sid) (int_of_nat k) (ni code) (ni n) (hex_of_bytes d)
  | EPend (PAccept s, code, n, d) -> Printf.sprintf "pA%s:0:0:%s:%s:%s" (sname s) (ni code) (ni n) (hex_of_bytes d)
  | EConnClosed (s, c) -> Printf.sprintf "c%s%s" (sname s) (ni c)
let cfg kv k def = try int_of_string (List.assoc k kv) with Not_found -> def
let () = iter_lines (fun line ->
  match String.index_opt line '|' with
  | None -> ()
  | Some bar ->
    let head = split_ws (String.sub line 0 bar) in
    let steps = split_ws (String.sub line (bar + 1) (String.length line - bar - 1)) in
    let id = List.hd head in
    let kv = List.filter_map (fun h -> match String.index_opt h '=' with
      | Some i -> Some (String.sub h 0 i, String.sub h (i + 1) (String.length h - i - 1)) | None -> None) (List.tl head) in
    let k = cfg kv "k" 1 and sp = cfg kv "sp" 0 = 1 and lim = cfg kv "lim" 16401 in
    let toA = cfg kv "toA" 30 and toB = cfg kv "toB" 30 in
    let ns s = z_of_int (s * 1000000000) in
    let y = ref (init (nat_of_int k) sp (n_of_int (lim - 14 - 255)) (ns toA) (ns toB)) in
    print_string id;
    List.iter (fun stp ->
      let stp, picks = match String.index_opt stp '@' with
        | Some i -> String.sub stp 0 i,
                    List.filter_map (fun x -> if x = "" then None else Some (n_of_int (int_of_string x)))
                      (split_on '.' (String.sub stp (i + 1) (String.length stp - i - 1)))
        | None -> stp, [] in
      let f = Array.of_list (split_on ':' stp) in
      if f.(0) = "Q" then begin
        let q = List.map (fun s -> let ((cl, cnt), live) = query_side !y s in
                  Printf.sprintf "q%s:%s:%s:%s" (sname s) (b01 cl) (ni cnt) (ni live)) [SA; SB] in
        let qc = List.mapi (fun i c -> let ((((a, b), fl), la), lb) = query_conn c in
                  Printf.sprintf "qc%d:%s%s%s:%s:%s" i (b01 a) (b01 b) (b01 fl) (ni la) (ni lb)) (sy_conns !y) in
        let np = List.length (sy_pend !y) in
        let nps s = List.length (List.filter (fun p -> (match p with PRead (s', _, _) -> s' | PAccept s' -> s') = s) (sy_pend !y)) in
        print_char ' '; print_string (String.concat "," (q @ qc @ [Printf.sprintf "qp%d:%d:%d" np (nps SA) (nps SB)]))
      end else begin
        let lbl = match f.(0) with
          | "O" -> LOpen (side_of f.(1))
          | "W" -> LWrite (side_of f.(1), n_of_int (int_of_string f.(2)), bytes_of_hex f.(3))
          | "R" -> LRead (side_of f.(1), n_of_int (int_of_string f.(2)), nat_of_int (int_of_string f.(3)))
          | "A" -> LAccept (side_of f.(1))
          | "X" -> LCloseStream (side_of f.(1), n_of_int (int_of_string f.(2)))
          | "Z" -> LCloseSession (side_of f.(1))
          | "D" -> LDeliver (side_of f.(1), n_of_int (int_of_string f.(2)))
          | "F" -> LFail (n_of_int (int_of_string f.(1)))
          | "B" -> LBreak (n_of_int (int_of_string f.(1)))
          | "N" -> LNotice (side_of f.(1), n_of_int (int_of_string f.(2)))
          | "T" -> LTick (ns (int_of_string f.(1)))
          | _ -> failwith ("bad step " ^ stp) in
        let (y', evs) = step !y lbl picks in
        y := y';
        print_char ' '; print_string (String.concat "," (List.map show_ev evs))
      end) steps;
    print_newline ())
