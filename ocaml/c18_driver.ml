(* C18: replay admin/API histories on the extracted model of the user database.
   input line : <id> <now> <op> <op> ...          (fields of an op separated by '|')
     L                               GET /admin/users
     G|<rawpath hex>|<pclass>        GET /admin/users/<segment>
     P|<rawpath hex>|<pclass>|<rawbody hex>|<bclass>   POST
     D|<rawpath hex>|<pclass>        DELETE
     E                               request with an empty segment (/admin/users/)
     R                               close + reopen the database
     U|<uid hex>,<up>,<down>;...     UploadStatus
     A|<uid hex>                     AuthenticateUser
     S|<uid hex>|<n>                 AuthoriseNewSession with n existing sessions
     C|<uid hex>|<rx>|<tx>           (server harness) owner connects, uses rx/tx bytes, usage uploaded
     V|<rx>|<tx>                     (server harness) multiplex.MakeValve(rx, tx) alone, under recover
   pclass = bad | u:<uid hex>        what base64.URLEncoding makes of the segment
   bclass = bad | j:<uid hex>:<cap>,<uprate>,<downrate>,<upcredit>,<downcredit>,<expiry>   ('_' = absent)
   The raw fields are for the Go driver only.
   output line: <id> <obs> ...
     s<code> | u:<uid>:<six values> | l:<uid>=<six>;... (sorted) | r | p:<uid>=<msg>;... |
     a:ok:<up>:<down> | a:<err> | n:ok | n:<err> | c:autherr:<err> | c:sesserr:<err> | c:ok:<active> | PANIC
   argv[1] = "prefix": GetUser as it was before commit 638655d (no rate guard: finding F8). *)

(* ---- Z <-> decimal ------------------------------------------------------------------ *)
let z_of_small i = if i = 0 then Z0 else if i > 0 then Zpos (pos_of_int i) else Zneg (pos_of_int (-i))
let z10 = z_of_small 10
let z_of_string s =
  let neg = String.length s > 0 && s.[0] = '-' in
  let acc = ref Z0 in
  String.iteri (fun i c -> if not (i = 0 && neg) then
    acc := Z.add (Z.mul !acc z10) (z_of_small (Char.code c - 48))) s;
  if neg then Z.opp !acc else !acc
let small_of_z = function Z0 -> 0 | Zpos p -> int_of_pos p | Zneg p -> - (int_of_pos p)
let string_of_z z =
  let neg, a = (match z with Zneg p -> true, Zpos p | _ -> false, z) in
  if a = Z0 then "0" else begin
    let buf = Buffer.create 24 in
    let rec go a acc = if a = Z0 then acc else
      go (Z.div a z10) (Char.chr (48 + small_of_z (Z.modulo a z10)) :: acc) in
    if neg then Buffer.add_char buf '-';
    List.iter (Buffer.add_char buf) (go a []);
    Buffer.contents buf end

(* ---- parsing -------------------------------------------------------------------------- *)
let parse_uid h = bytes_of_hex h
let parse_path c =
  if c = "bad" then PBad
  else match split_on ':' c with
    | ["u"; h] -> PUid (parse_uid h)
    | _ -> failwith ("bad pclass " ^ c)
let ozs s = if s = "_" then None else Some (z_of_string s)
let parse_body c =
  if c = "bad" then BBad
  else match split_on ':' c with
    | ["j"; h; vs] ->
      (match split_on ',' vs with
       | [c; a; b; d; e; x] ->
         BJson (parse_uid h, { w_cap = ozs c; w_uprate = ozs a; w_downrate = ozs b;
                               w_upcredit = ozs d; w_downcredit = ozs e; w_expiry = ozs x })
       | _ -> failwith ("bad vals " ^ vs))
    | _ -> failwith ("bad bclass " ^ c)
let parse_upd s = match split_on ',' s with
  | [h; a; b] -> { up_uid = parse_uid h; up_up = z_of_string a; up_down = z_of_string b }
  | _ -> failwith ("bad upd " ^ s)

type xop = Plain of op | Conn of uid * z * z | Valve of z * z
let parse_op s = match split_on '|' s with
  | ["L"] -> Plain (OReq RqList)
  | ["G"; _; pc] -> Plain (OReq (RqGet (parse_path pc)))
  | ["P"; _; pc; _; bc] -> Plain (OReq (RqPost (parse_path pc, parse_body bc)))
  | ["D"; _; pc] -> Plain (OReq (RqDelete (parse_path pc)))
  | ["E"] -> Plain (OReq RqNoUid)
  | ["R"] -> Plain OReopen
  | ["U"; l] -> Plain (OUpload (if l = "" then [] else List.map parse_upd (split_on ';' l)))
  | ["A"; h] -> Plain (OAuth (parse_uid h))
  | ["S"; h; n] -> Plain (OSess (parse_uid h, z_of_string n))
  | ["C"; h; rx; tx] -> Conn (parse_uid h, z_of_string rx, z_of_string tx)
  | ["V"; rx; tx] -> Valve (z_of_string rx, z_of_string tx)
  | _ -> failwith ("bad op " ^ s)

(* ---- printing -------------------------------------------------------------------------- *)
let show_vals v = String.concat "," (List.map string_of_z
  [v.v_cap; v.v_uprate; v.v_downrate; v.v_upcredit; v.v_downcredit; v.v_expiry])
let show_err = function
  | ErrUserNotFound -> "notfound" | ErrNoUpCredit -> "noup" | ErrNoDownCredit -> "nodown"
  | ErrUserExpired -> "expired" | ErrSessionsCapReached -> "cap" | ErrBadRate -> "badrate"
let show_msg = function MsgGone -> "gone" | MsgNoUp -> "noup" | MsgNoDown -> "nodown" | MsgExpired -> "expired"
let show_resp = function
  | RsStatus c -> "s" ^ string_of_z c
  | RsUser (u, v) -> "u:" ^ hex_of_bytes u ^ ":" ^ show_vals v
  | RsList l ->
    let es = List.map (fun (u, v) -> hex_of_bytes u ^ "=" ^ show_vals v) l in
    "l:" ^ String.concat ";" (List.sort compare es)
let show_obs = function
  | ObResp r -> show_resp r
  | ObReopen -> "r"
  | ObUpload l -> "p:" ^ String.concat ";" (List.map (fun (u, m) -> hex_of_bytes u ^ "=" ^ show_msg m) l)
  | ObAuth (AuthOk (a, b)) -> "a:ok:" ^ string_of_z a ^ ":" ^ string_of_z b
  | ObAuth (AuthErr e) -> "a:" ^ show_err e
  | ObSess None -> "n:ok"
  | ObSess (Some e) -> "n:" ^ show_err e
let show_conn = function
  | CoAuthErr e -> "c:autherr:" ^ show_err e
  | CoSessErr e -> "c:sesserr:" ^ show_err e
  | CoOk a -> "c:ok:" ^ b01 a

let guard = not (Array.length Sys.argv > 1 && Sys.argv.(1) = "prefix")

let () = iter_lines (fun line ->
  match split_ws line with
  | id :: now :: ops ->
    let now = z_of_string now in
    let xops = List.map parse_op ops in
    print_string id;
    (* cross-check inside the extraction: the concrete run and the abstract specification
       (theorem C18_refines_map) are evaluated side by side on the plain ops *)
    let rec go s m = function
      | [] -> ()
      | Plain o :: t ->
        (match step true now s o with
         | Panic -> print_string " PANIC"
         | Ok (s', ob) ->
           let (m', aob) = a_step now m o in
           print_char ' '; print_string (show_obs ob);
           if aob <> ob || abs_store s' <> m' then print_string "!SPEC-DIFFERS";
           go s' m' t)
      | Conn (u, rx, tx) :: t ->
        (match connect_use guard true now s u rx tx with
         | Panic -> print_string " PANIC"
         | Ok (s', co) -> print_char ' '; print_string (show_conn co); go s' (abs_store s') t)
      | Valve (rx, tx) :: t ->
        (* MakeValve alone: a panic here is recovered by the harness and the history goes on *)
        (match make_valve rx tx with
         | Panic -> print_string " PANIC"
         | Ok _ -> print_string " v:ok");
        go s m t
    in
    go [] [] xops; print_newline ()
  | _ -> ())
