(* C08: replay op lists on the extracted model of the replay memory (Model/Replay.v, serve).
   input line : <id> <start ns> <tok> ...
     tok = K:<parses 0|1>:<random hex>:<ts seconds | ->   declares packet #k (in order)
         | S:<d ns>  sleep        | P:<k>  present packet k      | C:<k>:<n>  n simultaneous presentations
   optional first token after start: M:<rule>:<key>  (rule = fixed|one|prefix, key = mask|raw) - default fixed/mask
   output line: <id> <obs>/<cache size> ...   obs = s | a | r | o | c<accepted>,<replays>,<other> *)
let z_of_int i = if i = 0 then Z0 else if i > 0 then Zpos (pos_of_int i) else Zneg (pos_of_int (-i))
let show_out = function OAccept -> "a" | OReplay -> "r" | OOther -> "o"
let show_obs = function
  | ObsSleep sz -> "s/" ^ string_of_int (int_of_nat sz)
  | ObsPresent (o, sz) -> show_out o ^ "/" ^ string_of_int (int_of_nat sz)
  | ObsConc (a, r, o, sz) -> Printf.sprintf "c%d,%d,%d/%d" (int_of_nat a) (int_of_nat r) (int_of_nat o) (int_of_nat sz)
let () = iter_lines (fun line ->
  match split_ws line with
  | id :: start :: toks ->
    let pkts = ref [] in
    let ops = ref [] in
    let rule = ref rule_fixed and keyfn = ref mask255 in
    List.iter (fun tok -> match split_on ':' tok with
      | ["M"; r; k] ->
        rule := (match r with "fixed" -> rule_fixed | "one" -> rule_one | "prefix" -> rule_prefix | _ -> failwith "rule");
        keyfn := (match k with "mask" -> mask255 | "raw" -> rawkey | _ -> failwith "key")
      | ["K"; ps; rnd; ts] ->
        let auth = if ts = "-" then None else Some (z_of_int (int_of_string ts)) in
        pkts := { p_parses = (ps = "1"); p_random = bytes_of_hex rnd; p_auth = auth } :: !pkts
      | ["S"; d] -> ops := OpSleep (z_of_int (int_of_string d)) :: !ops
      | ["P"; k] -> ops := OpPresent (List.nth (List.rev !pkts) (int_of_string k)) :: !ops
      | ["C"; k; n] -> ops := OpConcurrent (List.nth (List.rev !pkts) (int_of_string k), nat_of_int (int_of_string n)) :: !ops
      | _ -> failwith ("bad token " ^ tok)) toks;
    let obs = serve !rule !keyfn (z_of_int (int_of_string start)) (List.rev !ops) in
    print_string id; List.iter (fun o -> print_char ' '; print_string (show_obs o)) obs; print_newline ()
  | _ -> ())
