(* Shared glue for the drivers of the extracted models.  This file is textually placed
   after "open <ExtractedModule>" so that the constructors O/S, XI/XO/XH, N0/Npos refer
   to that module's datatypes (N and nat stay inductive datatypes: no mapping to int). *)
let nat_of_int i = let r = ref O in for _ = 1 to i do r := S !r done; !r
let int_of_nat n = let rec go acc = function O -> acc | S m -> go (acc + 1) m in go 0 n

let rec pos_of_int i = (* i >= 1 *)
  if i = 1 then XH else if i land 1 = 1 then XI (pos_of_int (i lsr 1)) else XO (pos_of_int (i lsr 1))
let n_of_int i = if i = 0 then N0 else Npos (pos_of_int i)
let rec int_of_pos = function XH -> 1 | XO p -> 2 * int_of_pos p | XI p -> 2 * int_of_pos p + 1
let int_of_n = function N0 -> 0 | Npos p -> int_of_pos p

let hexval c = match c with
  | '0'..'9' -> Char.code c - 48 | 'a'..'f' -> Char.code c - 87 | 'A'..'F' -> Char.code c - 55
  | _ -> failwith "hex"
(* arbitrary-size N from a hex string (most significant digit first) *)
let n_of_hex (s : string) =
  let acc = ref N0 in
  let push b = acc := (match !acc with
    | N0 -> if b then Npos XH else N0
    | Npos p -> Npos (if b then XI p else XO p)) in
  String.iter (fun c -> let v = hexval c in
    push (v land 8 <> 0); push (v land 4 <> 0); push (v land 2 <> 0); push (v land 1 <> 0)) s;
  !acc
let hex_of_n n =
  let rec bits p acc = match p with XH -> true :: acc | XO q -> bits q (false :: acc) | XI q -> bits q (true :: acc) in
  match n with N0 -> "0" | Npos p ->
    let bs = bits p [] in (* most significant first *)
    let len = List.length bs in
    let pad = (4 - len mod 4) mod 4 in
    let bs = List.init pad (fun _ -> false) @ bs in
    let buf = Buffer.create 16 in
    let rec go = function
      | a :: b :: c :: d :: t ->
        let v = (if a then 8 else 0) + (if b then 4 else 0) + (if c then 2 else 0) + (if d then 1 else 0) in
        Buffer.add_char buf "0123456789abcdef".[v]; go t
      | [] -> () | _ -> failwith "bits" in
    go bs; Buffer.contents buf

(* byte strings: hex <-> list of N (each < 256); "-" is the empty string *)
let byte_table = Array.init 256 n_of_int
let bytes_of_hex (s : string) =
  if s = "-" then [] else
  let n = String.length s / 2 in
  List.init n (fun i -> byte_table.(hexval s.[2*i] * 16 + hexval s.[2*i+1]))
let hex_of_bytes l =
  if l = [] then "-" else begin
    let buf = Buffer.create 64 in
    List.iter (fun b -> Buffer.add_string buf (Printf.sprintf "%02x" (int_of_n b))) l;
    Buffer.contents buf end

let split_ws s = List.filter (fun x -> x <> "") (String.split_on_char ' ' s)
let split_on c s = String.split_on_char c s
let b01 b = if b then "1" else "0"
let iter_lines f =
  try while true do f (input_line stdin) done with End_of_file -> ()
