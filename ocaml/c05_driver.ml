(* C05: replay cases on the extracted model of TLSConn.Read/Write and WebSocketConn.Read.
   payload(len,tag): byte i = (tag*37 + i*11 + (i lsr 8)*5 + 7) mod 256
   repr(bytes) = "-" | hex (<= 32 bytes) | <len>.<md5 hex>
   input lines:
     <id> X <buflen> <trunc|-1> <cuts a,b,..|-> <len>:<tag> ...   messages through Write, wire cut at the
                                                                  positions, truncated to trunc bytes, reads
     <id> R <buflen> <cuts|-> <wire hex>                          arbitrary wire bytes, reads
     <id> C <sched a,b,..|-> <queue> ...                          queue = len:tag,len:tag,.. | -
     <id> S <buflen> <binary 0|1> <piece> ...                     piece = len:tag | len:tag:off:n (slice) | E
   output lines:
     X: <id> W<n>:<refused 0|1>:<nwrites> ... wire:<repr> <read> ...   read = d:<repr> | eS | eE | eU:<n>
     R: <id> <read> ...
     C: <id> none | wire:<repr> n:<records> left:<messages not sent>
     S: <id> ok:<repr> | nm:<n> | err:<n> *)
let payload len tag = List.init len (fun i -> byte_table.((tag * 37 + i * 11 + (i lsr 8) * 5 + 7) mod 256))
let string_of_bytes l =
  let b = Buffer.create 1024 in List.iter (fun x -> Buffer.add_char b (Char.chr (int_of_n x))) l; Buffer.contents b
let repr l =
  let n = List.length l in
  if n = 0 then "-" else if n <= 32 then hex_of_bytes l
  else Printf.sprintf "%d.%s" n (Digest.to_hex (Digest.string (string_of_bytes l)))
let rec drop n l = if n <= 0 then l else match l with [] -> [] | _ :: t -> drop (n - 1) t
let rec take0 n l = if n <= 0 then [] else match l with [] -> [] | x :: t -> x :: take0 (n - 1) t
(* len:tag = payload(len,tag) ; len:tag:off:n = n bytes of it starting at off *)
let parse_msg s = match split_on ':' s with
  | [l; t] -> payload (int_of_string l) (int_of_string t)
  | [l; t; off; n] -> take0 (int_of_string n) (drop (int_of_string off) (payload (int_of_string l) (int_of_string t)))
  | _ -> failwith ("bad msg " ^ s)
let parse_cuts s = if s = "-" then [] else List.map (fun x -> n_of_int (int_of_string x)) (split_on ',' s)
let rec take n l = if n <= 0 then [] else match l with [] -> [] | x :: t -> x :: take (n - 1) t
let show_read = function
  | TrData d -> "d:" ^ repr d
  | TrShortBuffer -> "eS"
  | TrEOF -> "eE"
  | TrUnexpectedEOF n -> Printf.sprintf "eU:%d" (int_of_n n)
let print_reads rs = List.iter (fun r -> print_char ' '; print_string (show_read r)) rs
let () = iter_lines (fun line ->
  match split_ws line with
  | id :: "X" :: buflen :: trunc :: cuts :: msgs ->
    let ms = List.map parse_msg msgs in
    print_string id;
    List.iter (fun m -> match rec_write m with
      | Some w -> Printf.printf " W%d:0:1" (List.length m)
      | None -> print_string " W0:1:0") ms;
    let wire = wire_of ms in
    print_string (" wire:" ^ repr wire);
    let tr = int_of_string trunc in
    let wire = if tr >= 0 then take tr wire else wire in
    let cs = cut_at N0 (parse_cuts cuts) wire in
    print_reads (tls_reads (nat_of_int (List.length ms + 3)) (n_of_int (int_of_string buflen)) cs);
    print_newline ()
  | [id; "R"; buflen; cuts; wire] ->
    let wire = bytes_of_hex wire in
    let cs = cut_at N0 (parse_cuts cuts) wire in
    print_string id;
    print_reads (tls_reads (nat_of_int 12) (n_of_int (int_of_string buflen)) cs);
    print_newline ()
  | id :: "C" :: sched :: queues ->
    let qs = List.map (fun q -> if q = "-" then [] else List.map parse_msg (split_on ',' q)) queues in
    let sched = if sched = "-" then [] else List.map (fun x -> nat_of_int (int_of_string x)) (split_on ',' sched) in
    (match run_sched qs sched with
     | None -> Printf.printf "%s none\n" id
     | Some (l, qf) ->
       Printf.printf "%s wire:%s n:%d left:%d\n" id (repr (wire_of l)) (List.length l)
         (List.fold_left (fun a q -> a + List.length q) 0 qf))
  | id :: "S" :: buflen :: binary :: pieces ->
    let ps = List.map (fun p -> if p = "E" then PErr else PData (parse_msg p)) pieces in
    (match ws_read (n_of_int (int_of_string buflen)) (binary = "1") ps with
     | WsOk d -> Printf.printf "%s ok:%s\n" id (repr d)
     | WsNothingMore d -> Printf.printf "%s nm:%d\n" id (List.length d)
     | WsErr d -> Printf.printf "%s err:%d\n" id (List.length d))
  | _ -> ())
