(* C11: the extracted deobfuscate model on honest, modified and arbitrary byte strings.
   input lines (hex byte strings, "-" = empty):
     <id> DEC <m> <key> <msg>     -> <id> ok <sid> <seq> <closing> <payload> | err:<kind> | panic
     <id> ENC <m> <key> <sid> <seq> <closing> <payload> <padLen dec> <rnd> -> <id> <msg> | none
     <id> FLIPS <m> <key> <msg> [<from byte> <to byte>]  -> <id> <one char per single-bit flip, byte-major, bit 0..7> [acc:<byte>.<bit>:<sid>,<seq>,<closing>,<payload>]...
     <id> TRUNC <m> <key> <msg>   -> <id> <one char per proper prefix msg[:k], k = 0..n-1> [acc:<k>:...]...
     <id> EXT <m> <key> <msg> <ext> -> <id> <one char per extension msg ++ ext[:j], j = 1..|ext|> [acc:<j>:...]...
   chars: s = err:short, x = err:extralen, a = err:auth, K = accepted, P = panic *)
let meth = function
  | "0" -> Plain | "1" -> AES256GCM | "2" -> ChaCha20Poly1305 | "3" -> AES128GCM
  | s -> failwith ("method " ^ s)
let show_result sep = function
  | Ok f -> String.concat sep ["ok"; hex_of_n f.f_sid; hex_of_n f.f_seq; hex_of_n f.f_closing; hex_of_bytes f.f_payload]
  | Err ErrShort -> "err:short"
  | Err ErrExtraLen -> "err:extralen"
  | Err ErrAuth -> "err:auth"
  | Panic -> "panic"
let code = function
  | Ok _ -> 'K' | Err ErrShort -> 's' | Err ErrExtraLen -> 'x' | Err ErrAuth -> 'a' | Panic -> 'P'
let rec take n l = if n <= 0 then [] else match l with [] -> [] | x :: t -> x :: take (n - 1) t
let run_variants id variants =
  (* variants : (label, message) list *)
  let buf = Buffer.create 256 in
  let accs = ref [] in
  List.iter (fun (label, r) ->
    Buffer.add_char buf (code r);
    (match r with Ok _ -> accs := (" acc:" ^ label ^ ":" ^ show_result "," r) :: !accs | _ -> ())) variants;
  Printf.printf "%s %s%s\n" id (if Buffer.length buf = 0 then "-" else Buffer.contents buf) (String.concat "" (List.rev !accs))
let () = iter_lines (fun line ->
  match split_ws line with
  | [id; "DEC"; m; key; msg] ->
    Printf.printf "%s %s\n" id (show_result " " (decode (meth m) (bytes_of_hex key) (bytes_of_hex msg)))
  | id :: "FLIPS" :: m :: key :: msg :: range ->
    let m = meth m and k = bytes_of_hex key and msg = bytes_of_hex msg in
    let n = List.length msg in
    let (lo, hi) = match range with [a; b] -> (int_of_string a, min n (int_of_string b)) | _ -> (0, n) in
    let vs = List.concat (List.init (max 0 (hi - lo)) (fun j -> let i = lo + j in List.init 8 (fun b ->
      (Printf.sprintf "%d.%d" i b, decode m k (flip_bit msg (nat_of_int i) (n_of_int b)))))) in
    run_variants id vs
  | [id; "ENC"; m; key; sid; sq; cl; pl; pad; rnd] ->
    let f = { f_sid = n_of_hex sid; f_seq = n_of_hex sq; f_closing = n_of_hex cl; f_payload = bytes_of_hex pl } in
    (match encode (meth m) (bytes_of_hex key) f (n_of_int (int_of_string pad)) (bytes_of_hex rnd) with
     | Some msg -> Printf.printf "%s %s\n" id (hex_of_bytes msg)
     | None -> Printf.printf "%s none\n" id)
  | [id; "TRUNC"; m; key; msg] ->
    let m = meth m and k = bytes_of_hex key and msg = bytes_of_hex msg in
    let n = List.length msg in
    run_variants id (List.init n (fun j -> (string_of_int j, decode m k (take j msg))))
  | [id; "EXT"; m; key; msg; ext] ->
    let m = meth m and k = bytes_of_hex key and msg = bytes_of_hex msg and ext = bytes_of_hex ext in
    run_variants id (List.init (List.length ext) (fun j -> (string_of_int (j + 1), decode m k (msg @ take (j + 1) ext))))
  | [] -> ()
  | id :: _ -> Printf.printf "%s badline\n" id)
