(* C09: the extracted model of readFirstPacket + dispatch decision + goWeb relay.
   input  : <id> key=value ...   (see tools/props/c09.py: model_line)
              now=<hex Z> end=eof|stall dial=ok|fail|wfail reply=<hex> after=<n> tclose=0|1 s=<hex stream>
              pv= admin= bypass=<hex,..> book=<hex,..> used=<hex,..> active=<uid:0|1:sid.sid;..> db=<uid:up:down:exp:cap;..>
              dh=<pub:shared|!,..>  hid=<data:hidden|!>
   output : <id> out=close|web|session|drop|crash n=<consumed> tr=none|tls|ws redir=0|1 rerr=0|1 cls=<class>
                 tgt=<hex> peer=<hex> pc=0|1 wc=0|1|-   *)
exception Miss of string

let kvs line =
  List.filter_map (fun t -> match String.index_opt t '=' with
    | Some i -> Some (String.sub t 0 i, String.sub t (i + 1) (String.length t - i - 1))
    | None -> None) (split_ws line)
let get k l = try List.assoc k l with Not_found -> "-"
let z_of_hex s =
  if s = "" || s = "-" then Z0
  else if s.[0] = '-' then (match n_of_hex (String.sub s 1 (String.length s - 1)) with N0 -> Z0 | Npos p -> Zneg p)
  else (match n_of_hex s with N0 -> Z0 | Npos p -> Zpos p)
let lst s sep f = if s = "-" || s = "" then [] else List.map f (split_on sep s)

let parse_state kv =
  { st_staticPv = bytes_of_hex (get "pv" kv);
    st_adminUID = bytes_of_hex (get "admin" kv);
    st_bypass = lst (get "bypass" kv) ',' bytes_of_hex;
    st_proxyBook = lst (get "book" kv) ',' bytes_of_hex;
    st_usedRandom = lst (get "used" kv) ',' bytes_of_hex;
    st_active = lst (get "active" kv) ';' (fun a -> match split_on ':' a with
      | [u; b; sids] -> { a_uid = bytes_of_hex u; a_bypass = (b = "1"); a_sessions = lst sids '.' n_of_hex }
      | _ -> failwith ("bad active " ^ a));
    st_db = lst (get "db" kv) ';' (fun a -> match split_on ':' a with
      | [u; up; down; exp; cap] -> (bytes_of_hex u, { u_upCredit = z_of_hex up; u_downCredit = z_of_hex down;
                                                       u_expiry = z_of_hex exp; u_sessionsCap = z_of_hex cap })
      | _ -> failwith ("bad db " ^ a)) }

let dh_table kv =
  let tbl = lst (get "dh" kv) ',' (fun e -> match split_on ':' e with
    | [p; s] -> (p, if s = "!" then None else Some (bytes_of_hex s))
    | _ -> failwith "bad dh") in
  fun (_pv : n list) (pub : n list) ->
    let k = hex_of_bytes pub in
    (try List.assoc k tbl with Not_found -> raise (Miss ("dh " ^ k)))
let hid_table kv =
  let tbl = lst (get "hid" kv) ',' (fun e -> match split_on ':' e with
    | [d; h] -> (d, if h = "!" then None else Some (bytes_of_hex h))
    | _ -> failwith "bad hid") in
  fun (data : n list) ->
    let k = hex_of_bytes data in
    (try List.assoc k tbl with Not_found -> raise (Miss "hid"))

let show_perr = function
  | EMagic -> "hello/magic" | ENotHello -> "hello/nothello" | EHelloLen -> "hello/len"
  | EMalformedHello -> "hello/malformed" | EMalformedExts -> "hello/exts"
  | EMalformedKS -> "ks-malformed" | EKSLen -> "ks-len" | ENoX25519 -> "no-x25519"
  | EInvalidPub -> "pub" | EDH -> "dh" | ECtLen -> "ctlen" | EBadGET -> "badget" | EHttp -> "http"
  | EFuel -> "FUEL"
let show_reason = function
  | RParse e -> "parse:" ^ show_perr e
  | RReplay -> "replay" | RDecrypt -> "decrypt" | RWindow -> "window"
  | REnc -> "enc" | RMethod -> "method" | RUID -> "uid"
let show_decision = function
  | Redirect r -> "redirect/" ^ show_reason r
  | AdminSession -> "admin"
  | ProxySession (u, sid, m, enc, un) ->
    Printf.sprintf "proxy/%s:%s:%s:%d:%s" (hex_of_bytes u) (hex_of_n sid) (hex_of_bytes m) (int_of_n enc) (b01 un)
  | DropConn -> "drop"
  | Crash -> "CRASH"
let show_tr = function TNone -> "none" | TTLS -> "tls" | TWS -> "ws"
let show_rerr = function RNone -> "none" | RShortBuffer -> "short" | RUnrecognised -> "unrecognised"
  | RRead EOF -> "read-eof" | RRead Stall -> "read-timeout" | RFuel -> "FUEL"

let () = iter_lines (fun line ->
  match split_ws line with
  | [] -> ()
  | id :: _ ->
    let kv = kvs line in
    (try
      let st = parse_state kv in
      let now = z_of_hex (get "now" kv) in
      let e = if get "end" kv = "eof" then EOF else Stall in
      let s = bytes_of_hex (get "s" kv) in
      let r = rfp s e in
      let dh = dh_table kv and hid = hid_table kv in
      let o = dispatch_gcm dh hid s e st now in
      let dec = (match r.r_err with
        | RNone -> show_decision (decide_gcm dh (packet_of hid r) st now)
        | x -> "rfp/" ^ show_rerr x) in
      let head = Printf.sprintf "%s n=%d tr=%s redir=%s rerr=%s dec=%s" id (int_of_nat r.r_n) (show_tr r.r_tr)
          (b01 r.r_redir) (b01 (r.r_err <> RNone)) dec in
      (match o with
       | OClose -> Printf.printf "%s out=close tgt=- peer=- pc=1 wc=- srv=0\n" head
       | ODrop -> Printf.printf "%s out=drop tgt=- peer=- pc=0 wc=- srv=0\n" head
       | OCrash -> Printf.printf "%s out=crash\n" head
       | OSession _ when (get "pwfail" kv = "1" && r.r_tr = TTLS) || (get "pwfail" kv = "2" && r.r_tr = TWS) ->
         (* the one Write of the reply fails: finish_tls false / finish_ws false (there the 101 response went out first) *)
         let f = if r.r_tr = TTLS then finish_tls false else finish_ws false in
         Printf.printf "%s out=session-wfail tgt=- peer=%s pc=%s wc=- srv=%s ret=%s\n" head (if f.fo_replied then "*" else "-")
           (b01 f.fo_peer_closed) (b01 f.fo_replied) (b01 f.fo_returned)
       | OSession _ -> Printf.printf "%s out=session tgt=- peer=* pc=0 wc=- srv=1\n" head
       | OWeb (data, rest) ->
         let d = (match get "dial" kv with "fail" -> DialFail | "wfail" -> DialWriteFail | _ -> DialOk) in
         let t = { t_reply = bytes_of_hex (get "reply" kv); t_after = nat_of_int (int_of_string (get "after" kv));
                   t_close = (get "tclose" kv = "1") } in
         let w = goweb data rest e d t in
         Printf.printf "%s out=web tgt=%s peer=%s pc=%s wc=%s srv=%s first=%d\n" head (hex_of_bytes w.w_target)
           (hex_of_bytes w.w_peer) (b01 w.w_peer_closed)
           (if d = DialFail then "-" else b01 w.w_web_closed) (b01 (server_writes o)) (List.length data))
    with Miss m -> Printf.printf "%s MISS %s\n" id m
       | Failure m -> Printf.printf "%s FAIL %s\n" id m))
