(* Relay: replay cases on the extracted model of common.Copy and the RouteTCP uplink (Model/Copy.v).
   input lines:
     <id> C <kind P|W|R> <dn> <reads> <writes>
         reads  = r,r,..|-    r = <hex|->:<n|e|o>           (bytes returned, error nil / io.EOF / other)
         writes = w,w,..|-    w = f<0|1> | n<count>:<0|1>    (full count / that count; error flag)
     <id> U <reads>
   output lines:
     <id> <written> <nil|write|short|read|delegated> fuel=<0|1> left=<nreads>/<nwrites> <ev> ...
         ev = R | W:<hex> | WT | RF | Cs | Cd
     <id> <act> ...       act = W:<hex> | CL | CS *)
let rec z_of_int i = if i = 0 then Z0 else if i > 0 then Zpos (pos_of_int i) else Zneg (pos_of_int (-i))
let int_of_z = function Z0 -> 0 | Zpos p -> int_of_pos p | Zneg p -> - (int_of_pos p)
let parse_list f s = if s = "-" then [] else List.map f (split_on ',' s)
let parse_rd s = match split_on ':' s with
  | [h; e] -> (bytes_of_hex h, (match e with "n" -> RNil | "e" -> REOF | _ -> ROther))
  | _ -> failwith ("bad read " ^ s)
let parse_wr s =
  if s.[0] = 'f' then WFull (s.[1] = '1')
  else match split_on ':' (String.sub s 1 (String.length s - 1)) with
    | [n; e] -> WN (z_of_int (int_of_string n), e = "1")
    | _ -> failwith ("bad write " ^ s)
let show_ev = function
  | ERead -> "R" | EWrite p -> "W:" ^ hex_of_bytes p | EWriteTo -> "WT" | EReadFrom -> "RF"
  | ECloseSrc -> "Cs" | ECloseDst -> "Cd"
let show_err = function CNil -> "nil" | CWrite -> "write" | CShortWrite -> "short" | CRead -> "read" | CDelegated -> "delegated"
let () = iter_lines (fun line ->
  match split_ws line with
  | [id; "C"; kind; dn; reads; writes] ->
    let k = (match kind with "W" -> KWriterTo | "R" -> KReaderFrom | _ -> KPlain) in
    let o = copy k (parse_list parse_rd reads) (parse_list parse_wr writes) (z_of_int (int_of_string dn)) in
    Printf.printf "%s %d %s fuel=%s left=%d/%d" id (int_of_z o.co_written) (show_err o.co_err) (b01 o.co_fuel)
      (List.length o.co_reads_left) (List.length o.co_writes_left);
    List.iter (fun e -> print_char ' '; print_string (show_ev e)) o.co_evs; print_newline ()
  | [id; "U"; reads] ->
    print_string id;
    List.iter (fun a -> print_char ' '; print_string (match a with SWrite p -> "W:" ^ hex_of_bytes p | SCloseLocal -> "CL" | SCloseStream -> "CS"))
      (route_tcp_up (parse_list parse_rd reads));
    print_newline ()
  | [id; "S"; _gate; csizes; ccloses; psizes; peof] ->
    (* the relay pair of one stream (Model/RelayPair.v) under a fair schedule (Down, Up alternating until both
       have finished or nothing moves any more) *)
    let sizes s = if s = "-" then [] else List.map int_of_string (split_on ',' s) in
    let chunk a b c k n = List.init n (fun i -> byte_table.((k * a + i * b + c) land 255)) in
    let cch = List.mapi (chunk 53 7 1) (sizes csizes) and pch = List.mapi (chunk 91 5 3) (sizes psizes) in
    let r0 = init cch (ccloses = "1") pch (peof = "1") in
    let n = 2 * (List.length cch + List.length pch) + 12 in
    let sched = List.concat (List.init n (fun _ -> [Down; Up])) in
    let r = run false r0 sched in
    Printf.printf "%s out=%s closed=%s up=%s sclosed=%s finished=%s\n" id (hex_of_bytes r.l_out) (b01 r.l_closed)
      (hex_of_bytes (List.concat r.s_out)) (b01 r.s_closed) (b01 (finished r))
  | [] -> ()
  | id :: _ -> Printf.printf "%s bad-case\n" id)
