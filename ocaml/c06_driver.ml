(* C06: the extracted handshake model (Model/Auth.v, HelloGrammar.v, X25519.v, GCM.v) on case lines.
   Byte strings in hex ("-" = empty), N in hex, Z as [-]hex.

   <id> HS <tls|ws> <g|t> <spv> <ephpv> <spub> <epub> <ss> <snow> <ts> <fp> <reply> <skey>
          <uid> <method> <enc> <sid> <unordered> <name>
       g: Diffie-Hellman by the Gallina ladder; t: by the table {(spv,epub) -> ss, (ephpv,spub) -> ss}
          that Go computed (ScalarBaseMult ephpv = epub)
       fp    = what the real client sent (tls: the ClientHello record; ws: the bytes of the `hidden` header)
       reply = what the real server answered (tls: the three records; ws: the 60-byte message), "-" if none
     -> <id> S=<server_process fp> F=<client_finish reply> RP=<model reply == reply> PL=<model client
        payload == fields of fp> PT=<pack> W=<wf_client_hello name fp>
   <id> FP <tls|ws> <spv> <snow> <fp>   forged first packet -> <id> S=<server_process fp> (Gallina X25519)
   <id> MS <sid:fresh,..>         connections of one user in arrival order (session id, fresh key drawn)
                                  -> <id> keys=<key carried by each reply> table=<sid:key of the session table afterwards>
   <id> D <plaintext> <snow>      -> <id> S=<unpack>
   <id> X <scalar> <u>            -> <id> <x25519 scalar u> (Gallina ladder) *)
let z_of_hex s =
  if String.length s > 0 && s.[0] = '-' then
    (match n_of_hex (String.sub s 1 (String.length s - 1)) with N0 -> Z0 | Npos p -> Zneg p)
  else (match n_of_hex s with N0 -> Z0 | Npos p -> Zpos p)
let show_info i =
  Printf.sprintf "A:%s:%s:%s:%s:%s" (hex_of_bytes i.i_uid) (hex_of_bytes i.i_method) (hex_of_n i.i_enc)
    (hex_of_n i.i_sid) (b01 i.i_unordered)
let show_rej = function
  | RejHello -> "hello" | RejDH -> "dh" | RejCtLen -> "ctlen" | RejDecrypt -> "decrypt" | RejWindow -> "window"
exception Table_miss
let rec firstn k l = if k = 0 then [] else match l with [] -> [] | x :: t -> x :: firstn (k - 1) t
let rec skipn k l = if k = 0 then l else match l with [] -> [] | _ :: t -> skipn (k - 1) t
let () = iter_lines (fun line ->
  match split_ws line with
  | [id; "HS"; tr; dhm; spv; ephpv; spub; epub; ss; snow; ts; fp; reply; skey; uid; meth; enc; sid; un; name] ->
    let spv = bytes_of_hex spv and ephpv = bytes_of_hex ephpv and spub = bytes_of_hex spub
    and epub = bytes_of_hex epub and ss_b = bytes_of_hex ss and fp = bytes_of_hex fp
    and reply_b = bytes_of_hex reply and skey = bytes_of_hex skey and name = bytes_of_hex name in
    let snow = z_of_hex snow and ts = n_of_hex ts in
    let dh, pubf =
      if dhm = "g" then dh_x25519, pub_x25519
      else
        (fun a b ->
           if (a = spv && b = epub) || (a = ephpv && b = spub) then (if ss_b = [] then None else Some ss_b)
           else raise Table_miss),
        (fun a -> if a = ephpv then epub else raise Table_miss) in
    let info = { i_uid = bytes_of_hex uid; i_method = bytes_of_hex meth; i_enc = n_of_hex enc;
                 i_sid = n_of_hex sid; i_unordered = (un = "1") } in
    (* server side of the model on the real first packet *)
    let sres = try Some (if tr = "tls" then x_server_process_tls dh fp spv snow else x_server_process_ws dh fp spv snow)
               with Table_miss -> None in
    let s_str = match sres with
      | None -> "dh-table-miss"
      | Some (Accept (i, _, _)) -> show_info i
      | Some (Reject r) -> "R:" ^ show_rej r
      | Some SPanic -> "P" in
    (* client side of the model: payload from the configuration and the ephemeral key *)
    let payload = try x_client_payload dh pubf info ts ephpv spub with Table_miss -> None in
    let located =
      if tr = "tls" then (match locate_fields fp with Some ((r, s), k) -> Some (r, s @ k) | None -> None)
      else (let h = b64_decode fp in Some (firstn 32 h, skipn 32 h)) in
    let pl_str, shared_c = match payload, located with
      | Some ((rp, ct), sh), Some (r, c) -> b01 (rp = r && ct = c), Some sh
      | Some ((_, _), sh), None -> "0", Some sh
      | None, _ -> "none", None in
    (* model client finishes the real server's reply *)
    let f_str = match shared_c with
      | None -> "noshared"
      | Some sh ->
        if reply_b = [] then "na" else
        (match (if tr = "tls" then x_client_finish_tls sh reply_b else x_client_finish_ws sh reply_b) with
         | Some k -> hex_of_bytes k | None -> "none") in
    (* model server's reply, with the random choices read off the real reply, must be the real reply *)
    let rp_str =
      if reply_b = [] then "na" else
      match sres with
      | Some (Accept (_, shared, sid_echo)) ->
        if tr = "tls" then
          (match parse_server_flight reply_b with
           | Some sf ->
             let nonce = firstn 12 sf.sf_random and filler = skipn 28 sf.sf_share in
             b01 (x_server_reply_tls shared sid_echo skey nonce filler sf.sf_cert = reply_b)
           | None -> "unparsed")
        else b01 (x_server_reply_ws shared skey (firstn 12 reply_b) = reply_b)
      | _ -> "norep" in
    let w_str = if tr = "tls" then b01 (wf_client_hello name fp) else "na" in
    Printf.printf "%s S=%s F=%s RP=%s PL=%s PT=%s W=%s\n" id s_str f_str rp_str pl_str
      (hex_of_bytes (pack info ts)) w_str
  | [id; "FP"; tr; spv; snow; fp] ->
    (* a first packet no client code produced: server side of the model with the Gallina X25519 *)
    let fp = bytes_of_hex fp and spv = bytes_of_hex spv and snow = z_of_hex snow in
    let s = match (if tr = "tls" then x_server_process_tls dh_x25519 fp spv snow else x_server_process_ws dh_x25519 fp spv snow) with
      | Accept (i, _, _) -> show_info i | Reject r -> "R:" ^ show_rej r | SPanic -> "P" in
    Printf.printf "%s S=%s\n" id s
  | [id; "MS"; conns] ->
    (* connections of one user in arrival order, sid:fresh-key ; the key each reply carries and the table afterwards *)
    let cs = List.map (fun e -> match split_on ':' e with
      | [sid; fresh] -> (n_of_hex sid, bytes_of_hex fresh) | _ -> failwith "bad MS") (split_on ',' conns) in
    let keys = serve_keys [] cs and tbl = table_after [] cs in
    Printf.printf "%s keys=%s table=%s\n" id (String.concat "," (List.map hex_of_bytes keys))
      (String.concat "," (List.map (fun (sid, _) -> match tbl_get sid tbl with
         | Some k -> hex_of_n sid ^ ":" ^ hex_of_bytes k | None -> hex_of_n sid ^ ":none")
         (List.sort_uniq compare (List.map (fun (s, _) -> (s, ())) cs))))
  | [id; "D"; pt; snow] ->
    let s = match unpack (bytes_of_hex pt) (z_of_hex snow) with
      | UOk i -> show_info i | UWindow _ -> "R:window" | UPanic -> "P" in
    Printf.printf "%s S=%s\n" id s
  | [id; "X"; k; u] ->
    Printf.printf "%s %s\n" id (hex_of_bytes (x25519 (bytes_of_hex k) (bytes_of_hex u)))
  | _ -> ())
