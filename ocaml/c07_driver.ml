(* C07: the extracted decision model.
   input  : <id> now=<hex Z> kind=tls|ws pkt=<hex> <state tokens as for c09> dh=<pub:shared|!,..> hid=<data:hidden|!,..>
            [x25519=1 : compute X25519 with the Gallina ladder instead of the table]
   output : <id> auth=<class> ci=<uid:sid:method:enc:unordered> dec=<decision> disp=admin|proxy|web|close|drop|crash *)
exception Miss of string

let kvs line =
  List.filter_map (fun t -> match String.index_opt t '=' with
    | Some i -> Some (String.sub t 0 i, String.sub t (i + 1) (String.length t - i - 1))
    | None -> None) (split_ws line)
let get k l = try List.assoc k l with Not_found -> "-"
let z_of_hex s =
  if s = "" || s = "-" then Z0
  else if s.[0] = '-' then (match n_of_hex (String.sub s 1 (String.length s - 1)) with N0 -> Z0 | Npos p -> Zneg p)
  else (match n_of_hex s with N0 -> Z0 | Npos p -> Zpos p)
let lst s sep f = if s = "-" || s = "" then [] else List.map f (split_on sep s)

let parse_state kv =
  { st_staticPv = bytes_of_hex (get "pv" kv);
    st_adminUID = bytes_of_hex (get "admin" kv);
    st_bypass = lst (get "bypass" kv) ',' bytes_of_hex;
    st_proxyBook = lst (get "book" kv) ',' bytes_of_hex;
    st_usedRandom = lst (get "used" kv) ',' bytes_of_hex;
    st_active = lst (get "active" kv) ';' (fun a -> match split_on ':' a with
      | [u; b; sids] -> { a_uid = bytes_of_hex u; a_bypass = (b = "1"); a_sessions = lst sids '.' n_of_hex }
      | _ -> failwith ("bad active " ^ a));
    st_db = lst (get "db" kv) ';' (fun a -> match split_on ':' a with
      | [u; up; down; exp; cap] -> (bytes_of_hex u, { u_upCredit = z_of_hex up; u_downCredit = z_of_hex down;
                                                       u_expiry = z_of_hex exp; u_sessionsCap = z_of_hex cap })
      | _ -> failwith ("bad db " ^ a)) }

let dh_entries kv =
  lst (get "dh" kv) ',' (fun e -> match split_on ':' e with
    | [p; s] -> (p, if s = "!" then None else Some (bytes_of_hex s))
    | _ -> failwith "bad dh")
(* Go's X25519 failed ("!") exactly on the ephemeral values the model calls small-order (Model/LowOrder.v) *)
let low_order_mismatches kv =
  List.length (List.filter (fun (p, s) -> low_order (bytes_of_hex p) <> (s = None)) (dh_entries kv))
let dh_table kv =
  let tbl = dh_entries kv in
  fun (_pv : n list) (pub : n list) ->
    let k = hex_of_bytes pub in
    (try List.assoc k tbl with Not_found -> raise (Miss ("dh " ^ k)))
let hid_table kv =
  let tbl = lst (get "hid" kv) ',' (fun e -> match split_on ':' e with
    | [d; h] -> (d, if h = "!" then None else Some (bytes_of_hex h))
    | _ -> failwith "bad hid") in
  fun (data : n list) ->
    let k = hex_of_bytes data in
    (try List.assoc k tbl with Not_found -> raise (Miss "hid"))

(* AES-GCM is always the model's; memoised because auth / decide / dispatch open the same block *)
let gcm_memo : (string, n list option) Hashtbl.t = Hashtbl.create 16
let gcm k n ct aad =
  let key = hex_of_bytes k ^ ":" ^ hex_of_bytes n ^ ":" ^ hex_of_bytes ct in
  match Hashtbl.find_opt gcm_memo key with
  | Some r -> r
  | None -> let r = gcm_open k n ct aad in
    if Hashtbl.length gcm_memo > 64 then Hashtbl.reset gcm_memo;
    Hashtbl.replace gcm_memo key r; r

(* the Gallina X25519 costs ~1.5 s: auth / decide / dispatch ask for the same product *)
let dh_memo : (string, n list option) Hashtbl.t = Hashtbl.create 16
let dh_real_memo pv pub =
  let key = hex_of_bytes pv ^ ":" ^ hex_of_bytes pub in
  match Hashtbl.find_opt dh_memo key with
  | Some r -> r
  | None -> let r = dh_real pv pub in Hashtbl.replace dh_memo key r; r

(* ---- configuration layer: the State comes from the model of InitState (Model/ServerInit.v) on the RawConfig
   tokens  cfg=1 rpk=<hex> radmin=<hex> rbypass=<hex,..> (an empty entry is written "e") rbook=<name:s1.s2...;..> (hex strings)
           rredir=<hex> rdb=0|1 rka=<[-]hex> rcnc=0|1 rres=<host:0|1,..> ares=<network:address:0|1,..> db=<records of the file> *)
let raw_of kv =
  let strs s = lst s '.' (fun x -> if x = "e" then [] else bytes_of_hex x) in
  { rc_book = lst (get "rbook" kv) ';' (fun e -> match split_on ':' e with
      | [n; p] -> ((if n = "e" then [] else bytes_of_hex n), strs p)
      | [n] -> ((if n = "e" then [] else bytes_of_hex n), [])
      | _ -> failwith "bad rbook");
    rc_bypass = lst (get "rbypass" kv) ',' (fun x -> if x = "e" then [] else bytes_of_hex x);
    rc_redir = bytes_of_hex (get "rredir" kv);
    rc_privateKey = bytes_of_hex (get "rpk" kv);
    rc_admin = bytes_of_hex (get "radmin" kv);
    rc_dbPath = (if get "rdb" kv <> "0" then [N0] else []);      (* 2 = a path bolt.Open cannot open *)
    rc_keepAlive = z_of_hex (get "rka" kv);
    rc_cnc = (get "rcnc" kv = "1") }
let resolve_ip_table kv =
  let tbl = lst (get "rres" kv) ',' (fun e -> match split_on ':' e with
    | [h; r] -> ((if h = "-" then "" else h), r = "1") | _ -> failwith "bad rres") in
  fun (h : n list) -> let k = hex_of_bytes h in
    (try List.assoc (if k = "-" then "" else k) tbl with Not_found -> raise (Miss ("resolve host " ^ k)))
let resolve_addr_table kv =
  let tbl = lst (get "ares" kv) ',' (fun e -> match split_on ':' e with
    | [nw; a; r] -> ((nw, a), r = "1") | _ -> failwith "bad ares") in
  fun (nw : n list) (a : n list) ->
    (try List.assoc (hex_of_bytes nw, hex_of_bytes a) tbl with Not_found -> raise (Miss "resolve addr"))
let show_ierr = function IECnc -> "cnc" | IEDb -> "db" | IERedir -> "redir" | IEBook -> "book" | IEKey -> "key"
let show_z z = match z with Z0 -> "0" | Zpos p -> string_of_int (int_of_n (Npos p)) | Zneg p -> "-" ^ string_of_int (int_of_n (Npos p))
let join l = if l = [] then "-" else String.concat "," l

let show_perr = function
  | EMagic | ENotHello | EHelloLen | EMalformedHello | EMalformedExts -> "hello"
  | EMalformedKS -> "ks-malformed" | EKSLen -> "ks-len" | ENoX25519 -> "no-x25519"
  | EInvalidPub -> "pub" | EDH -> "dh" | ECtLen -> "ctlen" | EBadGET -> "badget" | EHttp -> "http"
  | EFuel -> "FUEL"
let show_reason = function
  | RParse e -> "parse:" ^ show_perr e
  | RReplay -> "replay" | RDecrypt -> "decrypt" | RWindow -> "window"
  | REnc -> "enc" | RMethod -> "method" | RUID -> "uid"
let show_ci u sid m enc un =
  Printf.sprintf "%s:%s:%s:%d:%s" (hex_of_bytes u) (hex_of_n sid) (hex_of_bytes m) (int_of_n enc) (b01 un)
let show_decision = function
  | Redirect r -> "redirect/" ^ show_reason r
  | AdminSession -> "admin"
  | ProxySession (u, sid, m, enc, un) -> "proxy/" ^ show_ci u sid m enc un
  | DropConn -> "drop"
  | Crash -> "CRASH"

let () = iter_lines (fun line ->
  match split_ws line with
  | [] -> ()
  | id :: _ ->
    let kv = kvs line in
    (try
      let now = z_of_hex (get "now" kv) in
      let st, initdesc =
        if get "cfg" kv <> "1" then parse_state kv, ""
        else begin
          let dbrec = (parse_state kv).st_db in
          match init_state (resolve_ip_table kv) (resolve_addr_table kv) (fun _ -> if get "rdb" kv = "2" then None else Some dbrec) (raw_of kv) with
          | IErr e -> raise (Failure ("INIT " ^ show_ierr e))
          | IOk io ->
            let st = io.io_state in
            st, Printf.sprintf " init=ok adm=%s byp=%s ibook=%s mgr=%s ka=%s ipv=%s rhost=%s rport=%s"
              (hex_of_bytes st.st_adminUID)
              (join (List.sort_uniq compare (List.map hex_of_bytes st.st_bypass)))
              (join (List.sort_uniq compare (List.map hex_of_bytes st.st_proxyBook)))
              (if io.io_local_manager then "local" else "void") (show_z io.io_keepAlive)
              (hex_of_bytes st.st_staticPv) (hex_of_bytes io.io_redirHost) (hex_of_bytes io.io_redirPort)
        end in
      let pkt = bytes_of_hex (get "pkt" kv) in
      let dh = if get "x25519" kv = "1" then dh_real_memo else dh_table kv in
      let hid = hid_table kv in
      let p = if get "kind" kv = "ws" then PWS (hid pkt) else PTLS pkt in
      let auth = (match auth_first_packet dh gcm p st now with
        | DOk ci -> "ok ci=" ^ show_ci ci.ci_uid ci.ci_sid ci.ci_method ci.ci_enc ci.ci_unordered
        | DFail r -> show_reason r ^ " ci=-"
        | DPanic -> "PANIC ci=-") in
      let dec = show_decision (decide dh gcm p st now) in
      let disp = (match dispatch_conn dh gcm hid pkt Stall st now with
        | OClose -> "close" | ODrop -> "drop" | OCrash -> "crash" | OWeb (_, _) -> "web"
        | OSession AdminSession -> "admin" | OSession _ -> "proxy") in
      Printf.printf "%s auth=%s dec=%s disp=%s lomis=%d%s\n" id auth dec disp (low_order_mismatches kv) initdesc
    with Miss m -> Printf.printf "%s MISS %s\n" id m
       | Failure m when String.length m > 5 && String.sub m 0 5 = "INIT " ->
         Printf.printf "%s init=err:%s\n" id (String.sub m 5 (String.length m - 5))
       | Failure m -> Printf.printf "%s FAIL %s\n" id m))
