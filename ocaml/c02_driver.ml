(* C02: replay event lists on the extracted model of streamBuffer.
   input line : <id> <base hex> <ev> <ev> ...
     ev = W:<seq hex>:<closing 0|1>:<payload hex>  |  R:<k>  |  C
   output line: <id> <obs> ...   obs = w<toBeClosed><err> | r:<hex> | rE (empty) | rF (EOF) | c *)
let parse_ev s = match split_on ':' s with
  | ["W"; sq; cl; pl] -> Wr { seq = n_of_hex sq; closing = (cl = "1"); payload = bytes_of_hex pl }
  | ["R"; k] -> Rd (nat_of_int (int_of_string k))
  | ["C"] -> Cl
  | _ -> failwith ("bad ev " ^ s)
let show_obs = function
  | OWr (c, e) -> "w" ^ b01 c ^ b01 e
  | ORd (RdData d) -> "r:" ^ hex_of_bytes d
  | ORd RdEOF -> "rF"
  | ORd RdEmpty -> "rE"
  | OCl -> "c"
let () = iter_lines (fun line ->
  match split_ws line with
  | id :: base :: evs ->
    let es = List.map parse_ev evs in
    let (_, os) = steps (rb_init (n_of_hex base)) es in
    print_string id; List.iter (fun o -> print_char ' '; print_string (show_obs o)) os; print_newline ()
  | _ -> ())
