(* Connector: replay cases on the extracted model of client.MakeSession (Model/Connector.v).
   input : <id> K <direct 0|1> <browser c|f|s> <g1>/<g2>/..      g = attempt outcomes of one goroutine: d h o  (e.g. dho)
   output: <id> est=<0|1> nconn=<n> <per goroutine: sig=<letters> dials=<n> sleeps=<n> closes=<n> delivered=<n>> ... *)
let br = function "c" -> Chrome | "f" -> Firefox | _ -> Safari
let brs = function Chrome -> "c" | Firefox -> "f" | Safari -> "s"
let () = iter_lines (fun line ->
  match split_ws line with
  | [id; "K"; direct; b; gs] ->
    let scripts = List.map (fun g -> List.init (String.length g) (fun i ->
        match g.[i] with 'd' -> ADialFail | 'h' -> AHsFail | _ -> AOk (n_of_int 7))) (split_on '/' gs) in
    let d = (direct = "1") in
    let order = List.init (List.length scripts) (fun i -> nat_of_int i) in
    (match make_session d (br b) scripts order with
     | Some (_, n) -> Printf.printf "%s est=1 nconn=%d" id (int_of_nat n)
     | None -> Printf.printf "%s est=0 nconn=0" id);
    List.iter (fun s ->
      let (evs, _) = conn_loop d (br b) s in
      Printf.printf " sig=%s dials=%d sleeps=%d closes=%d delivered=%d"
        (String.concat "" (List.map brs (creates evs)))
        (int_of_nat (count_ev is_dial evs)) (int_of_nat (count_ev is_sleep evs))
        (int_of_nat (count_ev is_close evs)) (int_of_nat (count_ev is_deliver evs))) scripts;
    print_newline ()
  | _ -> ())
