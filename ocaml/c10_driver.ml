(* C10: the extracted TLS grammar (Model/HelloGrammar.v) and writers (Model/Auth.v) on tapped byte streams.
   <id> C <name hex | ?> <c2s hex>   everything the client wrote on one connection
        -> <id> ok <name> <random> <sid> <share> <n0,n1,...>   (lengths of the application-data records)
         | <id> fail:<why>
        "?" = the name must be one randomServerName() can produce
   <id> S <s2c hex>                  everything the server wrote on one connection
        -> <id> ok <random> <sid> <share> <certlen> <n0,n1,...> | <id> fail
   <id> W <stream hex> <l0,l1,...>   the individual raw writes after the first: each must be exactly what
                                     TLSConn.Write emits for its body -> <id> <number that are> <number of writes> *)
let lens ls = if ls = [] then "-" else String.concat "," (List.map (fun b -> string_of_int (List.length b)) ls)
let rec take k l = if k = 0 then [] else match l with [] -> [] | x :: t -> x :: take (k - 1) t
let rec drop k l = if k = 0 then l else match l with [] -> [] | _ :: t -> drop (k - 1) t
let () = iter_lines (fun line ->
  match split_ws line with
  | [id; "C"; name; s] ->
    let s = bytes_of_hex s in
    let nm = if name = "?" then
        (match client_stream_name s with Some n when is_random_name n -> Some n | _ -> None)
      else Some (bytes_of_hex name) in
    (match nm with
     | None -> Printf.printf "%s fail:name\n" id
     | Some n ->
       (match parse_client_stream n s with
        | Some (h, bodies) ->
          (match hello_share h with
           | Some k -> Printf.printf "%s ok %s %s %s %s %s\n" id (hex_of_bytes n) (hex_of_bytes h.h_random)
                         (hex_of_bytes h.h_sid) (hex_of_bytes k) (lens bodies)
           | None -> Printf.printf "%s fail:share\n" id)
        | None -> Printf.printf "%s fail:grammar\n" id))
  | [id; "S"; s] ->
    (match parse_server_stream (bytes_of_hex s) with
     | Some (f, bodies) ->
       Printf.printf "%s ok %s %s %s %d %s\n" id (hex_of_bytes f.sf_random) (hex_of_bytes f.sf_sid)
         (hex_of_bytes f.sf_share) (List.length f.sf_cert) (lens bodies)
     | None -> Printf.printf "%s fail\n" id)
  | [id; "W"; s; ls] ->
    let s = ref (bytes_of_hex s) in
    let ok = ref 0 and n = ref 0 in
    List.iter (fun l ->
      let k = int_of_string l in
      let w = take k !s in
      s := drop k !s;
      incr n;
      (match parse_record w with
       | Some (r, []) -> (match tlsconn_write r.r_body with Some w' when w' = w -> incr ok | _ -> ())
       | _ -> ())) (if ls = "-" then [] else split_on ',' ls);
    Printf.printf "%s %d %d\n" id !ok !n
  | _ -> ())
