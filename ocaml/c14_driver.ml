(* C14: replay cases on the extracted model of datagramBufferedPipe / unordered Stream.Write /
   the receive side of an unordered session.
   input lines:
     <id> P <ev> ...            ev  = W:<closing 0|1>:<payload hex> | R:<k> | C
     <id> U <limit> <closed 0|1> <len>      (payload byte i = (i*7+3) mod 256)
     <id> Q|QP|QD|QDP|QS <limit> <len>      (UDP relays; output <forwarded len>:<identical>:<prefix> | none:0:0)
     <id> S <ids: a,b,..|-> <sev> ...       sev = V:<sid>:<closing 0|1|2>:<payload hex> | R:<sid>:<k> | X:<sid>
   output lines:
     <id> wS|wC|wP|wB  r:<hex>|rF|rS|rE  c ... i:<len lens>:<len buf>:<closed>
     <id> <n> <nil|broken|short> <nframes> <frame-equals-input 0|1|->
     <id> v<new><broken> | r:<hex>|rF|rS|rE|rN|r0 | x ... | e:<sid>:<npending>:<closed>:<live> ... *)
let rec z_of_int i = if i = 0 then Z0 else if i > 0 then Zpos (pos_of_int i) else Zneg (pos_of_int (-i))
let int_of_z = function Z0 -> 0 | Zpos p -> int_of_pos p | Zneg p -> - (int_of_pos p)

let show_rd = function
  | RdData d -> "r:" ^ hex_of_bytes d
  | RdEOF -> "rF" | RdShort -> "rS" | RdEmpty -> "rE"
let show_obs = function
  | OWr WrStored -> "wS" | OWr WrClosing -> "wC" | OWr WrClosedPipe -> "wP" | OWr WrWouldBlock -> "wB"
  | ORd r -> show_rd r
  | OCl -> "c"
let parse_ev s = match split_on ':' s with
  | ["W"; cl; pl] -> Wr ((cl = "1"), bytes_of_hex pl)
  | ["R"; k] -> Rd (nat_of_int (int_of_string k))
  | ["C"] -> Cl
  | _ -> failwith ("bad ev " ^ s)
let parse_sev s = match split_on ':' s with
  | ["V"; sid; cl; pl] ->
    SRecv { f_sid = n_of_int (int_of_string sid);
            f_closing = (match cl with "0" -> ClNothing | "1" -> ClStream | _ -> ClSession);
            f_payload = bytes_of_hex pl }
  | ["R"; sid; k] -> SRead (n_of_int (int_of_string sid), nat_of_int (int_of_string k))
  | ["X"; sid] -> SClose (n_of_int (int_of_string sid))
  | _ -> failwith ("bad sev " ^ s)
let show_sobs = function
  | OSRecv RvStored | OSRecv RvStreamClosed | OSRecv RvDropped | OSRecv RvSessionClosed | OSRecv RvWouldBlock -> "v00"
  | OSRecv RvNewStored | OSRecv RvNewStreamClosed -> "v10"
  | OSRecv RvBroken -> "v01"
  | OSRead SrNoStream -> "rN"
  | OSRead SrZero -> "r0"
  | OSRead (Sr r) -> show_rd r
  | OSClose -> "x"
let () = iter_lines (fun line ->
  match split_ws line with
  | id :: "P" :: evs ->
    let es = List.map parse_ev evs in
    let (d, os) = steps dg_init es in
    print_string id; List.iter (fun o -> print_char ' '; print_string (show_obs o)) os;
    Printf.printf " i:%d:%d:%s\n" (List.length d.lens) (List.length d.buf) (b01 d.closed)
  | [id; "U"; limit; closed; len] ->
    let n = int_of_string len in
    let inp = List.init n (fun i -> byte_table.((i * 7 + 3) mod 256)) in
    let maxu = max_unit (z_of_int (int_of_string limit)) in
    let ((w, e), fs) = usw_write maxu (closed = "1") inp in
    Printf.printf "%s %d %s %d %s\n" id (int_of_z w)
      (match e with SwNil -> "nil" | SwBrokenStream -> "broken" | SwShortBuffer -> "short")
      (List.length fs) (match fs with [f] -> b01 (f = inp) | _ -> "-")
  | [id; which; limit; len] when which = "Q" || which = "QP" || which = "QD" || which = "QDP" || which = "QS" ->
    (* the UDP relays.  Q: client uplink, current buffer; QP: with the pre-fix buffer; QD / QDP: client
       downlink (a pipe holding one datagram of <len> bytes); QS: server side Stream.ReadFrom.
       output <forwarded len>:<identical>:<prefix> | none:0:0 *)
    let n = int_of_string len in
    let inp = List.init n (fun i -> byte_table.((i * 7 + 3) mod 256)) in
    let maxu = max_unit (z_of_int (int_of_string limit)) in
    let rec is_prefix a b = match a, b with [] , _ -> true | x :: a', y :: b' -> x = y && is_prefix a' b' | _ -> false in
    let show = function
      | Some f -> Printf.sprintf "%d:%s:%s" (List.length f) (b01 (f = inp)) (b01 (is_prefix f inp))
      | None -> "none:0:0" in
    let one = function [f] -> Some f | _ -> None in
    let res = match which with
      | "Q" -> let ((_, _), fs) = route_udp_up maxu inp in one fs
      | "QP" -> let ((_, _), fs) = relay_up relay_buf_prefix maxu inp in one fs
      | "QD" | "QDP" ->
        let (p, _) = dg_write dg_init false inp in
        snd (relay_down (if which = "QD" then relay_buf else relay_buf_prefix) p)
      | _ -> one (stream_read_from_dgram maxu inp) in
    Printf.printf "%s %s\n" id (show res)
  | id :: "S" :: ids :: evs ->
    let ids = if ids = "-" then [] else List.map (fun s -> n_of_int (int_of_string s)) (split_on ',' ids) in
    let es = List.map parse_sev evs in
    let (st, os) = ssteps (ss_opened ids) es in
    print_string id; List.iter (fun o -> print_char ' '; print_string (show_sobs o)) os;
    let ents = List.sort compare (List.map (fun e -> (int_of_n e.sid, List.length e.spipe.lens, e.spipe.closed, e.live)) st.table) in
    List.iter (fun (s, n, c, l) -> Printf.printf " e:%d:%d:%s:%s" s n (b01 c) (b01 l)) ents;
    print_newline ()
  | _ -> ())
