(* C04 / C11: the extracted codec model (and its ciphers) on case lines.
   input lines (fields separated by blanks, byte strings in hex, "-" = empty):
     <id> ENC <m> <key> <sid> <seq> <closing> <payload> <padLen dec> <rnd>      -> <id> <msg> | none
     <id> ENCBUF <m> <key> <sid> <seq> <closing> <payload> <padLen dec> <rnd> <buflen dec> -> idem
     <id> DEC <m> <key> <msg>      -> <id> ok <sid> <seq> <closing> <payload> | err:<kind> | panic
     <id> REENC <m> <key> <msg>    -> <id> <re-encoded msg> <padLen dec>:<pad_len seq padLen = padLen 0|1> ok <sid> <seq> <closing> <payload> | none
     <id> PRIM salsa <key> <nonce8> <data>                 -> <id> <out>
     <id> PRIM chachapoly|gcm <key> <nonce12> <pt> <aad>   -> <id> <sealed>
     <id> PRIMOPEN chachapoly|gcm <key> <nonce12> <ct> <aad> -> <id> <pt> | fail
   m = 0 plain, 1 aes-256-gcm, 2 chacha20-poly1305, 3 aes-128-gcm (Cloak's method codes) *)
let meth = function
  | "0" -> Plain | "1" -> AES256GCM | "2" -> ChaCha20Poly1305 | "3" -> AES128GCM
  | s -> failwith ("method " ^ s)
let z_of_int i = if i = 0 then Z0 else if i > 0 then Zpos (pos_of_int i) else Zneg (pos_of_int (-i))
let show_result = function
  | Ok f -> Printf.sprintf "ok %s %s %s %s" (hex_of_n f.f_sid) (hex_of_n f.f_seq) (hex_of_n f.f_closing)
              (hex_of_bytes f.f_payload)
  | Err ErrShort -> "err:short"
  | Err ErrExtraLen -> "err:extralen"
  | Err ErrAuth -> "err:auth"
  | Panic -> "panic"
let mkframe sid sq cl pl =
  { f_sid = n_of_hex sid; f_seq = n_of_hex sq; f_closing = n_of_hex cl; f_payload = bytes_of_hex pl }
let () = iter_lines (fun line ->
  match split_ws line with
  | [id; "ENC"; m; key; sid; sq; cl; pl; pad; rnd] ->
    (match encode (meth m) (bytes_of_hex key) (mkframe sid sq cl pl) (n_of_int (int_of_string pad)) (bytes_of_hex rnd) with
     | Some msg -> Printf.printf "%s %s\n" id (hex_of_bytes msg)
     | None -> Printf.printf "%s none\n" id)
  | [id; "ENCBUF"; m; key; sid; sq; cl; pl; pad; rnd; bl] ->
    let k = bytes_of_hex key in
    (match encode_in_buf (payload_cipher (meth m) k) k (mkframe sid sq cl pl) (n_of_int (int_of_string pad))
             (bytes_of_hex rnd) (z_of_int (int_of_string bl)) with
     | Some msg -> Printf.printf "%s %s\n" id (hex_of_bytes msg)
     | None -> Printf.printf "%s none\n" id)
  | [id; "DEC"; m; key; msg] ->
    Printf.printf "%s %s\n" id (show_result (decode (meth m) (bytes_of_hex key) (bytes_of_hex msg)))
  | [id; "REENC"; m; key; msg] ->
    let k = bytes_of_hex key in
    (match recover (meth m) k (bytes_of_hex msg) with
     | Some ((f, pad), rnd) ->
       (match encode (meth m) k f pad rnd with
        | Some msg' ->
          (* thr: can the model's obfuscate (pad_len seq draw) have chosen this padding for this seq? *)
          let thr = (pad_len f.f_seq pad = pad) in
          Printf.printf "%s %s %d:%s %s\n" id (hex_of_bytes msg') (int_of_n pad) (b01 thr) (show_result (Ok f))
        | None -> Printf.printf "%s none\n" id)
     | None -> Printf.printf "%s none\n" id)
  | [id; "PRIM"; "salsa"; key; nonce; data] ->
    Printf.printf "%s %s\n" id (hex_of_bytes (salsa20_xor (bytes_of_hex key) (bytes_of_hex nonce) (bytes_of_hex data)))
  | [id; "PRIM"; "chachapoly"; key; nonce; pt; aad] ->
    Printf.printf "%s %s\n" id (hex_of_bytes (chachapoly_seal (bytes_of_hex key) (bytes_of_hex nonce) (bytes_of_hex pt) (bytes_of_hex aad)))
  | [id; "PRIM"; "gcm"; key; nonce; pt; aad] ->
    Printf.printf "%s %s\n" id (hex_of_bytes (gcm_seal (bytes_of_hex key) (bytes_of_hex nonce) (bytes_of_hex pt) (bytes_of_hex aad)))
  | [id; "PRIMOPEN"; which; key; nonce; ct; aad] ->
    let f = if which = "gcm" then gcm_open else chachapoly_open in
    (match f (bytes_of_hex key) (bytes_of_hex nonce) (bytes_of_hex ct) (bytes_of_hex aad) with
     | Some pt -> Printf.printf "%s %s\n" id (hex_of_bytes pt)
     | None -> Printf.printf "%s fail\n" id)
  | [] -> ()
  | id :: _ -> Printf.printf "%s badline\n" id)
