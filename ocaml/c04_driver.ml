(* C04 / C11: the extracted codec model (and its ciphers) on case lines.
   input lines (fields separated by blanks, byte strings in hex, "-" = empty):
     <id> ENC <m> <key> <sid> <seq> <closing> <payload> <padLen dec> <rnd>      -> <id> <msg> | none
     <id> ENCBUF <m> <key> <sid> <seq> <closing> <payload> <padLen dec> <rnd> <buflen dec> -> idem
     <id> DEC <m> <key> <msg>      -> <id> ok <sid> <seq> <closing> <payload> | err:<kind> | panic
     <id> REENC <m> <key> <msg>    -> <id> <re-encoded msg> <padLen dec>:<pad_len seq padLen = padLen 0|1> ok <sid> <seq> <closing> <payload> | none
     <id> PRIM salsa <key> <nonce8> <data>                 -> <id> <out>
     <id> PRIM chachapoly|gcm <key> <nonce12> <pt> <aad>   -> <id> <sealed>
     <id> PRIMOPEN chachapoly|gcm <key> <nonce12> <ct> <aad> -> <id> <pt> | fail
     <id> SESS <m> <configured limit dec, may be <= 0> <unordered 0|1> <op>...
        a Session built by make_session with that limit, one stream (sequence counter from 0, advanced
        only by frames that were encoded);
        the padding lengths are the ones read off the wire (or, for a refused notice, off the
        log of bytes drawn), everything else is predicted:
          W:<len>:<pad,pad,..|->           Stream.Write of len bytes
          R:<avail>:<n,n,..|->:<pad,..|->  Stream.ReadFrom (reader script as in the Go driver)
          X:<b>:<draw>                     Stream.Close: filler byte b, RandInt result draw
          K:<b>:<draw>                     Session.Close (own numbering: seq 0)
        -> <id> cfg=<limit>,<unit>,<sendbuf>,<recvbuf> offer=<n|panic>
                <op><i>=<n>|<end>|<payload len>:<message len>,..|<sequence counter afterwards>
   m = 0 plain, 1 aes-256-gcm, 2 chacha20-poly1305, 3 aes-128-gcm (Cloak's method codes) *)
let meth = function
  | "0" -> Plain | "1" -> AES256GCM | "2" -> ChaCha20Poly1305 | "3" -> AES128GCM
  | s -> failwith ("method " ^ s)
let z_of_int i = if i = 0 then Z0 else if i > 0 then Zpos (pos_of_int i) else Zneg (pos_of_int (-i))
let show_result = function
  | Ok f -> Printf.sprintf "ok %s %s %s %s" (hex_of_n f.f_sid) (hex_of_n f.f_seq) (hex_of_n f.f_closing)
              (hex_of_bytes f.f_payload)
  | Err ErrShort -> "err:short"
  | Err ErrExtraLen -> "err:extralen"
  | Err ErrAuth -> "err:auth"
  | Panic -> "panic"
let int_of_z = function Z0 -> 0 | Zpos p -> int_of_pos p | Zneg p -> - (int_of_pos p)
let ints s = if s = "-" || s = "" then [] else List.map int_of_string (split_on ',' s)
let show_end = function
  | EndOk -> "ok" | EndShortBuffer -> "short" | EndObfsError -> "obfs" | EndReaderEOF -> "eof"
  | EndPanic -> "panic" | EndFuel -> "fuel"
let show_plan name (p : plan) =
  Printf.sprintf "%s=%d|%s|%s|%s" name (int_of_z p.p_n) (show_end p.p_end)
    (if p.p_msgs = [] then "-" else
       String.concat "," (List.map (fun (a, b) -> Printf.sprintf "%d:%d" (int_of_z a) (int_of_z b)) p.p_msgs))
    (hex_of_n p.p_seq)
(* the k-th obfuscate call of an operation starting at sequence number seq: RandInt returned
   pads[k] (0 when the wire showed fewer messages) and rand.Read was asked for pad_len + tag bytes *)
let draws_of tag seq pads =
  let arr = Array.of_list pads in
  let seqs = Array.make (Array.length arr + 1) seq in
  for i = 1 to Array.length arr do seqs.(i) <- next_seq seqs.(i - 1) done;
  fun (k : nat) ->
    let i = int_of_nat k in
    let d = if i < Array.length arr then arr.(i) else 0 in
    let s = if i < Array.length seqs then seqs.(i) else seq in
    let d = n_of_int (max d 0) in
    (d, z_of_int (int_of_n (pad_len s d) + tag))
let sess m limit unordered ops =
  let ss = make_session (z_of_int limit) in
  let tag = int_of_z (tag_len_of (payload_cipher (meth m) [])) in
  let ztag = z_of_int tag in
  let buf = Buffer.create 256 in
  Buffer.add_string buf (Printf.sprintf "cfg=%d,%d,%d,%d offer=%s" (int_of_z ss.ss_limit) (int_of_z ss.ss_unit)
    (int_of_z ss.ss_sendbuf) (int_of_z ss.ss_recvbuf)
    (match read_from_offer ss with Some n -> string_of_int (int_of_z n) | None -> "panic"));
  let seq = ref N0 in
  List.iteri (fun i op ->
    let add name p = Buffer.add_string buf (" " ^ show_plan (Printf.sprintf "%s%d" name i) p) in
    match split_on ':' op with
    | ["W"; len; pads] ->
      let p = stream_write_plan ss unordered ztag !seq (z_of_int (int_of_string len)) (draws_of tag !seq (ints pads)) in
      seq := p.p_seq; add "W" p
    | ["R"; avail; sizes; pads] ->
      let p = read_from_plan ss ztag !seq (z_of_int (int_of_string avail)) (List.map z_of_int (ints sizes)) O
                (draws_of tag !seq (ints pads)) in
      seq := p.p_seq; add "R" p
    | ["X"; b; d] ->
      let p = closing_notice_plan ss ztag !seq (n_of_int (int_of_string b)) (draws_of tag !seq [int_of_string d] O) in
      seq := p.p_seq; add "X" p
    | ["K"; b; d] ->
      let p = closing_notice_plan ss ztag N0 (n_of_int (int_of_string b)) (draws_of tag N0 [int_of_string d] O) in
      add "K" p
    | _ -> Buffer.add_string buf " badop") ops;
  Buffer.contents buf
let mkframe sid sq cl pl =
  { f_sid = n_of_hex sid; f_seq = n_of_hex sq; f_closing = n_of_hex cl; f_payload = bytes_of_hex pl }
let () = iter_lines (fun line ->
  match split_ws line with
  | id :: "SESS" :: m :: limit :: unordered :: ops ->
    Printf.printf "%s %s\n" id (sess m (int_of_string limit) (unordered = "1") ops)
  | [id; "ENC"; m; key; sid; sq; cl; pl; pad; rnd] ->
    (match encode (meth m) (bytes_of_hex key) (mkframe sid sq cl pl) (n_of_int (int_of_string pad)) (bytes_of_hex rnd) with
     | Some msg -> Printf.printf "%s %s\n" id (hex_of_bytes msg)
     | None -> Printf.printf "%s none\n" id)
  | [id; "ENCBUF"; m; key; sid; sq; cl; pl; pad; rnd; bl] ->
    let k = bytes_of_hex key in
    (match encode_in_buf (payload_cipher (meth m) k) k (mkframe sid sq cl pl) (n_of_int (int_of_string pad))
             (bytes_of_hex rnd) (z_of_int (int_of_string bl)) with
     | Some msg -> Printf.printf "%s %s\n" id (hex_of_bytes msg)
     | None -> Printf.printf "%s none\n" id)
  | [id; "DEC"; m; key; msg] ->
    Printf.printf "%s %s\n" id (show_result (decode (meth m) (bytes_of_hex key) (bytes_of_hex msg)))
  | [id; "REENC"; m; key; msg] ->
    let k = bytes_of_hex key in
    (match recover (meth m) k (bytes_of_hex msg) with
     | Some ((f, pad), rnd) ->
       (match encode (meth m) k f pad rnd with
        | Some msg' ->
          (* thr: can the model's obfuscate (pad_len seq draw) have chosen this padding for this seq? *)
          let thr = (pad_len f.f_seq pad = pad) in
          Printf.printf "%s %s %d:%s %s\n" id (hex_of_bytes msg') (int_of_n pad) (b01 thr) (show_result (Ok f))
        | None -> Printf.printf "%s none\n" id)
     | None -> Printf.printf "%s none\n" id)
  | [id; "PRIM"; "salsa"; key; nonce; data] ->
    Printf.printf "%s %s\n" id (hex_of_bytes (salsa20_xor (bytes_of_hex key) (bytes_of_hex nonce) (bytes_of_hex data)))
  | [id; "PRIM"; "chachapoly"; key; nonce; pt; aad] ->
    Printf.printf "%s %s\n" id (hex_of_bytes (chachapoly_seal (bytes_of_hex key) (bytes_of_hex nonce) (bytes_of_hex pt) (bytes_of_hex aad)))
  | [id; "PRIM"; "gcm"; key; nonce; pt; aad] ->
    Printf.printf "%s %s\n" id (hex_of_bytes (gcm_seal (bytes_of_hex key) (bytes_of_hex nonce) (bytes_of_hex pt) (bytes_of_hex aad)))
  | [id; "PRIMOPEN"; which; key; nonce; ct; aad] ->
    let f = if which = "gcm" then gcm_open else chachapoly_open in
    (match f (bytes_of_hex key) (bytes_of_hex nonce) (bytes_of_hex ct) (bytes_of_hex aad) with
     | Some pt -> Printf.printf "%s %s\n" id (hex_of_bytes pt)
     | None -> Printf.printf "%s fail\n" id)
  | [] -> ()
  | id :: _ -> Printf.printf "%s badline\n" id)
