(* C20: the extracted model of ssvToJson / ProcessRawConfig on seeded configurations.
   input line : <id> <ssv hex | -> <json hex | -> <typed raw | X>
     typed raw = R:<ServerName>:<ProxyMethod>:<EncryptionMethod>:<UID>:<PublicKey>:<NumConn>:<LocalHost>:<LocalPort>:
                 <RemoteHost>:<RemotePort>:<AlternativeNames>:<UDP 0|1>:<BrowserSig>:<Transport>:<CDNOriginHost>:
                 <CDNWsUrlPath>:<StreamTimeout>:<KeepAlive>
       strings and byte strings in hex ('-' = empty), integers in decimal,
       AlternativeNames = none | <hex>,<hex>,...   (what encoding/json makes of the JSON rendering: the typed
       fields are supplied by the case generator, the JSON decoder is a black box)
   output line: <id> J=<hex of ssv_to_json(ssv) | -> P=<obs> Q=<obs of the variant before commit b378e52 (F9)> D=<spec agrees 0|1>
     obs = err:<class> | ok:la=..,to=..,mock=..;sp=..,nc=..,ka=..,ra=..,tm=..,ws=..,br=..;uid=..,sid=..,pm=..,em=..,un=..,pk=..,md=..
   argv: none. *)

let z_of_small i = if i = 0 then Z0 else if i > 0 then Zpos (pos_of_int i) else Zneg (pos_of_int (-i))
let z10 = z_of_small 10
let z_of_string s =
  let neg = String.length s > 0 && s.[0] = '-' in
  let acc = ref Z0 in
  String.iteri (fun i c -> if not (i = 0 && neg) then
    acc := Z.add (Z.mul !acc z10) (z_of_small (Char.code c - 48))) s;
  if neg then Z.opp !acc else !acc
let small_of_z = function Z0 -> 0 | Zpos p -> int_of_pos p | Zneg p -> - (int_of_pos p)
let string_of_z z =
  let neg, a = (match z with Zneg p -> true, Zpos p | _ -> false, z) in
  if a = Z0 then "0" else begin
    let buf = Buffer.create 24 in
    let rec go a acc = if a = Z0 then acc else
      go (Z.div a z10) (Char.chr (48 + small_of_z (Z.modulo a z10)) :: acc) in
    if neg then Buffer.add_char buf '-';
    List.iter (Buffer.add_char buf) (go a []);
    Buffer.contents buf end

let hx = hex_of_bytes
let show_err = function
  | EEmpty FServerName -> "empty:ServerName" | EEmpty FUID -> "empty:UID" | EEmpty FPublicKey -> "empty:PublicKey"
  | EEmpty FRemoteHost -> "empty:RemoteHost" | EEmpty FRemotePort -> "empty:RemotePort"
  | EEmpty FLocalHost -> "empty:LocalHost" | EEmpty FLocalPort -> "empty:LocalPort"
  | EBadPubKey -> "badpub" | EUnknownEnc -> "unknownenc"
let show_ok ((l, r), a) =
  let mock = if l.l_mock = [] then "none" else String.concat "," (List.map hx l.l_mock) in
  Printf.sprintf "ok:la=%s,to=%s,mock=%s;sp=%s,nc=%s,ka=%s,ra=%s,tm=%s,ws=%s,br=%s;uid=%s,sid=%s,pm=%s,em=%s,un=%s,pk=%s,md=%s"
    (hx l.l_addr) (string_of_z l.l_timeout) mock
    (b01 r.r_singleplex) (string_of_z r.r_numconn) (string_of_z r.r_keepalive) (hx r.r_addr)
    (hx r.r_transport.t_mode) (hx r.r_transport.t_wsurl) (string_of_z r.r_transport.t_browser)
    (hx a.a_uid) (string_of_z a.a_sessionid) (hx a.a_proxy) (string_of_z a.a_enc) (b01 a.a_unordered) (hx a.a_pub) (hx a.a_mock)
let show_res = function ROk x -> show_ok x | RErr e -> "err:" ^ show_err e

let parse_raw s = match split_on ':' s with
  | ["R"; sn; pm; em; uid; pk; nc; lh; lp; rh; rp; an; udp; bs; tr; co; cw; st; ka] ->
    let b = bytes_of_hex in
    Some { serverName = b sn; proxyMethod = b pm; encryptionMethod = b em; uID = b uid; publicKey = b pk;
           numConn = z_of_string nc; localHost = b lh; localPort = b lp; remoteHost = b rh; remotePort = b rp;
           alternativeNames = (if an = "none" then [] else List.map b (split_on ',' an));
           uDP = (udp = "1"); browserSig = b bs; transport = b tr; cDNOriginHost = b co; cDNWsUrlPath = b cw;
           streamTimeout = z_of_string st; keepAlive = z_of_string ka }
  | _ -> None

let () = iter_lines (fun line ->
  match split_ws line with
  | [id; ssv; _json; rawf] ->
    let j = if ssv = "-" then "-" else hx (ssv_to_json (bytes_of_hex ssv)) in
    (match parse_raw rawf with
     | None -> Printf.printf "%s J=%s\n" id j
     | Some r ->
       let p = process r in
       let agrees = (match p, spec r with
                     | ROk x, Some y -> x = y | RErr _, None -> true | _ -> false) in
       Printf.printf "%s J=%s P=%s Q=%s D=%s\n" id j (show_res p) (show_res (process_gen false r)) (b01 agrees))
  | _ -> ())
