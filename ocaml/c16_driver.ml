(* (identical copy of c17_driver.ml, kept per property because each check builds only its own targets)
   C15 / C16 / C17: replay panel scenarios on the extracted model Model/Panel.v.
   input line : <id> <prefix 0|1><patched 0|1> <now> <users> <notices> <step> <step> ...
     notices = comma separated <k>:<bytes> (wire size of the notice frame Session.Close sent for session k) | -
     users = comma separated  <uid>:<cap>:<up>:<down>:<expiry>  |  b<uid> (bypass UID)  |  - (none)
     step  = D<uid>.<sid>[h][a][s]  dispatch a connection (h: stop at schedule point dispatch.gotUser;
                               a: stop INSIDE Manager.AuthenticateUser, i.e. at D1 holding activeUsersM, when the
                               lookup misses; s: stop inside Manager.AuthoriseNewSession, i.e. at D3 holding the
                               record's sessionsM, when the session is new)
           | C<k>              CloseSession of session k (numbered in creation order) on its record
           | B<k>              session k closes on its own (no CloseSession)
           | E<uid>.<sid>      the session stored under (uid, sid) of the user's active record ends:
                               it closes, then its serveSession calls CloseSession (C15 driver)
           | U[h] | M[u] | R[h][u]  updateUsageQueue (h: stop at updateUsageQueue.firstLock) | commitUpdate | both
                               (u: stop inside Manager.UploadStatus, i.e. at M8, no lock held)
           | G<t>              release thread t from the point it is parked at; not parked: disarm it
           | g<t>              release thread t if it is parked, otherwise nothing
           | T<k>.<rx>.<tx>    traffic on session k
           | Aw<uid>[.c<cap>][.u<up>][.d<down>][.e<exp>]  | Ad<uid>   admin API write / delete
           | K<secs>           clock advances
   Threads are numbered in the order the D/C/U/M/R steps appear.
   output line: <id> then one observation per step:
     [<thread states>|<table>|<sessions closed>|<owned>|<queue>|<db>]  (see obs below) *)
let z_of_int i = if i = 0 then Z0 else if i > 0 then Zpos (pos_of_int i) else Zneg (pos_of_int (-i))
let int_of_z = function Z0 -> 0 | Zpos p -> int_of_pos p | Zneg p -> - (int_of_pos p)

type tinfo = { kind : char; mutable armed : bool; mutable marms : mpoint list (* manager park points still armed *);
               mutable result : string; mtid : int (* thread id in the model, -1: none *) }

let parse_users (u : string) =
  let recs = ref [] and byp = ref [] and order = ref [] in
  if u <> "-" then List.iter (fun e ->
    if e <> "" then begin
      if e.[0] = 'b' then begin
        let id = int_of_string (String.sub e 1 (String.length e - 1)) in
        byp := id :: !byp; order := id :: !order end
      else match split_on ':' e with
        | [id; cap; up; dn; ex] ->
          let id = int_of_string id in
          recs := (id, { d_cap = z_of_int (int_of_string cap);
                         d_credit = (z_of_int (int_of_string up), z_of_int (int_of_string dn));
                         d_exp = z_of_int (int_of_string ex) }) :: !recs;
          order := id :: !order
        | _ -> failwith ("bad user " ^ e) end) (split_on ',' u);
  (!recs, !byp, List.rev !order)

let run_scenario (cfgs : string) (now0 : int) (users : string) (notices : string) (steps : string list) : string list =
  let (recs0, byp, uids) = parse_users users in
  let nts = if notices = "-" then [] else
      List.filter_map (fun e -> match split_on ':' e with
        | [k; b] -> Some (int_of_string k, int_of_string b) | _ -> None) (split_on ',' notices) in
  let c = { prefix_order = (cfgs.[0] = '1'); patched = (cfgs.[1] = '1');
            is_bypass = (fun u -> List.mem (int_of_n u) byp);
            close_tx = (fun k -> z_of_int (try List.assoc (int_of_nat k) nts with Not_found -> 0)) } in
  let d0 = fun u -> (try Some (List.assoc (int_of_n u) recs0) with Not_found -> None) in
  let s = ref (init d0 (z_of_int now0)) in
  let threads : tinfo list ref = ref [] in     (* reversed *)
  let nthreads () = List.length !threads in
  let tinfo t = List.nth !threads (nthreads () - 1 - t) in
  let uids = ref uids in
  let note_uid u = if not (List.mem u !uids) then uids := !uids @ [u] in
  (* where an armed thread stands still: `H = a vhook schedule point, `M k = inside the manager call k *)
  let parked_at ti p =
    if ti.armed && at_hook p then Some `H
    else match at_mgr c !s p with
      | Some k when List.exists (fun k' -> mpoint_eqb k k') ti.marms -> Some (`M k)
      | _ -> None in
  (* advance one thread as far as it goes; true if it moved *)
  let advance t0 =
    let ti = tinfo t0 in
    let t = ti.mtid in
    let moved = ref false in
    let continue = ref (t >= 0) in
    while !continue do
      let p = !s.thr (nat_of_int t) in
      if is_done p then continue := false
      else if parked_at ti p <> None then continue := false
      else match step c !s (Run (nat_of_int t, O)) with
        | None -> continue := false
        | Some s' ->
          let logn = List.length !s.g_log in
          let p' = s'.thr (nat_of_int t) in
          (match p, p' with
           | D1 _, Done -> ti.result <- "una"
           | D3 _, C0 _ -> ti.result <- "ref"
           | D3 _, Done ->
             if List.length s'.g_log > logn then begin
               let a = List.hd s'.g_log in
               ti.result <- Printf.sprintf "ok%d%s" (int_of_nat a.a_ses) (if a.a_existing then "e" else "n") end
           | _ -> ());
          s := s'; moved := true
    done;
    !moved in
  let settle () =
    let again = ref true in
    while !again do
      again := false;
      for t = 0 to nthreads () - 1 do if advance t then again := true done
    done in
  let next_marms = ref [] in
  let spawn kind armed o =
    let marms = !next_marms in
    next_marms := [];
    match step c !s (Spawn o) with
    | Some s' -> let m = int_of_nat !s.nthr in s := s'; threads := { kind; armed; marms; result = ""; mtid = m } :: !threads
    | None -> threads := { kind; armed = false; marms = []; result = "bad"; mtid = -1 } :: !threads  (* invalid op: a finished dummy *)
  in
  let env l = match step c !s l with Some s' -> s := s' | None -> () in
  let reported = Hashtbl.create 16 in
  let obs () =
    let b = Buffer.create 128 in
    Buffer.add_char b '[';
    (* threads: unfinished ones, and those that finished since the last observation *)
    let first = ref true in
    for t = 0 to nthreads () - 1 do
      let ti = tinfo t in
      let p = if ti.mtid >= 0 then !s.thr (nat_of_int ti.mtid) else Done in
      let st =
        if ti.result = "bad" then (if Hashtbl.mem reported t then "" else (Hashtbl.add reported t (); "X"))
        else if is_done p then (if Hashtbl.mem reported t then "" else (Hashtbl.add reported t (); "F" ^ ti.result))
        else if parked_at ti p <> None then "H"
        else "B" in
      if st <> "" then begin
        if not !first then Buffer.add_char b ',';
        first := false;
        Buffer.add_string b (Printf.sprintf "%d:%s" t st) end
    done;
    Buffer.add_char b '|';
    let a_w = (!s.lkA.rw_w <> None) in
    (* table *)
    if a_w then Buffer.add_char b '?' else
      List.iteri (fun i u ->
        if i > 0 then Buffer.add_char b ',';
        match !s.table (n_of_int u) with
        | None -> Buffer.add_string b (Printf.sprintf "%d=-" u)
        | Some r ->
          if (!s.lkS r).rw_w <> None then Buffer.add_string b (Printf.sprintf "%d=?" u)
          else Buffer.add_string b (Printf.sprintf "%d=%d" u (List.length (!s.recs r).r_sess))) !uids;
    Buffer.add_char b '|';
    let ns = int_of_nat !s.nses in
    for k = 0 to ns - 1 do
      Buffer.add_char b (if (!s.sess (nat_of_int k)).s_closed then '1' else '0') done;
    Buffer.add_char b '|';
    if a_w then Buffer.add_char b '?' else
      for k = 0 to ns - 1 do
        let se = !s.sess (nat_of_int k) in
        let r = se.s_owner in
        let intab = (match !s.table (!s.recs r).r_uid with Some r' -> r' = r | None -> false) in
        Buffer.add_char b (if intab then '1' else '0') done;
    Buffer.add_char b '|';
    (if !s.lkQ <> None then Buffer.add_char b '?' else begin
       let es = List.map (fun (u, (a, d)) -> (int_of_n u, int_of_z a, int_of_z d)) !s.queue in
       let es = List.sort compare es in
       List.iteri (fun i (u, a, d) ->
         if i > 0 then Buffer.add_char b ',';
         Buffer.add_string b (Printf.sprintf "%d:%d:%d" u a d)) es end);
    Buffer.add_char b '|';
    List.iteri (fun i u ->
      if i > 0 then Buffer.add_char b ',';
      match !s.db (n_of_int u) with
      | None -> Buffer.add_string b (Printf.sprintf "%d:x" u)
      | Some r -> Buffer.add_string b (Printf.sprintf "%d:%d:%d" u (int_of_z (fst r.d_credit)) (int_of_z (snd r.d_credit))))
      (List.filter (fun u -> not (List.mem u byp)) !uids);
    Buffer.add_char b ']';
    Buffer.contents b in
  let ints_after (st : string) (from : int) = List.map int_of_string (split_on '.' (String.sub st from (String.length st - from))) in
  List.map (fun (st : string) ->
    (* park-point suffixes of D / U / M / R steps *)
    let body = ref st and hooked = ref false and marms = ref [] in
    if String.length st > 0 && String.contains "DUMR" st.[0] then begin
      let continue = ref true in
      while !continue do
        let n = String.length !body in
        if n > 1 && String.contains "hasu" !body.[n - 1] then begin
          (match !body.[n - 1] with
           | 'h' -> hooked := true
           | 'a' -> marms := MpAuth :: !marms
           | 's' -> marms := MpSess :: !marms
           | _ -> marms := MpUpload :: !marms);
          body := String.sub !body 0 (n - 1) end
        else continue := false
      done end;
    let body = !body and hooked = !hooked in
    next_marms := !marms;
    (match body.[0] with
     | 'D' -> (match ints_after body 1 with
         | [u; sd] -> note_uid u; spawn 'D' hooked (OpDispatch (n_of_int u, n_of_int sd))
         | _ -> failwith st)
     | 'C' -> let k = int_of_string (String.sub body 1 (String.length body - 1)) in
       if k < int_of_nat !s.nses then begin
         let se = !s.sess (nat_of_int k) in spawn 'C' false (OpClose (se.s_owner, se.s_sid)) end
       else spawn 'C' false (OpClose (nat_of_int 1000000, N0))
     | 'B' -> env (Break (nat_of_int (int_of_string (String.sub body 1 (String.length body - 1)))))
     | 'E' -> (match ints_after body 1 with
         | [u; sd] ->
           (match !s.table (n_of_int u) with
            | Some r ->
              (match slook (n_of_int sd) (!s.recs r).r_sess with
               | Some k -> env (Break k); spawn 'C' false (OpClose (r, n_of_int sd))
               | None -> ())
            | None -> ())
         | _ -> failwith st)
     | 'U' -> spawn 'U' hooked OpUpdate
     | 'M' -> spawn 'M' false OpCommit
     | 'R' -> spawn 'R' hooked OpRound
     | 'G' | 'g' -> let t = int_of_string (String.sub body 1 (String.length body - 1)) in
       if t < nthreads () then begin
         let ti = tinfo t in
         let p = if ti.mtid >= 0 then !s.thr (nat_of_int ti.mtid) else Done in
         match parked_at ti p with
         | Some `H -> ti.armed <- false
         | Some (`M k) -> ti.marms <- List.filter (fun k' -> not (mpoint_eqb k k')) ti.marms
         | None -> if body.[0] = 'G' then begin ti.armed <- false; ti.marms <- [] end
       end
     | 'T' -> (match ints_after body 1 with
         | [k; rx; tx] -> env (Traffic (nat_of_int k, (z_of_int rx, z_of_int tx)))
         | _ -> failwith st)
     | 'K' -> env (Tick (z_of_int (int_of_string (String.sub body 1 (String.length body - 1)))))
     | 'A' ->
       let parts = split_on '.' (String.sub body 2 (String.length body - 2)) in
       let u = int_of_string (List.hd parts) in
       note_uid u;
       if body.[1] = 'd' then env (Admin (ADelete (n_of_int u)))
       else begin
         let get ch = List.fold_left (fun acc p ->
           if String.length p > 0 && p.[0] = ch then Some (z_of_int (int_of_string (String.sub p 1 (String.length p - 1)))) else acc)
           None (List.tl parts) in
         env (Admin (AWrite (n_of_int u, get 'c', get 'u', get 'd', get 'e'))) end
     | _ -> failwith ("bad step " ^ st));
    settle ();
    obs ()) steps

let () = iter_lines (fun line ->
  match split_ws line with
  | id :: cfgs :: nw :: users :: notices :: steps ->
    (try
       let os = run_scenario cfgs (int_of_string nw) users notices steps in
       print_string id; List.iter (fun o -> print_char ' '; print_string o) os; print_newline ()
     with e -> Printf.printf "%s ERROR %s\n" id (Printexc.to_string e))
  | _ -> ())
