(* C19: the extracted token bucket model (Model/Bucket.v).
   input lines:
     R <id> <rate> <cap>                       -> <id> <quantum> <fillInterval> <cap>   (NewBucketWithRate; "none" if the search fails)
     V <id> <rxRate> <txRate>                  -> <id> rx=<q>,<F>,<cap> tx=<q>,<F>,<cap>  (MakeValve)
     B <id> <rate> <cap> <op> ...              -> <id> <res> ...     ops on one bucket with an injected clock:
         A:<d ns> advance | T:<c> Take | M:<c>:<maxwait ns> TakeMaxDuration | V Available
         W:<c> Wait | X:<c>:<maxwait ns> WaitMaxDuration (both sleep on the injected clock: time advances by the wait)
         res: - | w<wait ns> | x (refused) | v<available>
     G <id> <q> <F> <cap> <t0> <gap>:<c> ...   -> <id> <release>:<c> ...   sequential sender with pauses (times relative to bucket start t0... absolute = t0 + rel)
     Q <id> <q> <F> <cap> <t>:<c> ...          -> <id> <release>:<c> ...   requests at given times (relative to bucket start) *)
let z_of_int i = if i = 0 then Z0 else if i > 0 then Zpos (pos_of_int i) else Zneg (pos_of_int (-i))
let int_of_z = function Z0 -> 0 | Zpos p -> int_of_pos p | Zneg p -> - (int_of_pos p)
let zi s = z_of_int (int_of_string s)
let show_p p = Printf.sprintf "%d,%d,%d" (int_of_z p.quantum) (int_of_z p.fillInterval) (int_of_z p.capacity)
let parse_op s = match split_on ':' s with
  | ["A"; d] -> BAdvance (zi d)
  | ["T"; c] -> BTake (zi c)
  | ["M"; c; m] -> BTakeMax (zi c, zi m)
  | ["V"] -> BAvailable
  | ["W"; c] -> BWait (zi c)
  | ["X"; c; m] -> BWaitMax (zi c, zi m)
  | _ -> failwith ("bad op " ^ s)
let show_res = function
  | RNone -> "-" | RWait w -> "w" ^ string_of_int (int_of_z w) | RRefused -> "x" | RAvail a -> "v" ^ string_of_int (int_of_z a)
let pair s = match split_on ':' s with [a; b] -> (zi a, zi b) | _ -> failwith ("bad pair " ^ s)
let show_out l = String.concat " " (List.map (fun (r, c) -> Printf.sprintf "%d:%d" (int_of_z r) (int_of_z c)) l)
let () = iter_lines (fun line ->
  match split_ws line with
  | ["R"; id; rate; cap] ->
    (match new_bucket_with_rate (zi rate) (zi cap) with
     | Some p -> Printf.printf "%s %d %d %d\n" id (int_of_z p.quantum) (int_of_z p.fillInterval) (int_of_z p.capacity)
     | None -> Printf.printf "%s none\n" id)
  | ["V"; id; rx; tx] ->
    (match make_valve (zi rx) (zi tx) with
     | Some (a, b) -> Printf.printf "%s rx=%s tx=%s\n" id (show_p a) (show_p b)
     | None -> Printf.printf "%s none\n" id)
  | "B" :: id :: rate :: cap :: ops ->
    (match new_bucket_with_rate (zi rate) (zi cap) with
     | Some p ->
       let rs = bops p (binit p) Z0 (List.map parse_op ops) in
       Printf.printf "%s %s\n" id (String.concat " " (List.map show_res rs))
     | None -> Printf.printf "%s none\n" id)
  | "G" :: id :: q :: f :: cap :: gcs ->
    let p = { capacity = zi cap; quantum = zi q; fillInterval = zi f } in
    Printf.printf "%s %s\n" id (show_out (run_gaps p (binit p) Z0 (List.map pair gcs)))
  | "Q" :: id :: q :: f :: cap :: tcs ->
    let p = { capacity = zi cap; quantum = zi q; fillInterval = zi f } in
    Printf.printf "%s %s\n" id (show_out (run p (binit p) (List.map pair tcs)))
  | _ -> ())
