package server

import (
	"errors"
	"sync"

	"github.com/cbeuw/Cloak/internal/server/usermanager"

	mux "github.com/cbeuw/Cloak/internal/multiplex"
)

type ActiveUser struct {
	panel *userPanel

	arrUID [16]byte

	valve mux.Valve

	bypass bool

	sessionsM sync.RWMutex
	sessions  map[uint32]*mux.Session
	// terminated is set (under sessionsM, by terminate) once TerminateActiveUser has closed all sessions of this
	// ActiveUser. The panel has forgotten a terminated ActiveUser: no session may be added to it.
	terminated bool
}

// errUserTerminated is returned by GetSession when the ActiveUser was terminated after it had been
// looked up. The caller should look the user up again to get (or create) the current ActiveUser.
var errUserTerminated = errors.New("user has been terminated")

// CloseSession closes a session and removes its reference from the user
func (u *ActiveUser) CloseSession(sessionID uint32, reason string) {
	u.sessionsM.Lock()
	sesh, existing := u.sessions[sessionID]
	if existing {
		delete(u.sessions, sessionID)
		sesh.SetTerminalMsg(reason)
		sesh.Close()
	}
	remaining := len(u.sessions)
	u.sessionsM.Unlock()
	if remaining == 0 {
		u.panel.TerminateActiveUser(u, "no session left")
	}
}

// GetSession returns the reference to an existing session, or if one such session doesn't exist, it queries
// the UserManager for the authorisation for a new session. If a new session is allowed, it creates this new session
// and returns its reference
func (u *ActiveUser) GetSession(sessionID uint32, config mux.SessionConfig) (sesh *mux.Session, existing bool, err error) {
	u.sessionsM.Lock()
	defer u.sessionsM.Unlock()
	if u.terminated {
		return nil, false, errUserTerminated
	}
	if sesh = u.sessions[sessionID]; sesh != nil {
		return sesh, true, nil
	} else {
		if !u.bypass {
			ainfo := usermanager.AuthorisationInfo{NumExistingSessions: len(u.sessions)}
			err := u.panel.Manager.AuthoriseNewSession(u.arrUID[:], ainfo)
			if err != nil {
				return nil, false, err
			}
		}
		config.Valve = u.valve
		sesh = mux.MakeSession(sessionID, config)
		u.sessions[sessionID] = sesh
		return sesh, false, nil
	}
}

// closeAllSessions closes all sessions of this active user
func (u *ActiveUser) closeAllSessions(reason string) {
	u.sessionsM.Lock()
	u.closeAllSessionsLocked(reason)
	u.sessionsM.Unlock()
}

// closeAllSessionsLocked must be called with sessionsM held
func (u *ActiveUser) closeAllSessionsLocked(reason string) {
	for sessionID, sesh := range u.sessions {
		sesh.SetTerminalMsg(reason)
		sesh.Close()
		delete(u.sessions, sessionID)
	}
}

// terminate closes all sessions and, in the same critical section, marks this ActiveUser as
// terminated so that no session can be added to it afterwards
func (u *ActiveUser) terminate(reason string) {
	u.sessionsM.Lock()
	u.closeAllSessionsLocked(reason)
	u.terminated = true
	u.sessionsM.Unlock()
}

// NumSession returns the number of active sessions
func (u *ActiveUser) NumSession() int {
	u.sessionsM.RLock()
	defer u.sessionsM.RUnlock()
	return len(u.sessions)
}
