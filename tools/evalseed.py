#!/usr/bin/env python3
"""Evaluate an independently seeded change: tools/evalseed.py <Cxx> <dir with patch.diff, demo, meta.json>
 1. scratch worktree of /repo HEAD (under /tmp), apply the patch, build, run the pinned suite and compare
    with BASELINE stable_pass; run the demo (must fail); unapply; run the demo (must pass)
 2. apply the patch to /repo, run the quick check of the property (and optionally others), undo.
Prints a JSON summary."""
import sys, os, json, subprocess, shutil, re, glob
sys.path.insert(0, os.path.dirname(os.path.abspath(__file__)))
import vlib

def sh(cmd, cwd=None, timeout=3000, env=None):
    e = vlib.goenv()
    if env: e.update(env)
    p = subprocess.run(cmd, shell=True, cwd=cwd, env=e, stdout=subprocess.PIPE, stderr=subprocess.STDOUT, text=True, timeout=timeout)
    return p.returncode, p.stdout

def suite(wt):
    rc, out = sh('go test -mod=mod -json -vet=off -count=1 -timeout 25m ./...', cwd=wt)
    res = {}
    for l in out.splitlines():
        try: e = json.loads(l)
        except Exception: continue
        if e.get('Test') and e.get('Action') in ('pass', 'fail'):
            res[e['Package'] + '::' + e['Test']] = e['Action']
    base = json.load(open('/root/.vp/BASELINE.json'))['stable_pass']
    return [t for t in base if res.get(t) != 'pass']

def main():
    args = [a for a in sys.argv[1:] if not a.startswith('--')]
    overlay_mode = '--overlay' in sys.argv   # run our checks through VERIF_EXTRA_OVERLAY instead of patching /repo
    pid, d = args[0], args[1].rstrip('/')
    others = args[2:]
    meta = json.load(open(d + '/meta.json'))
    wt = '/tmp/evalwt_%s_%d' % (pid, os.getpid())
    sh('git -C /repo worktree add -q --detach %s HEAD' % wt)
    out = dict(property=pid, dir=d, summary=meta.get('summary'))
    try:
        rc, o = sh('git apply %s/patch.diff' % d, cwd=wt)
        out['patch_applies'] = rc == 0
        rc, o = sh('go build ./...', cwd=wt)
        out['builds'] = rc == 0
        notpass = suite(wt)
        if notpass:   # timing flakes under load: retry those packages once
            notpass = suite(wt)
        out['suite_not_passing'] = notpass
        # demo: copy *_test.go files next to where their header says; default = the package named in demo_cmd
        cmd = meta.get('demo_cmd', '')
        m = re.search(r'\./(internal/[\w/]+|cmd/[\w/-]+)/?', cmd)
        pkgdir = (meta.get('demo_package_dir') or '').strip('./') or (m.group(1) if m else None)
        demos = [f for f in glob.glob(d + '/*.go')]
        for f in demos:
            if pkgdir:
                os.makedirs(os.path.join(wt, pkgdir), exist_ok=True)
                shutil.copy(f, os.path.join(wt, pkgdir, os.path.basename(f)))
        # the demonstration files have been copied already: drop the author's own mkdir/cp/cd prefix
        cmd_local = cmd
        while True:
            c2 = re.sub(r'^\s*(mkdir|cp|cd)\s[^&]*&&\s*', '', cmd_local)
            if c2 == cmd_local:
                break
            cmd_local = c2
        rc1, o1 = sh(cmd_local, cwd=wt, timeout=1800)
        out['demo_with_mutant_rc'] = rc1
        out['demo_with_mutant_tail'] = o1[-400:]
        sh('git apply -R %s/patch.diff' % d, cwd=wt)
        rc2, o2 = sh(cmd_local, cwd=wt, timeout=1800)
        out['demo_without_rc'] = rc2
        out['confirmed'] = out['patch_applies'] and out['builds'] and not notpass and rc1 != 0 and rc2 == 0
        checks = {}
        if overlay_mode:
            # 2'. our checks against the change through an overlay of the changed files (nothing written to /repo)
            for f in demos:
                if pkgdir:
                    try: os.remove(os.path.join(wt, pkgdir, os.path.basename(f)))
                    except OSError: pass
            sh('git apply %s/patch.diff' % d, cwd=wt)
            rc, o = sh('git status --porcelain', cwd=wt)
            changed = [l[3:].strip() for l in o.splitlines() if l.strip()]
            ov = dict(Replace={('/repo/' + f): (wt + '/' + f) for f in changed if f.endswith('.go')})
            ovp = wt + '/.verif_overlay.json'
            json.dump(ov, open(ovp, 'w'))
            for c in [pid] + others:
                rc, o = sh('python3 tools/check.py %s --tier quick' % c, cwd='/verif', timeout=3000, env=dict(VERIF_EXTRA_OVERLAY=ovp))
                lines = [l for l in o.splitlines() if l.startswith('VIOLATION') or l.startswith('# ') or l.startswith('KNOWN')]
                checks[c] = dict(rc=rc, lines=[l[:400] for l in lines[:6]])
    finally:
        sh('git -C /repo worktree remove --force %s' % wt)
    if not overlay_mode:
        # 2. our checks against the mutant, on /repo itself
        rc, o = sh('git -C /repo apply %s/patch.diff' % d)
        try:
            for c in [pid] + others:
                rc, o = sh('python3 tools/check.py %s --tier quick' % c, cwd='/verif', timeout=3000)
                lines = [l for l in o.splitlines() if l.startswith('VIOLATION') or l.startswith('# ') or l.startswith('KNOWN')]
                checks[c] = dict(rc=rc, lines=[l[:400] for l in lines[:6]])
        finally:
            sh('git -C /repo checkout -- .')
    out['checks'] = checks
    out['caught_by'] = [c for c, v in checks.items() if v['rc'] != 0 and any(l.startswith('VIOLATION') for l in v['lines'])]
    print(json.dumps(out, indent=1))

if __name__ == '__main__':
    main()
