package main

// Atomicity.v: what the hand-written models take for ATOMIC STEPS, extracted from the source.
//
// The per-function walker (walk.go) already knows, at every point of a function, which
// mutexes are certainly held. While it walks the UNSPECIALISED version of each function it
// additionally records (atom) every field access, every call and every sync/atomic
// operation together with the critical sections (mutex, mode, Lock site) it lies in.
// Two further passes over the syntax trees (identifier resolution by go/parser's
// ast.Object) find uses of a pooled object after sync.Pool.Put and the variables a
// goroutine shares with the code that spawns it. Everything is printed as plain Coq
// lists; tools/../coq/Proofs/Atom*.v state the atomicity assumptions of the models as
// boolean checks over these lists.
//
// Names: functions are "pkg.Func" / "pkg.Type.Method"; fields and mutexes "Type.field" as in
// Guards.v (the package is that of the function); package variables "var name"; local
// mutexes "local Func.name"; callees: in-package "Func" / "Type.Method" (static receiver
// type), imported functions "import/path.Func", methods of something whose static type is
// foreign "<field or type>.Method" (e.g. "TLSConn.Conn.Write", "net.Conn.Write"), function
// values "(value) name"; "?..." = receiver type unknown.
//
// Event kinds: "r" (the field is indexed, ranged over, measured, dereferenced, the receiver of
// a call or the path to a sub-field), "val" (its value is handed on: assigned, passed, returned,
// compared - for a map, slice or pointer this creates an alias), "w" (element store, ++, op=,
// copy into, close), "set" (the whole field is assigned), "del" (delete / clear; on a local map
// the name is "local Func.var"), "addr" (&x.f, may be written through the pointer), "call",
// "go" (go statement),
// "atomic" (sync/atomic operation; name = the field; details in [atomics]), "wait"
// (sync.Cond.Wait: the lock is released and re-acquired inside the region).

import (
	"fmt"
	"go/ast"
	"go/token"
	"go/types"
	"regexp"
	"sort"
	"strings"
)

type heldReg struct {
	mutex, mode string
	site        token.Pos
}

type atomEv struct {
	pos        token.Pos
	kind, name string
	held       []heldReg
	ctx        string // "" function body, "go" goroutine literal, "cb" callback literal
}

type poolPut struct {
	call     *ast.CallExpr
	pool     string
	deferred bool
}

type atomicOp struct {
	pos       token.Pos
	field, op string
	args      []string
}

func accKind(acc string) string {
	switch acc {
	case "":
		return "val"
	case "use":
		return "r"
	}
	return acc
}

// orUse: a location path keeps its write kind, a read becomes a non-escaping read.
func orUse(acc string) string {
	if acc == "" {
		return "use"
	}
	return acc
}

func (w *walker) recording() bool { return len(w.n.env) == 0 }

func (w *walker) aerrf(pos token.Pos, format string, a ...interface{}) {
	if w.recording() {
		w.n.aerrs = append(w.n.aerrs, fmt.Sprintf("%s: %s: ", w.p.pos(pos), w.n.fname)+fmt.Sprintf(format, a...))
	}
}

func (w *walker) atom(pos token.Pos, kind, name string) {
	if !w.recording() {
		return
	}
	var hs []heldReg
	for _, l := range w.held.list() {
		hs = append(hs, heldReg{l, w.modes[l], w.sites[l]})
	}
	w.n.atoms = append(w.n.atoms, atomEv{pos: pos, kind: kind, name: name, held: hs, ctx: w.ctx})
}

func (w *walker) acquired(l, op string, pos token.Pos) {
	mode := "Lock"
	if strings.Contains(op, "RLock") {
		mode = "RLock"
	}
	w.sites[l], w.modes[l] = pos, mode
	if w.recording() {
		w.n.acqs = append(w.n.acqs, heldReg{l, mode, pos})
	}
}

// atomSelector records the access of the field x denotes and returns the access kind for
// the expression below it: a write to a.b.c writes a.b as well exactly when b is a struct
// or array VALUE inside a.
func (w *walker) atomSelector(x *ast.SelectorExpr, acc string) string {
	skip := w.skipSel == x
	if skip {
		w.skipSel = nil
	}
	key, _ := w.fieldKey(x)
	switch {
	case key != "" && w.p.locks[key] == "" && !skip:
		w.atom(x.Sel.Pos(), accKind(acc), key)
	case key == "" && w.typeOf(x.X) == nil:
		w.aerrf(x.Pos(), "cannot resolve the type of %s: access of .%s not attributed", types.ExprString(x.X), x.Sel.Name)
	}
	if acc == "" || acc == "use" {
		return "use" // the enclosing value is only traversed
	}
	if acc == "set" || acc == "del" {
		acc = "w" // part of the enclosing value is written
	}
	switch b := unparen(x.X).(type) {
	case *ast.SelectorExpr:
		t := w.typeOf(b)
		if t == nil {
			return acc
		}
		if _, ptr := unparen(t).(*ast.StarExpr); ptr {
			return "use"
		}
		switch u := w.p.under(t).(type) {
		case *ast.StructType:
			return acc
		case *ast.ArrayType:
			if u.Len != nil {
				return acc
			}
		}
		return "use"
	case *ast.CallExpr:
		return "use"
	}
	return acc
}

// atomDeleteOperand: delete / clear on something that is not a struct field (a local map,
// possibly an alias of a field's map) is recorded under the name of the local.
func (w *walker) atomDeleteOperand(a ast.Expr) {
	switch x := unparen(a).(type) {
	case *ast.SelectorExpr:
	case *ast.Ident:
		if _, local := w.sc.lookup(x.Name); local {
			w.atom(a.Pos(), "del", "local "+w.n.fname+"."+x.Name)
		}
	default:
		w.atom(a.Pos(), "del", "?"+types.ExprString(a))
	}
}

var atomicFn = regexp.MustCompile(`^(Load|Store|Add|Swap|CompareAndSwap|And|Or)(Int32|Int64|Uint32|Uint64|Uintptr|Pointer)$`)

func (p *pkg) importedAs(name string) string {
	for _, f := range p.files {
		if path := p.imports[f][name]; path != "" {
			return path
		}
	}
	return ""
}

// pkgType: t (through parentheses and pointers) is the type name of package path.
func (p *pkg) pkgType(t ast.Expr, path string) string {
	for {
		switch x := t.(type) {
		case *ast.ParenExpr:
			t = x.X
			continue
		case *ast.StarExpr:
			t = x.X
			continue
		case *ast.SelectorExpr:
			if id, ok := x.X.(*ast.Ident); ok && p.importedAs(id.Name) == path {
				return x.Sel.Name
			}
		}
		return ""
	}
}

// atomicFunc recognises atomic.OpType(addr, args...).
func (w *walker) atomicFunc(c *ast.CallExpr) string {
	sel, ok := unparen(c.Fun).(*ast.SelectorExpr)
	if !ok || len(c.Args) == 0 {
		return ""
	}
	id, ok := sel.X.(*ast.Ident)
	if !ok || w.p.pkgNames[id.Name] || w.p.imports[w.file][id.Name] != "sync/atomic" {
		return ""
	}
	if _, local := w.sc.lookup(id.Name); local {
		return ""
	}
	if m := atomicFn.FindStringSubmatch(sel.Sel.Name); m != nil {
		return m[1]
	}
	return ""
}

// prepAtomic runs before the operands of a call are evaluated: the field a sync/atomic
// function operates on is not reported as a plain access.
func (w *walker) prepAtomic(c *ast.CallExpr) {
	if w.atomicFunc(c) == "" {
		return
	}
	a := unparen(c.Args[0])
	if u, ok := a.(*ast.UnaryExpr); ok && u.Op == token.AND {
		a = unparen(u.X)
	}
	if sel, ok := a.(*ast.SelectorExpr); ok {
		w.skipSel = sel
	}
}

func (w *walker) atomicTarget(e ast.Expr) string {
	a := unparen(e)
	if u, ok := a.(*ast.UnaryExpr); ok && u.Op == token.AND {
		a = unparen(u.X)
	}
	switch x := a.(type) {
	case *ast.SelectorExpr:
		if !w.isImport(x.X) {
			if key, _ := w.fieldKey(x); key != "" {
				return key
			}
		}
	case *ast.Ident:
		if _, local := w.sc.lookup(x.Name); local {
			return "local " + w.n.fname + "." + x.Name
		}
		if w.p.pkgVars[x.Name] != nil {
			return "var " + x.Name
		}
	}
	w.aerrf(e.Pos(), "cannot name the operand %s of a sync/atomic operation", types.ExprString(e))
	return "?" + types.ExprString(e)
}

func exprStrings(es []ast.Expr) []string {
	r := make([]string, len(es))
	for i, e := range es {
		r[i] = types.ExprString(e)
	}
	return r
}

// builtinAccess: how a builtin treats its first argument ("" = like any other operand).
func (w *walker) builtinAccess(fun ast.Expr) string {
	id, ok := unparen(fun).(*ast.Ident)
	if !ok {
		return ""
	}
	if _, local := w.sc.lookup(id.Name); local || w.p.pkgNames[id.Name] {
		return ""
	}
	switch id.Name {
	case "delete", "clear":
		return "del"
	case "copy", "close":
		return "w"
	case "len", "cap":
		return "use"
	}
	return ""
}

var pureBuiltin = set{"len": true, "cap": true, "make": true, "new": true, "min": true, "max": true, "real": true, "imag": true, "complex": true}

func (w *walker) typeName(t ast.Expr) string {
	for {
		switch x := t.(type) {
		case *ast.ParenExpr:
			t = x.X
			continue
		case *ast.StarExpr:
			t = x.X
			continue
		case *ast.SelectorExpr:
			if id, ok := x.X.(*ast.Ident); ok {
				if path := w.p.importedAs(id.Name); path != "" {
					return path + "." + x.Sel.Name
				}
			}
		}
		return types.ExprString(t)
	}
}

// recvName names the receiver of a method call for the callee name, without using the
// names of local variables where the type is known.
func (w *walker) recvName(e ast.Expr) string {
	e = unparen(e)
	if id, ok := e.(*ast.Ident); ok {
		if _, local := w.sc.lookup(id.Name); local {
			if b, _ := w.sc.lookup(id.Name); w.p.pkgType(b.t, "sync/atomic") != "" || w.p.pkgType(b.t, "sync") != "" {
				return "local " + w.n.fname + "." + id.Name
			}
		}
	}
	t := w.typeOf(e)
	if tn := w.p.named(t); tn != "" {
		return tn
	}
	switch x := e.(type) {
	case *ast.SelectorExpr:
		if id, ok := x.X.(*ast.Ident); ok && w.isImport(id) {
			if path := w.p.imports[w.file][id.Name]; path != "" {
				return path + "." + x.Sel.Name
			}
		} else if key, _ := w.fieldKey(x); key != "" {
			return key
		}
	case *ast.TypeAssertExpr:
		if x.Type != nil {
			return w.typeName(x.Type)
		}
	case *ast.CallExpr:
		if name, ok := w.calleeName(x); ok {
			return name + "()"
		}
	}
	if t != nil && t != crossT {
		return w.typeName(t)
	}
	return "?" + types.ExprString(e)
}

// calleeName names what the call c invokes; ok = false for conversions, pure builtins and
// calls of function literals.
func (w *walker) calleeName(c *ast.CallExpr) (name string, ok bool) {
	p := w.p
	switch f := unparen(c.Fun).(type) {
	case *ast.FuncLit:
		return "func", false
	case *ast.Ident:
		_, local := w.sc.lookup(f.Name)
		switch {
		case local:
			return "(value) " + f.Name, true
		case p.funcs[f.Name] != nil && p.funcs[f.Name].Recv == nil:
			return f.Name, true
		case p.types[f.Name] != nil:
			return f.Name, false // conversion
		case p.pkgVars[f.Name] != nil:
			return "(value) " + f.Name, true
		case p.pkgNames[f.Name]:
			return f.Name, true
		case pureBuiltin[f.Name] || universe[f.Name]:
			return f.Name, false
		}
		return "builtin." + f.Name, true
	case *ast.SelectorExpr:
		if id, isID := f.X.(*ast.Ident); isID && w.isImport(id) {
			path := p.imports[w.file][id.Name]
			if path == "" {
				path = "?" + id.Name
			}
			return path + "." + f.Sel.Name, true
		}
		if id, isID := f.X.(*ast.Ident); isID && p.types[id.Name] != nil {
			if _, local := w.sc.lookup(id.Name); !local { // method expression T.m(recv, ...)
				return id.Name + "." + f.Sel.Name, true
			}
		}
		return w.recvName(f.X) + "." + f.Sel.Name, true
	}
	if isTypeExpr(unparen(c.Fun)) {
		return "", false
	}
	return "(value) " + types.ExprString(c.Fun), true
}

// atomCall records the call c (operands already evaluated) as an Atomicity event and
// notes sync.Pool.Put calls and sync/atomic operations.
func (w *walker) atomCall(c *ast.CallExpr, async, deferred bool) {
	if !w.recording() {
		return
	}
	p := w.p
	kind := "call"
	if async {
		kind = "go"
	}
	if op := w.atomicFunc(c); op != "" {
		field := w.atomicTarget(c.Args[0])
		w.n.atomicOps = append(w.n.atomicOps, atomicOp{c.Pos(), field, op, exprStrings(c.Args[1:])})
		w.atom(c.Pos(), "atomic", field)
		if async {
			w.aerrf(c.Pos(), "atomic operation as a go statement")
		}
		return
	}
	name, ok := w.calleeName(c)
	if !ok && !(async && name == "func") {
		return
	}
	if f, isSel := unparen(c.Fun).(*ast.SelectorExpr); isSel && !w.isImport(f.X) {
		t := w.typeOf(f.X)
		m := f.Sel.Name
		if (m == "Put" && len(c.Args) == 1) || (m == "Get" && len(c.Args) == 0) {
			switch {
			case p.pkgType(t, "sync") == "Pool":
				if m == "Put" {
					w.n.puts = append(w.n.puts, poolPut{c, w.recvName(f.X), deferred})
				}
			case t == nil && len(w.methodCallees(f.X, m)) == 0:
				w.aerrf(c.Pos(), "%s on a receiver of unknown type (sync.Pool?)", m)
			}
		}
		if p.pkgType(t, "sync/atomic") != "" {
			w.n.atomicOps = append(w.n.atomicOps, atomicOp{c.Pos(), w.recvName(f.X), m, exprStrings(c.Args)})
			kind, name = "atomic", w.recvName(f.X)
			if async {
				w.aerrf(c.Pos(), "atomic operation as a go statement")
			}
		}
	}
	w.atom(c.Pos(), kind, name)
}

// ---- goto / fallthrough / labels (packages scanned for Atomicity only) ----

func (w *walker) atLabel(s *ast.LabeledStmt) {
	if !w.p.lenient {
		return
	}
	fr := w.fr
	if fr.labels == nil {
		fr.labels, fr.gotos = map[string]string{}, map[string][]set{}
	}
	name := s.Label.Name
	for _, h := range fr.gotos[name] {
		if h.key() != w.held.key() {
			w.errf(s.Pos(), "label %s is reached holding {%s} but a goto jumps to it holding {%s}", name, w.held.key(), h.key())
		}
	}
	delete(fr.gotos, name)
	fr.labels[name] = w.held.key()
}

// resumeAt: after a statement that does not fall through, the index in rest of a labelled
// statement some earlier goto is waiting for (the walk resumes there), or -1.
func (w *walker) resumeAt(rest []ast.Stmt) int {
	if !w.p.lenient || w.fr.gotos == nil {
		return -1
	}
	for j, s := range rest {
		if ls, ok := s.(*ast.LabeledStmt); ok {
			if hs := w.fr.gotos[ls.Label.Name]; len(hs) > 0 {
				w.held = hs[0].clone()
				return j
			}
		}
	}
	return -1
}

func (w *walker) lenientBranch(s *ast.BranchStmt) bool {
	switch s.Tok {
	case token.GOTO:
		fr := w.fr
		if fr.labels == nil {
			fr.labels, fr.gotos = map[string]string{}, map[string][]set{}
		}
		name := s.Label.Name
		if k, seen := fr.labels[name]; seen {
			if k != w.held.key() {
				w.errf(s.Pos(), "goto %s holding {%s} but the label was passed holding {%s}", name, w.held.key(), k)
			}
		} else {
			fr.gotos[name] = append(fr.gotos[name], w.held.clone())
		}
		return true
	case token.FALLTHROUGH:
		for i := len(w.brk) - 1; i >= 0; i-- {
			if b := w.brk[i]; !b.loop {
				if b.entry.key() != w.held.key() {
					w.errf(s.Pos(), "fallthrough holding {%s} but the switch was entered holding {%s}", w.held.key(), b.entry.key())
				}
				return true
			}
		}
	}
	return false
}

func (w *walker) endLabels(pos token.Pos) {
	for name, hs := range w.fr.gotos {
		if len(hs) > 0 {
			w.errf(pos, "goto %s: the label is never reached by the walk", name)
		}
	}
}

// ---- syntactic passes: use after Put, goroutine captures ----

// parents maps every node below root to its parent.
func parents(root ast.Node) map[ast.Node]ast.Node {
	par := map[ast.Node]ast.Node{}
	var stack []ast.Node
	ast.Inspect(root, func(n ast.Node) bool {
		if n == nil {
			stack = stack[:len(stack)-1]
			return true
		}
		if len(stack) > 0 {
			par[n] = stack[len(stack)-1]
		}
		stack = append(stack, n)
		return true
	})
	return par
}

func within(pos token.Pos, n ast.Node) bool { return n.Pos() <= pos && pos < n.End() }

// aliasExpr: does evaluating e yield (a view of) the memory of one of the objects in set?  Identifiers,
// dereferences, slicings, indexings of slices of slices, parentheses, address-of, conversions written as
// calls of a type are too rare here to matter; append(x, ..) may return x's array.
func aliasExpr(e ast.Expr, set map[*ast.Object]bool) bool {
	switch x := unparen(e).(type) {
	case *ast.Ident:
		return x.Obj != nil && set[x.Obj]
	case *ast.StarExpr:
		return aliasExpr(x.X, set)
	case *ast.SliceExpr:
		return aliasExpr(x.X, set)
	case *ast.UnaryExpr:
		return x.Op == token.AND && aliasExpr(x.X, set)
	case *ast.CallExpr:
		if f, ok := x.Fun.(*ast.Ident); ok && f.Name == "append" && len(x.Args) > 0 {
			return aliasExpr(x.Args[0], set)
		}
	}
	return false
}

// derived: the pooled object and every local variable assigned (a view of) its memory, transitively
// (flow-insensitive: `buf = *tmpBuf`, `payload := buf[a:b]`, `data := buf[:i]`).
func derived(d *ast.FuncDecl, root *ast.Object) map[*ast.Object]bool {
	set := map[*ast.Object]bool{root: true}
	for changed := true; changed; {
		changed = false
		ast.Inspect(d.Body, func(x ast.Node) bool {
			switch a := x.(type) {
			case *ast.AssignStmt:
				if len(a.Lhs) == len(a.Rhs) {
					for i, r := range a.Rhs {
						if l, ok := a.Lhs[i].(*ast.Ident); ok && l.Obj != nil && !set[l.Obj] && aliasExpr(r, set) {
							set[l.Obj] = true
							changed = true
						}
					}
				}
			case *ast.ValueSpec:
				if len(a.Names) == len(a.Values) {
					for i, r := range a.Values {
						if l := a.Names[i]; l.Obj != nil && !set[l.Obj] && aliasExpr(r, set) {
							set[l.Obj] = true
							changed = true
						}
					}
				}
			}
			return true
		})
	}
	return set
}

func mentions(n ast.Node, set map[*ast.Object]bool) bool {
	found := false
	ast.Inspect(n, func(x ast.Node) bool {
		if u, ok := x.(*ast.Ident); ok && u.Obj != nil && set[u.Obj] {
			found = true
		}
		return !found
	})
	return found
}

// laterUses: how often the object handed to Put - or a local variable that is a view of its memory - is
// mentioned after the Put, in program order as far as syntax tells: textually later in the function
// (a later call of a local function literal that mentions it counts), and, when the Put sits in
// a loop that does not declare the variable, anywhere in that loop (next iteration) unless
// the loop body first assigns the variable afresh.  A deferred Put runs before the caller sees the
// results: every return statement that hands out the object or a view of it is a use after the Put.
func (p *pkg) laterUses(d *ast.FuncDecl, put poolPut) (variable string, n int) {
	arg := unparen(put.call.Args[0])
	variable = types.ExprString(arg)
	id, isID := arg.(*ast.Ident)
	if put.deferred {
		if !isID || id.Obj == nil {
			return variable, 0
		}
		set := derived(d, id.Obj)
		named := false
		if d.Type.Results != nil {
			for _, f := range d.Type.Results.List {
				for _, nm := range f.Names {
					if nm.Obj != nil && set[nm.Obj] {
						named = true
					}
				}
			}
		}
		ast.Inspect(d.Body, func(x ast.Node) bool {
			if _, ok := x.(*ast.FuncLit); ok {
				return false
			}
			if r, ok := x.(*ast.ReturnStmt); ok && r.Pos() >= put.call.End() {
				// (arguments of a call inside the return statement are used before the deferred Put runs)
				hands := len(r.Results) == 0 && named
				for _, e := range r.Results {
					if aliasExpr(e, set) {
						hands = true
					}
				}
				if hands {
					n++
				}
			}
			return true
		})
		return variable, n
	}
	par := parents(d.Body)
	if !isID || id.Obj == nil {
		text := variable
		ast.Inspect(d.Body, func(x ast.Node) bool {
			if e, ok := x.(ast.Expr); ok && x.Pos() >= put.call.End() && types.ExprString(e) == text {
				n++
				return false
			}
			return true
		})
		return
	}
	set := derived(d, id.Obj)
	// the same object also handed back by a DEFERRED Put of this function: it runs after this one (put twice)
	ast.Inspect(d.Body, func(x ast.Node) bool {
		if df, ok := x.(*ast.DeferStmt); ok && df.Call != put.call {
			if sel, ok := df.Call.Fun.(*ast.SelectorExpr); ok && sel.Sel.Name == "Put" && len(df.Call.Args) == 1 {
				if a, ok := unparen(df.Call.Args[0]).(*ast.Ident); ok && a.Obj == id.Obj {
					n++
				}
			}
		}
		return true
	})
	// local function literals that mention the object or a view of it
	lits := map[*ast.Object]bool{}
	ast.Inspect(d.Body, func(x ast.Node) bool {
		if a, ok := x.(*ast.AssignStmt); ok && len(a.Lhs) == len(a.Rhs) {
			for i, r := range a.Rhs {
				if fl, ok := r.(*ast.FuncLit); ok {
					if l, ok := a.Lhs[i].(*ast.Ident); ok && l.Obj != nil && mentions(fl.Body, set) {
						lits[l.Obj] = true
					}
				}
			}
		}
		return true
	})
	var uses []*ast.Ident
	ast.Inspect(d.Body, func(x ast.Node) bool {
		if u, ok := x.(*ast.Ident); ok && u.Obj == id.Obj && u != id {
			uses = append(uses, u)
		}
		return true
	})
	for _, u := range uses {
		if u.Pos() >= put.call.End() {
			n++
		}
	}
	// views of the object, and calls of literals that mention it, after the Put
	ast.Inspect(d.Body, func(x ast.Node) bool {
		if u, ok := x.(*ast.Ident); ok && u.Obj != nil && u.Obj != id.Obj && u.Pos() >= put.call.End() {
			if set[u.Obj] {
				n++
			} else if lits[u.Obj] {
				n++
			}
		}
		return true
	})
	// enclosing loops that do not contain the declaration
	for x := par[put.call]; x != nil; x = par[x] {
		var body *ast.BlockStmt
		switch l := x.(type) {
		case *ast.ForStmt:
			body = l.Body
		case *ast.RangeStmt:
			body = l.Body
		case *ast.FuncLit:
			x = nil // a literal is a different activation
		}
		if x == nil {
			break
		}
		if body == nil || !within(put.call.Pos(), body) || within(id.Obj.Pos(), x) {
			continue
		}
		var before []*ast.Ident
		for _, u := range uses {
			if within(u.Pos(), body) && u.Pos() < put.call.Pos() {
				before = append(before, u)
			}
		}
		if len(before) > 0 {
			if as, ok := par[before[0]].(*ast.AssignStmt); ok && as.Tok == token.ASSIGN && len(as.Lhs) >= 1 && as.Lhs[0] == ast.Expr(before[0]) {
				continue // re-assigned at the top of each iteration
			}
			n += len(before)
		}
		break
	}
	return
}

type capture struct {
	goIdx                      int
	variable, kind, typ, where string
}

// classify a type expression for the purposes of "is this a byte buffer".
func (p *pkg) classify(t ast.Expr) (kind, text string) {
	if t == nil {
		return "?", "?"
	}
	text = types.ExprString(t)
	u := p.under(t)
	star := false
	if s, ok := u.(*ast.StarExpr); ok {
		star = true
		u = p.under(s.X)
	}
	pre := ""
	if star {
		pre = "ptr-"
	}
	switch x := u.(type) {
	case *ast.ArrayType:
		if x.Len == nil {
			return pre + "slice", text
		}
		return pre + "array", text
	case *ast.Ellipsis:
		return pre + "slice", text
	case *ast.MapType:
		return pre + "map", text
	case *ast.ChanType:
		return pre + "chan", text
	case *ast.FuncType:
		return pre + "func", text
	case *ast.InterfaceType:
		return pre + "interface", text
	case *ast.StructType:
		return pre + "struct", text
	case *ast.SelectorExpr:
		return pre + "named", text
	case *ast.Ident:
		if universe[x.Name] {
			return pre + "basic", text
		}
	}
	return "?", text
}

var basicOfLit = map[token.Token]string{token.INT: "int", token.FLOAT: "float64", token.IMAG: "complex128", token.CHAR: "rune", token.STRING: "string"}

// objType: the declared or syntactically evident type of a local variable, nil if unknown.
func (p *pkg) objType(o *ast.Object, depth int) ast.Expr {
	if o == nil || depth > 8 {
		return nil
	}
	switch d := o.Decl.(type) {
	case *ast.Field:
		if el, ok := d.Type.(*ast.Ellipsis); ok {
			return &ast.ArrayType{Elt: el.Elt}
		}
		return d.Type
	case *ast.ValueSpec:
		if d.Type != nil {
			return d.Type
		}
		for i, n := range d.Names {
			if n.Obj == o {
				if len(d.Values) == len(d.Names) {
					return p.exprType(d.Values[i], 0, depth+1)
				} else if len(d.Values) == 1 {
					return p.exprType(d.Values[0], i, depth+1)
				}
			}
		}
	case *ast.AssignStmt:
		for i, l := range d.Lhs {
			if id, ok := l.(*ast.Ident); ok && id.Obj == o {
				if len(d.Rhs) == len(d.Lhs) {
					return p.exprType(d.Rhs[i], 0, depth+1)
				} else if len(d.Rhs) == 1 {
					return p.exprType(d.Rhs[0], i, depth+1)
				}
			}
		}
	case *ast.RangeStmt:
		xt := p.under(p.exprType(d.X, 0, depth+1))
		if s, ok := xt.(*ast.StarExpr); ok {
			xt = p.under(s.X)
		}
		isKey := false
		if id, ok := d.Key.(*ast.Ident); ok && id.Obj == o {
			isKey = true
		}
		switch x := xt.(type) {
		case *ast.ArrayType:
			if isKey {
				return intT
			}
			return x.Elt
		case *ast.MapType:
			if isKey {
				return x.Key
			}
			return x.Value
		case *ast.ChanType:
			return x.Value
		}
	}
	return nil
}

// exprType: the idx-th value of e has this type, as far as the syntax shows.
func (p *pkg) exprType(e ast.Expr, idx, depth int) ast.Expr {
	if depth > 8 {
		return nil
	}
	second := func(t ast.Expr) ast.Expr { // comma-ok forms
		if idx == 1 {
			return boolT
		}
		return t
	}
	switch x := unparen(e).(type) {
	case *ast.CompositeLit:
		return x.Type
	case *ast.FuncLit:
		return x.Type
	case *ast.BasicLit:
		return ast.NewIdent(basicOfLit[x.Kind])
	case *ast.TypeAssertExpr:
		return second(x.Type)
	case *ast.UnaryExpr:
		switch x.Op {
		case token.AND:
			if t := p.exprType(x.X, 0, depth+1); t != nil {
				return &ast.StarExpr{X: t}
			}
		case token.ARROW:
			if ch, ok := p.under(p.exprType(x.X, 0, depth+1)).(*ast.ChanType); ok {
				return second(ch.Value)
			}
		case token.NOT:
			return boolT
		default:
			return p.exprType(x.X, 0, depth+1)
		}
	case *ast.BinaryExpr:
		switch x.Op {
		case token.EQL, token.NEQ, token.LSS, token.GTR, token.LEQ, token.GEQ, token.LAND, token.LOR:
			return boolT
		}
		return p.exprType(x.X, 0, depth+1)
	case *ast.StarExpr:
		if s, ok := p.under(p.exprType(x.X, 0, depth+1)).(*ast.StarExpr); ok {
			return s.X
		}
	case *ast.SliceExpr:
		t := p.exprType(x.X, 0, depth+1)
		u := p.under(t)
		if s, ok := u.(*ast.StarExpr); ok {
			u = p.under(s.X)
		}
		if a, ok := u.(*ast.ArrayType); ok && a.Len != nil {
			return &ast.ArrayType{Elt: a.Elt}
		}
		return t
	case *ast.IndexExpr:
		u := p.under(p.exprType(x.X, 0, depth+1))
		if s, ok := u.(*ast.StarExpr); ok {
			u = p.under(s.X)
		}
		switch a := u.(type) {
		case *ast.ArrayType:
			return a.Elt
		case *ast.MapType:
			return second(a.Value)
		}
	case *ast.Ident:
		if x.Obj != nil && x.Obj.Kind == ast.Var {
			return p.objType(x.Obj, depth+1)
		}
		if x.Name == "true" || x.Name == "false" {
			return boolT
		}
		if vs := p.pkgVars[x.Name]; vs != nil && vs.Type != nil {
			return vs.Type
		}
	case *ast.SelectorExpr:
		if tn := p.named(p.exprType(x.X, 0, depth+1)); tn != "" {
			if _, ft := p.field(tn, x.Sel.Name); ft != nil {
				return ft
			}
		}
	case *ast.CallExpr:
		fun := unparen(x.Fun)
		if isTypeExpr(fun) {
			if s, ok := fun.(*ast.StarExpr); !ok || isTypeExpr(s.X) || len(x.Args) == 1 {
				return fun
			}
		}
		res := func(ft *ast.FuncType) ast.Expr {
			if r := results(ft); idx < len(r) {
				return r[idx]
			}
			return nil
		}
		switch f := fun.(type) {
		case *ast.Ident:
			if f.Obj != nil && f.Obj.Kind == ast.Var {
				if ft, ok := p.under(p.objType(f.Obj, depth+1)).(*ast.FuncType); ok {
					return res(ft)
				}
				return nil
			}
			if d := p.funcs[f.Name]; d != nil && d.Recv == nil {
				return res(d.Type)
			}
			if p.types[f.Name] != nil || universe[f.Name] && len(x.Args) == 1 && !pureBuiltin[f.Name] {
				return f // conversion
			}
			switch f.Name {
			case "make":
				if len(x.Args) > 0 {
					return x.Args[0]
				}
			case "new":
				if len(x.Args) > 0 {
					return &ast.StarExpr{X: x.Args[0]}
				}
			case "append":
				if len(x.Args) > 0 {
					return p.exprType(x.Args[0], 0, depth+1)
				}
			case "len", "cap", "copy":
				return intT
			}
		case *ast.SelectorExpr:
			if id, ok := f.X.(*ast.Ident); ok && id.Obj == nil {
				if path := p.importedAs(id.Name); path == "errors" && f.Sel.Name == "New" || path == "fmt" && f.Sel.Name == "Errorf" {
					return ast.NewIdent("error")
				}
			}
			if tn := p.named(p.exprType(f.X, 0, depth+1)); tn != "" {
				if ft := p.ifaceMethodType(tn, f.Sel.Name); ft != nil {
					return res(ft)
				}
				if ds := p.lookup(tn, f.Sel.Name); len(ds) > 0 {
					return res(ds[0].Type)
				}
			}
		case *ast.FuncLit:
			return res(f.Type)
		}
	}
	return nil
}

// goCaptures: for every go statement of d, the local variables of the enclosing function
// it shares with its spawner (free variables of a function literal, and the variables in
// the operands of the go call), with the place of their declaration relative to the go
// statement: "iteration" = inside the innermost loop or function literal that contains
// the go statement (a fresh variable per goroutine), "outer" = outside it, "package" =
// a package-level variable.
func (p *pkg) goCaptures(d *ast.FuncDecl) (caps []capture, ngo int) {
	if d.Body == nil || strings.HasPrefix(d.Name.Name, "<") {
		return
	}
	par := parents(d)
	var gos []*ast.GoStmt
	ast.Inspect(d.Body, func(n ast.Node) bool {
		if g, ok := n.(*ast.GoStmt); ok {
			gos = append(gos, g)
		}
		return true
	})
	for gi, g := range gos {
		var scope ast.Node = d
		inLoop := false
		for x := par[ast.Node(g)]; x != nil; x = par[x] {
			switch l := x.(type) {
			case *ast.ForStmt:
				if within(g.Pos(), l.Body) {
					scope, inLoop = l, true
				}
			case *ast.RangeStmt:
				if within(g.Pos(), l.Body) {
					scope, inLoop = l, true
				}
			case *ast.FuncLit:
				scope = l
			}
			if scope != ast.Node(d) {
				break
			}
		}
		_ = inLoop
		lit, _ := unparen(g.Call.Fun).(*ast.FuncLit)
		seen := map[*ast.Object]bool{}
		seenPkg := set{}
		var consider func(root ast.Node)
		consider = func(root ast.Node) {
			ast.Inspect(root, func(n ast.Node) bool {
				switch x := n.(type) {
				case *ast.SelectorExpr: // x.Sel names a field or method, not a variable
					consider(x.X)
					return false
				case *ast.KeyValueExpr:
					if _, fieldName := x.Key.(*ast.Ident); fieldName {
						consider(x.Value)
						return false
					}
				}
				id, ok := n.(*ast.Ident)
				if !ok {
					return true
				}
				if vs := p.pkgVars[id.Name]; vs != nil && (id.Obj == nil || !within(id.Obj.Pos(), d)) {
					// a package-level variable: shared by every goroutine
					if !seenPkg[id.Name] {
						seenPkg[id.Name] = true
						var t ast.Expr = vs.Type
						for i, nm := range vs.Names {
							if t == nil && nm.Name == id.Name && len(vs.Values) == len(vs.Names) {
								t = p.exprType(vs.Values[i], 0, 0)
							}
						}
						kind, text := p.classify(t)
						caps = append(caps, capture{gi, id.Name, kind, text, "package"})
					}
					return true
				}
				if id.Obj == nil || id.Obj.Kind != ast.Var || seen[id.Obj] {
					return true
				}
				dp := id.Obj.Pos()
				if !within(dp, d) || lit != nil && within(dp, lit) {
					return true // not a local variable, or local to the goroutine
				}
				seen[id.Obj] = true
				where := "outer"
				if within(dp, scope) {
					where = "iteration"
				}
				kind, text := p.classify(p.objType(id.Obj, 0))
				caps = append(caps, capture{gi, id.Name, kind, text, where})
				return true
			})
		}
		if lit != nil {
			consider(lit.Body)
		} else {
			consider(g.Call.Fun)
		}
		for _, a := range g.Call.Args {
			consider(a)
		}
	}
	return caps, len(gos)
}

// ---- output ----

func coqNat(n int) string { return fmt.Sprintf("%d", n) }

func coqEvents(evs [][2]string) string {
	q := make([]string, len(evs))
	for i, e := range evs {
		q[i] = "(" + coqStr(e[0]) + ", " + coqStr(e[1]) + ")"
	}
	return coqList(q)
}

func lines(items []string) string {
	if len(items) == 0 {
		return "[]"
	}
	return "[\n  " + strings.Join(items, ";\n  ") + "]"
}

func atomicityV(pkgs []*pkg) string {
	var b strings.Builder
	b.WriteString(coqHeader)
	var regions, outside, all, entries, atomics, pools, caps, gocount, errs, pvars, graph, heldCalls, nodeLocks []string
	for _, p := range pkgs {
		var vnames []string
		for name := range p.pkgVars {
			if name != "_" {
				vnames = append(vnames, name)
			}
		}
		sort.Strings(vnames)
		for _, name := range vnames {
			vs := p.pkgVars[name]
			t := vs.Type
			for i, nm := range vs.Names {
				if t == nil && nm.Name == name && len(vs.Values) == len(vs.Names) {
					t = p.exprType(vs.Values[i], 0, 0)
				}
			}
			kind, text := p.classify(t)
			pvars = append(pvars, fmt.Sprintf("(%s, %s, %s)", coqStr(p.name+"."+name), coqStr(kind), coqStr(text)))
		}
		var ns []*node
		for _, d := range p.decls {
			ns = append(ns, p.node(d, nil))
		}
		sort.SliceStable(ns, func(i, j int) bool { return ns[i].fname < ns[j].fname })
		for _, n := range ns {
			fn := p.name + "." + n.fname
			// events, without the repetitions caused by literals analysed more than once
			seen := set{}
			var evs []atomEv
			for _, a := range n.atoms {
				k := fmt.Sprintf("%d|%s|%s", a.pos, a.kind, a.name)
				for _, h := range a.held {
					k += fmt.Sprintf("|%s@%d", h.mutex, h.site)
				}
				if !seen[k] {
					seen[k] = true
					evs = append(evs, a)
				}
			}
			// critical sections: one per Lock site, numbered in source order
			var sites []heldReg
			seenSite := map[token.Pos]bool{}
			for _, a := range n.acqs {
				if !seenSite[a.site] {
					seenSite[a.site] = true
					sites = append(sites, a)
				}
			}
			sort.Slice(sites, func(i, j int) bool { return sites[i].site < sites[j].site })
			var flat, out [][2]string
			for _, a := range evs {
				flat = append(flat, [2]string{a.kind, a.name})
				if len(a.held) == 0 {
					out = append(out, [2]string{a.kind, a.name})
				}
			}
			if len(flat) > 0 {
				all = append(all, "("+coqStr(fn)+", "+coqEvents(flat)+")")
			}
			if len(out) > 0 {
				outside = append(outside, "("+coqStr(fn)+", "+coqEvents(out)+")")
			}
			for i, s := range sites {
				var in [][2]string
				for _, a := range evs {
					for _, h := range a.held {
						if h.site == s.site && h.mutex == s.mutex {
							in = append(in, [2]string{a.kind, a.name})
						}
					}
				}
				regions = append(regions, fmt.Sprintf("(%s, %s, %s, %d, %s)", coqStr(fn), coqStr(s.mutex), coqStr(s.mode), i, coqEvents(in)))
			}
			for _, o := range n.atomicOps {
				atomics = append(atomics, fmt.Sprintf("(%s, %s, %s, %s)", coqStr(o.field), coqStr(fn), coqStr(o.op), coqStrList(o.args)))
			}
			donePut := map[*ast.CallExpr]bool{}
			for _, put := range n.puts {
				if donePut[put.call] {
					continue
				}
				donePut[put.call] = true
				v, k := p.laterUses(n.decl, put)
				mode := "direct"
				if put.deferred {
					mode = "deferred"
				}
				pools = append(pools, fmt.Sprintf("(%s, %s, %s, %s, %d)", coqStr(fn), coqStr(put.pool), coqStr(v), coqStr(mode), k))
			}
			cs, ngo := p.goCaptures(n.decl)
			if ngo > 0 {
				gocount = append(gocount, fmt.Sprintf("(%s, %d)", coqStr(fn), ngo))
			}
			for _, c := range cs {
				caps = append(caps, fmt.Sprintf("(%s, %d, %s, %s, %s, %s)", coqStr(fn), c.goIdx, coqStr(c.variable), coqStr(c.kind), coqStr(c.typ), coqStr(c.where)))
			}
			for _, e := range n.aerrs {
				errs = append(errs, p.name+": "+e)
			}
		}
		for _, n := range p.order { // live nodes, specialisations included
			key := p.name + "." + n.key
			if len(n.entry) > 0 {
				entries = append(entries, "("+coqStr(key)+", "+coqStrList(n.entry.list())+")")
			}
			callees, locks, hc := set{}, set{}, set{}
			for _, e := range n.events {
				switch e.kind {
				case evAcq:
					locks[e.name] = true
				case evCall:
					if e.async {
						continue // the spawner does not wait for the goroutine
					}
					held := e.may
					if e.addEntry {
						held = union(held, n.entry)
					}
					for _, t := range e.targets {
						callees[p.name+"."+t.key] = true
						for l := range held {
							hc["("+coqStr(key)+", "+coqStr(l)+", "+coqStr(p.name+"."+t.key)+")"] = true
						}
					}
				}
			}
			if len(callees) > 0 {
				graph = append(graph, "("+coqStr(key)+", "+coqStrList(callees.list())+")")
			}
			if len(locks) > 0 {
				nodeLocks = append(nodeLocks, "("+coqStr(key)+", "+coqStrList(locks.list())+")")
			}
			heldCalls = append(heldCalls, hc.list()...)
		}
		for _, e := range p.errors {
			errs = append(errs, p.name+": "+e)
		}
	}
	// errors: once each, sorted
	seen := set{}
	var es []string
	for _, e := range errs {
		if !seen[e] {
			seen[e] = true
			es = append(es, coqStr(e))
		}
	}
	sort.Strings(es)
	sort.Strings(entries)
	b.WriteString("(* event = (kind, name); kinds: r val w set del addr call go atomic wait - see tools/lockscan/atom.go *)\n")
	b.WriteString("(* critical sections: (function, mutex, mode, index of the Lock site in the function, events inside, in program order) *)\n")
	b.WriteString("Definition regions : list (string * string * string * nat * list (string * string)) := " + lines(regions) + ".\n")
	b.WriteString("(* events of each function that happen with no lock taken in that function *)\n")
	b.WriteString("Definition outside : list (string * list (string * string)) := " + lines(outside) + ".\n")
	b.WriteString("(* every event of each function, in program order *)\n")
	b.WriteString("Definition fn_events : list (string * list (string * string)) := " + lines(all) + ".\n")
	b.WriteString("(* locks certainly held whenever the function (or its bool specialisation) is entered *)\n")
	b.WriteString("Definition fn_entry : list (string * list string) := " + lines(entries) + ".\n")
	b.WriteString("(* in-package call graph over the functions and their bool specialisations (\"F[p=true]\"): callees\n   that run before the caller continues (calls, deferred calls, callbacks and function values; not go\n   statements); interface receivers are resolved to every in-package implementer *)\n")
	b.WriteString("Definition call_graph : list (string * list string) := " + lines(graph) + ".\n")
	b.WriteString("(* (caller, mutex, callee): the mutex may be held by the caller (taken in it, or held at its entry) while the callee runs *)\n")
	b.WriteString("Definition held_calls : list (string * string * string) := " + lines(heldCalls) + ".\n")
	b.WriteString("(* the mutexes each function (specialisation) acquires itself *)\n")
	b.WriteString("Definition node_locks : list (string * list string) := " + lines(nodeLocks) + ".\n")
	b.WriteString("(* sync/atomic operations: (field, function, operation, the other arguments as written) *)\n")
	b.WriteString("Definition atomics : list (string * string * string * list string) := " + lines(atomics) + ".\n")
	b.WriteString("(* sync.Pool.Put: (function, pool, object, direct/deferred, mentions of the object after the Put) *)\n")
	b.WriteString("Definition pool_uses : list (string * string * string * string * nat) := " + lines(pools) + ".\n")
	b.WriteString("(* go statements per function, and the local variables each one shares with its spawner:\n   (function, index of the go statement, variable, kind of type, type, iteration/outer) *)\n")
	b.WriteString("Definition go_statements : list (string * nat) := " + lines(gocount) + ".\n")
	b.WriteString("Definition goroutine_captures : list (string * nat * string * string * string * string) := " + lines(caps) + ".\n")
	b.WriteString("(* package-level variables (shared by all goroutines): (package.name, kind of type, type) *)\n")
	b.WriteString("Definition package_vars : list (string * string * string) := " + lines(pvars) + ".\n")
	b.WriteString("Definition atomicity_errors : list string := " + lines(es) + ".\n")
	return b.String()
}
