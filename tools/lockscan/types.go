package main

// Syntactic type inference. Types are the ast.Expr written in the source; nil means
// unknown; crossT, or any type expression that is not an in-package named type, means
// "declared in another package or predeclared". First the declaration-level part
// (fields, method sets, interface implementers), then the expression-level part.

import (
	"fmt"
	"go/ast"
	"go/token"
	"sort"
	"strings"
)

// ---- declaration-level type inference (types are the ast.Expr written in the source) ----

// crossT stands for "a value whose static type belongs to another package or is predeclared".
var crossT ast.Expr = &ast.Ident{Name: "<cross-package>"}
var boolT, intT ast.Expr = ast.NewIdent("bool"), ast.NewIdent("int")

// named returns the in-package defined type behind t (through parens, pointers, aliases), or "".
func (p *pkg) named(t ast.Expr) string {
	for i := 0; t != nil && i < 16; i++ {
		switch x := t.(type) {
		case *ast.ParenExpr:
			t = x.X
		case *ast.StarExpr:
			t = x.X
		case *ast.Ident:
			ts := p.types[x.Name]
			if ts == nil {
				return ""
			}
			if !ts.Assign.IsValid() {
				return x.Name
			}
			t = ts.Type // alias
		default:
			return ""
		}
	}
	return ""
}

// under resolves in-package type names to the type expression they are defined as.
func (p *pkg) under(t ast.Expr) ast.Expr {
	for i := 0; i < 16; i++ {
		switch x := t.(type) {
		case *ast.ParenExpr:
			t = x.X
		case *ast.Ident:
			ts := p.types[x.Name]
			if ts == nil {
				return t
			}
			t = ts.Type
		default:
			return t
		}
	}
	return t
}

func (p *pkg) structOf(tn string) *ast.StructType {
	st, _ := p.under(ast.NewIdent(tn)).(*ast.StructType)
	return st
}

// field finds field f of in-package struct tn, following embedded in-package structs.
// owner is the struct that declares it.
func (p *pkg) field(tn, f string) (owner string, ft ast.Expr) { return p.field1(tn, f, set{}) }

func (p *pkg) field1(tn, f string, seen set) (string, ast.Expr) {
	st := p.structOf(tn)
	if st == nil || seen[tn] {
		return "", nil
	}
	seen[tn] = true
	for _, fl := range st.Fields.List {
		if len(fl.Names) == 0 && baseTypeName(fl.Type) == f {
			return tn, fl.Type
		}
		for _, n := range fl.Names {
			if n.Name == f {
				return tn, fl.Type
			}
		}
	}
	for _, fl := range st.Fields.List {
		if len(fl.Names) == 0 {
			if en := p.named(fl.Type); en != "" {
				if o, t := p.field1(en, f, seen); o != "" {
					return o, t
				}
			}
		}
	}
	return "", nil
}

func (p *pkg) isInterface(tn string) bool {
	_, ok := p.under(ast.NewIdent(tn)).(*ast.InterfaceType)
	return ok
}

// lookup returns the in-package method declarations a call tn.m may reach.
func (p *pkg) lookup(tn, m string) []*ast.FuncDecl { return p.lookup1(tn, m, set{}) }

func (p *pkg) lookup1(tn, m string, seen set) []*ast.FuncDecl {
	if !p.isInterface(tn) {
		return p.lookupConcrete(tn, m, seen)
	}
	if seen["interface "+tn] {
		return nil
	}
	seen["interface "+tn] = true
	var r []*ast.FuncDecl
	for _, impl := range p.implementers(tn) {
		for _, d := range p.lookupConcrete(impl, m, seen) {
			dup := false
			for _, x := range r {
				dup = dup || x == d
			}
			if !dup {
				r = append(r, d)
			}
		}
	}
	return r
}

func (p *pkg) lookupConcrete(tn, m string, seen set) []*ast.FuncDecl {
	if seen[tn] {
		return nil
	}
	seen[tn] = true
	if d := p.funcs[tn+"."+m]; d != nil {
		return []*ast.FuncDecl{d}
	}
	st := p.structOf(tn)
	if st == nil {
		return nil
	}
	for _, fl := range st.Fields.List {
		if len(fl.Names) != 0 {
			continue
		}
		if en := p.named(fl.Type); en != "" {
			if r := p.lookup1(en, m, seen); len(r) > 0 {
				return r
			}
		}
	}
	return nil
}

// hiddenMethod: tn may have a method m that lookupConcrete cannot see, because it is
// promoted from an embedded foreign type or from an embedded interface.
func (p *pkg) hiddenMethod(tn, m string, seen set) bool {
	if seen[tn] {
		return false
	}
	seen[tn] = true
	var embedded []ast.Expr
	switch u := p.under(ast.NewIdent(tn)).(type) {
	case *ast.InterfaceType:
		for _, fl := range u.Methods.List {
			for _, n := range fl.Names {
				if n.Name == m {
					return true
				}
			}
			if len(fl.Names) == 0 {
				embedded = append(embedded, fl.Type)
			}
		}
	case *ast.StructType:
		for _, fl := range u.Fields.List {
			if len(fl.Names) == 0 {
				embedded = append(embedded, fl.Type)
			}
		}
	}
	for _, t := range embedded {
		if en := p.named(t); en == "" || p.hiddenMethod(en, m, seen) {
			return true
		}
	}
	return false
}

type imethod struct {
	name string
	sig  string
}

// ifaceMethods lists the explicitly declared methods of in-package interface tn (and of
// embedded in-package interfaces); methods of embedded foreign interfaces are unknown.
func (p *pkg) ifaceMethods(tn string, seen set) []imethod {
	it, ok := p.under(ast.NewIdent(tn)).(*ast.InterfaceType)
	if !ok || seen[tn] {
		return nil
	}
	seen[tn] = true
	var r []imethod
	for _, fl := range it.Methods.List {
		if ft, ok := fl.Type.(*ast.FuncType); ok {
			for _, n := range fl.Names {
				r = append(r, imethod{n.Name, p.sigString(ft, p.typeFile[tn])})
			}
		} else if en := p.named(fl.Type); en != "" {
			r = append(r, p.ifaceMethods(en, seen)...)
		}
	}
	return r
}

func (p *pkg) ifaceMethodType(tn, m string) *ast.FuncType {
	it, ok := p.under(ast.NewIdent(tn)).(*ast.InterfaceType)
	if !ok {
		return nil
	}
	for _, fl := range it.Methods.List {
		for _, n := range fl.Names {
			if ft, ok := fl.Type.(*ast.FuncType); ok && n.Name == m {
				return ft
			}
		}
	}
	return nil
}

// implementers: in-package non-interface types that may implement interface tn. A type
// is excluded only if a required method is certainly missing or certainly has another
// signature.
func (p *pkg) implementers(tn string) []string {
	if r, ok := p.implCache[tn]; ok {
		return r
	}
	p.implCache[tn] = nil
	ms := p.ifaceMethods(tn, set{})
	var r []string
	for name, ts := range p.types {
		if ts.Assign.IsValid() || p.isInterface(name) {
			continue
		}
		ok := true
		for _, m := range ms {
			ds := p.lookupConcrete(name, m.name, set{})
			if len(ds) == 0 {
				if !p.hiddenMethod(name, m.name, set{}) {
					ok = false
				}
				continue
			}
			match := false
			for _, d := range ds {
				s := p.sigString(d.Type, p.declFile[d])
				if s == m.sig || strings.Contains(s, "?") || strings.Contains(m.sig, "?") {
					match = true
				}
			}
			if !match {
				ok = false
			}
		}
		if ok {
			r = append(r, name)
		}
	}
	sort.Strings(r)
	p.implCache[tn] = r
	return r
}

// sigString renders parameter and result types canonically: import names become import
// paths, in-package aliases are expanded, "?" marks something not understood.
func (p *pkg) sigString(ft *ast.FuncType, f *ast.File) string {
	list := func(fl *ast.FieldList) string {
		var r []string
		if fl != nil {
			for _, x := range fl.List {
				n := len(x.Names)
				if n == 0 {
					n = 1
				}
				for i := 0; i < n; i++ {
					r = append(r, p.typeString(x.Type, f))
				}
			}
		}
		return strings.Join(r, ",")
	}
	return "(" + list(ft.Params) + ")(" + list(ft.Results) + ")"
}

func (p *pkg) typeString(t ast.Expr, f *ast.File) string {
	switch x := t.(type) {
	case *ast.Ident:
		if ts := p.types[x.Name]; ts != nil && ts.Assign.IsValid() {
			return p.typeString(ts.Type, p.typeFile[x.Name])
		}
		switch x.Name {
		case "byte":
			return "uint8"
		case "rune":
			return "int32"
		case "any":
			return "interface{}"
		}
		return x.Name
	case *ast.ParenExpr:
		return p.typeString(x.X, f)
	case *ast.StarExpr:
		return "*" + p.typeString(x.X, f)
	case *ast.SelectorExpr:
		if id, ok := x.X.(*ast.Ident); ok && p.imports[f][id.Name] != "" {
			return `"` + p.imports[f][id.Name] + `".` + x.Sel.Name
		}
	case *ast.ArrayType:
		if x.Len == nil {
			return "[]" + p.typeString(x.Elt, f)
		}
		if bl, ok := x.Len.(*ast.BasicLit); ok {
			return "[" + bl.Value + "]" + p.typeString(x.Elt, f)
		}
	case *ast.Ellipsis:
		return "..." + p.typeString(x.Elt, f)
	case *ast.MapType:
		return "map[" + p.typeString(x.Key, f) + "]" + p.typeString(x.Value, f)
	case *ast.ChanType:
		return fmt.Sprintf("chan%d ", x.Dir) + p.typeString(x.Value, f)
	case *ast.FuncType:
		return "func" + p.sigString(x, f)
	case *ast.InterfaceType:
		if x.Methods == nil || len(x.Methods.List) == 0 {
			return "interface{}"
		}
	}
	return "?"
}

// results flattens a result list to one type per value.
func results(ft *ast.FuncType) []ast.Expr {
	var r []ast.Expr
	if ft != nil && ft.Results != nil {
		for _, x := range ft.Results.List {
			n := len(x.Names)
			if n == 0 {
				n = 1
			}
			for i := 0; i < n; i++ {
				r = append(r, x.Type)
			}
		}
	}
	return r
}

// methodCallees: the in-package methods x.m may denote. Unknown receiver type: every
// in-package method named m. Receiver type of another package: none.
func (w *walker) methodCallees(x ast.Expr, m string) []*ast.FuncDecl {
	t := w.typeOf(x)
	if it, ok := w.p.under(t).(*ast.InterfaceType); ok && w.p.named(t) == "" && it.Methods != nil && len(it.Methods.List) > 0 {
		t = nil // anonymous interface type
	}
	if t == nil {
		return w.p.byName[m]
	}
	if tn := w.p.named(t); tn != "" {
		return w.p.lookup(tn, m)
	}
	return nil
}

// ---- expression-level type inference ----

func one(t ast.Expr) []ast.Expr { return []ast.Expr{t} }

func (w *walker) typeOf(e ast.Expr) ast.Expr {
	if ts := w.typesOf(e); len(ts) > 0 {
		return ts[0]
	}
	return nil
}

// varType gives the type of a package-level variable.
func (w *walker) varType(name string) (ast.Expr, bool) {
	p := w.p
	vs := p.pkgVars[name]
	if vs == nil {
		return nil, false
	}
	if vs.Type != nil || len(vs.Values) != len(vs.Names) || p.varBusy[name] {
		return vs.Type, true
	}
	p.varBusy[name] = true
	defer delete(p.varBusy, name)
	for i, n := range vs.Names {
		if n.Name == name {
			pw := &walker{p: p, n: w.n, file: w.file, sc: &scope{m: map[string]binding{}}, active: w.active}
			return pw.typeOf(vs.Values[i]), true
		}
	}
	return nil, true
}

// typesOf gives one static type per value of e: nil = unknown, crossT or a type
// expression that is not an in-package named type = foreign or predeclared.
func (w *walker) typesOf(e ast.Expr) []ast.Expr {
	ts := w.typesOf0(e)
	for i, t := range ts {
		for s, ok := unparen(t).(*ast.StarExpr); ok; s, ok = unparen(t).(*ast.StarExpr) {
			t = s.X
		}
		// a type name that is neither declared in the package nor predeclared is a type
		// parameter or a local type: unknown
		if id, ok := unparen(t).(*ast.Ident); ok && id != crossT && w.p.types[id.Name] == nil && !universe[id.Name] {
			ts[i] = nil
		}
	}
	return ts
}

func (w *walker) typesOf0(e ast.Expr) []ast.Expr {
	p := w.p
	switch x := e.(type) {
	case *ast.ParenExpr:
		return w.typesOf(x.X)
	case *ast.Ident:
		if b, ok := w.sc.lookup(x.Name); ok {
			return one(b.t)
		}
		if t, ok := w.varType(x.Name); ok {
			return one(t)
		}
		if d := p.funcs[x.Name]; d != nil && d.Recv == nil {
			return one(d.Type)
		}
	case *ast.StarExpr:
		t := w.typeOf(x.X)
		if s, ok := p.under(t).(*ast.StarExpr); ok {
			return one(s.X)
		}
		if t == crossT {
			return one(crossT)
		}
	case *ast.UnaryExpr:
		switch x.Op {
		case token.AND:
			if t := w.typeOf(x.X); t != nil && t != crossT {
				return one(&ast.StarExpr{X: t})
			} else if t == crossT {
				return one(crossT)
			}
		case token.ARROW:
			if ch, ok := p.under(w.typeOf(x.X)).(*ast.ChanType); ok {
				return []ast.Expr{ch.Value, boolT}
			}
		case token.NOT:
			return one(boolT)
		}
	case *ast.CompositeLit:
		return one(x.Type)
	case *ast.FuncLit:
		return one(x.Type)
	case *ast.TypeAssertExpr:
		if x.Type != nil {
			return []ast.Expr{x.Type, boolT}
		}
	case *ast.IndexExpr:
		t := w.typeOf(x.X)
		if t == crossT {
			return one(crossT)
		}
		u := p.under(t)
		if s, ok := u.(*ast.StarExpr); ok {
			u = p.under(s.X)
		}
		switch u := u.(type) {
		case *ast.MapType:
			return []ast.Expr{u.Value, boolT}
		case *ast.ArrayType:
			return one(u.Elt)
		}
	case *ast.SliceExpr:
		t := w.typeOf(x.X)
		if a, ok := p.under(t).(*ast.ArrayType); ok && a.Len != nil {
			return one(&ast.ArrayType{Elt: a.Elt})
		}
		return one(t)
	case *ast.SelectorExpr:
		if w.isImport(x.X) {
			return one(crossT)
		}
		t := w.typeOf(x.X)
		if t == nil {
			return one(nil)
		}
		tn := p.named(t)
		if tn == "" {
			if _, anon := p.under(t).(*ast.StructType); anon {
				return one(nil)
			}
			return one(crossT) // field or method of a foreign type
		}
		if _, ft := p.field(tn, x.Sel.Name); ft != nil {
			return one(ft)
		}
		if ft := p.ifaceMethodType(tn, x.Sel.Name); ft != nil {
			return one(ft)
		}
		if ds := p.lookup(tn, x.Sel.Name); len(ds) > 0 {
			return one(ds[0].Type)
		}
	case *ast.CallExpr:
		return w.callResults(x)
	case *ast.BasicLit:
		return one(crossT)
	}
	return one(nil)
}

func (w *walker) callResults(c *ast.CallExpr) []ast.Expr {
	p := w.p
	fun := unparen(c.Fun)
	switch f := fun.(type) {
	case *ast.Ident:
		if b, ok := w.sc.lookup(f.Name); ok {
			if ft, ok := p.under(b.t).(*ast.FuncType); ok {
				return results(ft)
			}
			return nil
		}
		if d := p.funcs[f.Name]; d != nil && d.Recv == nil {
			return results(d.Type)
		}
		if p.types[f.Name] != nil {
			return one(f) // conversion
		}
		if t, ok := w.varType(f.Name); ok {
			if ft, ok := p.under(t).(*ast.FuncType); ok {
				return results(ft)
			}
			return nil
		}
		switch {
		case f.Name == "new" && len(c.Args) == 1:
			return one(&ast.StarExpr{X: c.Args[0]})
		case f.Name == "make" && len(c.Args) >= 1:
			return one(c.Args[0])
		case f.Name == "append" && len(c.Args) >= 1:
			return one(w.typeOf(c.Args[0]))
		}
		return one(crossT) // other builtins and conversions to predeclared types
	case *ast.SelectorExpr:
		if w.isImport(f.X) {
			return one(crossT)
		}
		t := w.typeOf(f.X)
		if t == nil {
			return nil
		}
		tn := p.named(t)
		if tn == "" {
			return one(crossT)
		}
		if ft := p.ifaceMethodType(tn, f.Sel.Name); ft != nil {
			return results(ft)
		}
		if ds := p.lookup(tn, f.Sel.Name); len(ds) > 0 {
			return results(ds[0].Type)
		}
		if _, ft := p.field(tn, f.Sel.Name); ft != nil {
			if fn, ok := p.under(ft).(*ast.FuncType); ok {
				return results(fn)
			}
		}
		return nil
	case *ast.FuncLit:
		return results(f.Type)
	}
	if isTypeExpr(fun) {
		return one(fun) // conversion
	}
	if ft, ok := p.under(w.typeOf(fun)).(*ast.FuncType); ok {
		return results(ft)
	}
	return nil
}

func (w *walker) rangeTypes(x ast.Expr) (k, v ast.Expr) {
	t := w.typeOf(x)
	if t == crossT {
		return crossT, crossT
	}
	u := w.p.under(t)
	if s, ok := u.(*ast.StarExpr); ok {
		u = w.p.under(s.X)
	}
	switch u := u.(type) {
	case *ast.MapType:
		return u.Key, u.Value
	case *ast.ArrayType:
		return intT, u.Elt
	case *ast.ChanType:
		return u.Value, nil
	}
	return nil, nil
}
