// lockscan: a small static lock-order and guarded-by scanner for Go packages,
// written for the Cloak verification framework (/verif). Standard library only
// (go/ast + go/parser; of go/types only the expression printer).
//
//	cd /verif/tools/lockscan && GOFLAGS=-mod=mod GOPROXY=off go run . -out DIR [-overlay FILE] [-v] [-atom PKGDIR,PKGDIR...] PKGDIR...
//
// For every package directory it writes DIR/LockGraph.v (mutexes, lock-acquisition
// edges, errors) and DIR/Guards.v (held sets at accesses of selected variables), and
// DIR/Atomicity.v (critical sections with the events inside them, sync/atomic operations,
// uses after sync.Pool.Put, variables shared with goroutines: see atom.go) for these
// packages and for the ones named by -atom (which do not appear in the other two files
// and in which goto, fallthrough and local mutexes are followed instead of rejected), and
// prints a human readable report (-v: also every method call that was not followed or
// was resolved by the union rule). Exit status: 0 no errors, 1 analysis errors (files
// are still written, lockscan_errors non-empty), 2 usage/IO failure; cycles do not
// change it. ("go run" itself reports any non-zero status as 1 and prints
// "exit status N"; build the binary to see 2.) -overlay FILE, or $VERIF_EXTRA_OVERLAY,
// is a "go build -overlay" style JSON file: replaced, added and deleted .go files.
//
// Files: main.go (driver, Coq output), pkg.go (loading, declarations), types.go
// (syntactic type inference), walk.go (per-function walker), solve.go (summaries,
// edges, must-hold-at-entry, guards, cycles, report), atom.go (Atomicity.v).
//
// WHAT IS MODELLED
//   - Mutexes: struct fields of type [*]sync.Mutex / [*]sync.RWMutex ("T.f"), embedded
//     ones ("T.Mutex"), the locker of a [*]sync.Cond field ("T.c.L"), package-level
//     mutex variables. IDENTITY IS BY NAME: all instances of T.f are one node, so a
//     self edge T.f -> T.f may relate two different objects (reported, never hidden).
//   - Lock/RLock/TryLock/TryRLock acquire, Unlock/RUnlock release, "defer x.Unlock()"
//     keeps the lock until function exit, c.Wait() re-acquires c.L with the other held
//     locks still held. RLock and Lock are not distinguished. "if x.TryLock() {...}"
//     (or "if !x.TryLock()") holds the lock on the successful branch only; a TryLock
//     anywhere else is an unconditional acquisition.
//   - Edge (A,B): B is requested (directly, or by an in-package callee according to its
//     transitive summary acq(f)) while A is held in the same function.
//   - Control flow: if/else, switch, type switch, select, for, range, labels, break,
//     continue, return, panic/os.Exit/log.Fatal/log.Panic/runtime.Goexit. The held set
//     must be the same on all branches reaching a join, a loop body must preserve it,
//     and every return must leave exactly the locks held at entry (after deferred
//     unlocks). Anything else is an ERROR, as are goto, fallthrough, deferred Lock,
//     Unlock of a lock not taken in this function, mutexes used as values (aliasing),
//     local mutex variables, Lock calls on something that is not a known mutex,
//     ambiguous unresolved mutex/tracked field names and unresolved identifiers.
//   - Calls: functions and methods of the same package, resolved with a small syntactic
//     type inference (receivers, parameters, results, struct fields incl. promoted
//     ones, composite literals, new/make, in-package call results, range/index/
//     assertion/receive forms). Receiver of in-package interface type: union over the
//     in-package types that can implement it (method names and signatures compared
//     textually, import names resolved to import paths). Receiver of unknown type:
//     union over all in-package methods of that name.
//   - Bool specialisation: a bool parameter that is only read and is tested by
//     "if p" / "if !p" is specialised at call sites passing the literal true/false;
//     the branch not taken contributes nothing. The unspecialised version is analysed
//     only if it can be reached (exported, used as a value, no call site, or called
//     with a non-literal).
//   - go statements start from the empty held set and contribute nothing to the
//     spawner. "defer f()" / "defer func(){}()" run at exit: for edges with every lock
//     held at any exit, for guards with the locks whose deferred unlock was registered
//     earlier. Other function literals (callbacks, literals stored in variables or
//     fields) and function/method values (e.g. time.AfterFunc(d, s.checkTimeout)) are
//     treated for EDGES as if called synchronously where they appear (superset) and for
//     GUARDS as if called with nothing held (subset); a local variable bound to a
//     literal is additionally re-analysed at each direct call of that variable.
//   - Guards: for each access of a tracked field (table "tracked" below) the triple
//     (variable, function, locks certainly held) where held = locks taken in the
//     function so far + must-hold-at-entry(function), the latter being the greatest
//     fixpoint of the intersection over all in-package call sites (empty for exported
//     functions, functions used as values, goroutine entry points, functions without
//     in-package call site). Keys of composite literals are initialisation, not access.
//
// WHAT IS NOT MODELLED (soundness caveats)
//   - No alias analysis: identity by name; a mutex reached through a pointer copy,
//     interface (sync.Locker) or function argument is reported as an error, not tracked.
//   - Cross-package calls are not followed: a call whose receiver has a type of another
//     package (net.Conn, mux.Session, sync.Map, ...) or that names a function of another
//     package contributes nothing, even if that code calls back into this package
//     (callbacks given as function literals, e.g. to sync.Once.Do or sync.Map.Range, are
//     covered because the literal is analysed where it is written; methods called back
//     through an interface, e.g. container/heap calling sorterHeap.Push, are not).
//   - Calls through function-typed variables, fields, parameters and results are not
//     followed (the literal / method value is accounted for where it is created).
//   - Type inference is syntactic: generics, dot imports (error), local type
//     declarations and shadowed type or package names are not understood; an
//     unresolvable receiver falls back to the union rule above.
//   - Only the default build configuration is scanned (linux, amd64, gc, unix,
//     go1.1..go1.24; tags such as verif or gofuzz are off). Test files are ignored.
//   - Panics are treated as leaving the function without running its deferred calls.
package main

import (
	"encoding/json"
	"flag"
	"fmt"
	"os"
	"path/filepath"
	"sort"
	"strings"
)

// tracked lists, per package short name, the struct fields whose accesses are
// reported in Guards.v; trackedSub lists sub-selectors reported under their own name.
var tracked = map[string][]string{
	"multiplex": {"Stream.writingFrame", "Session.streams"},
	"server":    {"ActiveUser.sessions", "userPanel.usageUpdateQueue", "userPanel.activeUsers", "State.UsedRandom"},
}
var trackedSub = map[string][]string{"Stream.writingFrame": {"Seq"}}

type set map[string]bool

func (s set) clone() set {
	r := set{}
	for k := range s {
		r[k] = true
	}
	return r
}
func (s set) list() []string {
	r := make([]string, 0, len(s))
	for k := range s {
		r = append(r, k)
	}
	sort.Strings(r)
	return r
}
func (s set) key() string { return strings.Join(s.list(), ", ") }
func union(a, b set) set {
	r := a.clone()
	for k := range b {
		r[k] = true
	}
	return r
}

func fail(format string, a ...interface{}) {
	fmt.Fprintf(os.Stderr, "lockscan: "+format+"\n", a...)
	os.Exit(2)
}

var verbose bool

func main() {
	flag.BoolVar(&verbose, "v", false, "also list the method calls that were not followed or resolved by the union rule")
	out := flag.String("out", "", "output directory for LockGraph.v and Guards.v (required)")
	ovFile := flag.String("overlay", "", "JSON overlay file {\"Replace\": {path: replacement}} (default $VERIF_EXTRA_OVERLAY)")
	atomDirs := flag.String("atom", "", "comma separated package directories scanned for Atomicity.v only (not part of LockGraph.v / Guards.v)")
	flag.Usage = func() {
		fmt.Fprintln(os.Stderr, "usage: lockscan -out DIR [-overlay FILE] PKGDIR...")
		flag.PrintDefaults()
	}
	flag.Parse()
	if *out == "" || flag.NArg() == 0 {
		flag.Usage()
		os.Exit(2)
	}
	if *ovFile == "" {
		*ovFile = os.Getenv("VERIF_EXTRA_OVERLAY")
	}
	overlay := map[string]string{}
	if *ovFile != "" {
		data, err := os.ReadFile(*ovFile)
		if err != nil {
			fail("%v", err)
		}
		var ov struct{ Replace map[string]string }
		if err := json.Unmarshal(data, &ov); err != nil {
			fail("overlay %s: %v", *ovFile, err)
		}
		for k, v := range ov.Replace {
			abs, err := filepath.Abs(k)
			if err != nil {
				fail("%v", err)
			}
			overlay[abs] = v
		}
	}

	var pkgs []*pkg
	seen := map[string]bool{}
	var atomPkgs []*pkg
	load := func(dir string, lenient bool) *pkg {
		p, err := loadPkg(dir, overlay, lenient)
		if err != nil {
			fail("%v", err)
		}
		if seen[p.name] {
			fail("two package directories with the same short name %q", p.name)
		}
		seen[p.name] = true
		p.analyse()
		return p
	}
	for _, dir := range flag.Args() {
		pkgs = append(pkgs, load(dir, false))
	}
	for _, dir := range strings.Split(*atomDirs, ",") {
		if dir != "" {
			atomPkgs = append(atomPkgs, load(dir, true))
		}
	}

	nerr := 0
	for _, p := range pkgs {
		p.report(os.Stdout)
		nerr += len(p.errors)
	}
	if err := os.MkdirAll(*out, 0o755); err != nil {
		fail("%v", err)
	}
	if err := os.WriteFile(filepath.Join(*out, "LockGraph.v"), []byte(lockGraphV(pkgs)), 0o644); err != nil {
		fail("%v", err)
	}
	if err := os.WriteFile(filepath.Join(*out, "Guards.v"), []byte(guardsV(pkgs)), 0o644); err != nil {
		fail("%v", err)
	}
	for _, p := range atomPkgs {
		p.reportAtomOnly(os.Stdout)
	}
	if err := os.WriteFile(filepath.Join(*out, "Atomicity.v"), []byte(atomicityV(append(append([]*pkg{}, pkgs...), atomPkgs...))), 0o644); err != nil {
		fail("%v", err)
	}
	if nerr > 0 {
		os.Exit(1)
	}
}

// ---- Coq output ----

const coqHeader = "(* GENERATED by tools/lockscan from /repo on every run - do not edit. *)\n" +
	"From Coq Require Import String List.\nImport ListNotations.\nLocal Open Scope string_scope.\n"

func coqStr(s string) string {
	s = strings.NewReplacer("\n", " ", "\r", " ", "\t", " ").Replace(s)
	return `"` + strings.ReplaceAll(s, `"`, `""`) + `"`
}

func coqList(items []string) string { return "[" + strings.Join(items, "; ") + "]" }

func coqStrList(ss []string) string {
	q := make([]string, len(ss))
	for i, s := range ss {
		q[i] = coqStr(s)
	}
	return coqList(q)
}

func coqIdent(s string) string {
	var b strings.Builder
	for i, r := range s {
		switch {
		case r == '_' || r >= 'a' && r <= 'z' || r >= 'A' && r <= 'Z', i > 0 && r >= '0' && r <= '9':
			b.WriteRune(r)
		default:
			b.WriteRune('_')
		}
	}
	return b.String()
}

func lockGraphV(pkgs []*pkg) string {
	var b strings.Builder
	b.WriteString(coqHeader)
	var errs []string
	for _, p := range pkgs {
		id := coqIdent(p.name)
		fmt.Fprintf(&b, "Definition %s_mutexes : list string := %s.\n", id, coqStrList(p.mutexNames()))
		var es []string
		for _, e := range p.edgeList() {
			es = append(es, "("+coqStr(e[0])+", "+coqStr(e[1])+")")
		}
		fmt.Fprintf(&b, "Definition %s_lock_edges : list (string * string) := %s.\n", id, coqList(es))
		for _, e := range p.errors {
			errs = append(errs, p.name+": "+e)
		}
	}
	fmt.Fprintf(&b, "Definition lockscan_errors : list string := %s.\n", coqStrList(errs))
	return b.String()
}

func guardsV(pkgs []*pkg) string {
	var gs []string
	for _, p := range pkgs {
		for _, g := range p.guardList() {
			gs = append(gs, "("+coqStr(g.variable)+", "+coqStr(g.function)+", "+coqStrList(g.held)+")")
		}
	}
	sort.Strings(gs)
	return coqHeader + "Definition guards : list (string * string * list string) := " + coqList(gs) + ".\n"
}
