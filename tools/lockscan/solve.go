package main

// Whole-package part: which nodes are live, acq() summaries, edges, must-hold-at-entry,
// guards, cycles, and the textual report.

import (
	"fmt"
	"go/ast"
	"io"
	"sort"
	"strings"
)

type guard struct {
	variable, function string
	held               []string
	sites              []string
}

func (p *pkg) analyse() {
	// 1. walk every function unspecialised to learn call sites and value uses
	for _, d := range p.decls {
		p.walk(p.node(d, nil))
	}
	calls, valued := map[*ast.FuncDecl]int{}, map[*ast.FuncDecl]bool{}
	for _, n := range append([]*node{}, p.order...) {
		if len(n.env) > 0 {
			continue
		}
		for _, e := range n.events {
			for _, t := range e.targets {
				if e.value {
					valued[t.decl] = true
				} else {
					calls[t.decl]++
				}
			}
		}
	}
	// external: may be entered from outside the analysed call sites, with nothing known to be held
	external := func(d *ast.FuncDecl) bool { return ast.IsExported(d.Name.Name) || valued[d] || calls[d] == 0 }

	// 2. live nodes: the unspecialised version of every function that needs one, plus
	// everything reachable through recorded calls (this is where specialisations come in)
	var work, live []*node
	mark := func(n *node) {
		if !n.live {
			n.live = true
			work = append(work, n)
		}
	}
	for _, d := range p.decls {
		if len(p.specParams(d)) == 0 || external(d) {
			mark(p.node(d, nil))
		}
	}
	for len(work) > 0 {
		n := work[len(work)-1]
		work = work[:len(work)-1]
		live = append(live, n)
		p.walk(n)
		for _, e := range n.events {
			for _, t := range e.targets {
				mark(t)
			}
		}
	}
	sort.Slice(live, func(i, j int) bool { return live[i].key < live[j].key })
	p.order = live

	// 3. acq(f): least fixpoint over the call graph (go statements excluded)
	for changed := true; changed; {
		changed = false
		add := func(n *node, l string, r reason) {
			if !n.acq[l] {
				n.acq[l], n.why[l], changed = true, r, true
			}
		}
		for _, n := range live {
			for _, e := range n.events {
				if !e.inSum || e.async {
					continue
				}
				if e.kind == evAcq {
					add(n, e.name, reason{pos: e.pos})
				}
				for _, t := range e.targets {
					for _, l := range t.acq.list() {
						add(n, l, reason{pos: e.pos, via: t})
					}
				}
			}
		}
	}

	// 4. edges
	for _, n := range live {
		for _, e := range n.events {
			for _, a := range e.may.list() {
				if e.kind == evAcq {
					p.addEdge(a, e.name, fmt.Sprintf("%s %s direct", n.key, p.pos(e.pos)))
				}
				if e.async {
					continue
				}
				for _, t := range e.targets {
					for _, b := range t.acq.list() {
						what := "calls"
						if e.value {
							what = "takes the value of"
						}
						p.addEdge(a, b, fmt.Sprintf("%s %s %s %s", n.key, p.pos(e.pos), what, p.chain(t, b)))
					}
				}
			}
		}
	}

	// 5. must-hold-at-entry: greatest fixpoint of the intersection over call sites
	for _, n := range live {
		n.entry, n.entryTop = set{}, !(len(n.env) == 0 && external(n.decl))
	}
	for changed := true; changed; {
		changed = false
		for _, n := range live {
			for _, e := range n.events {
				if e.kind != evCall {
					continue
				}
				h := set{}
				if !e.async && !e.value {
					if e.addEntry && n.entryTop {
						continue // caller not constrained yet
					}
					h = e.must.clone()
					if e.addEntry {
						h = union(h, n.entry)
					}
				}
				for _, t := range e.targets {
					if t.entryTop {
						t.entryTop, t.entry, changed = false, h.clone(), true
						continue
					}
					for l := range t.entry {
						if !h[l] {
							delete(t.entry, l)
							changed = true
						}
					}
				}
			}
		}
	}
	for _, n := range live {
		if n.entryTop { // only called from code that is itself never called
			n.entryTop, n.entry = false, set{}
		}
	}

	// 6. guards
	for _, n := range live {
		for _, e := range n.events {
			if e.kind != evAccess {
				continue
			}
			h := e.must
			if e.addEntry {
				h = union(h, n.entry)
			}
			k := e.name + "|" + n.fname + "|" + h.key()
			g := p.guards[k]
			if g == nil {
				g = &guard{variable: e.name, function: n.fname, held: h.list()}
				p.guards[k] = g
			}
			if s := p.pos(e.pos); !contains(g.sites, s) {
				g.sites = append(g.sites, s)
			}
		}
	}

	// 7. errors
	seen := set{}
	var errs []string
	for _, n := range live {
		p.errors = append(p.errors, n.errs...)
	}
	for _, e := range p.errors {
		if !seen[e] {
			seen[e] = true
			errs = append(errs, e)
		}
	}
	sort.Strings(errs)
	p.errors = errs
}

func (p *pkg) addEdge(a, b, site string) {
	k := [2]string{a, b}
	if !contains(p.edges[k], site) {
		p.edges[k] = append(p.edges[k], site)
	}
}

// chain explains why node n may acquire lock l.
func (p *pkg) chain(n *node, l string) string {
	var parts []string
	for i := 0; n != nil && i < 64; i++ {
		r := n.why[l]
		if r.via == nil {
			parts = append(parts, fmt.Sprintf("%s which locks it at %s", n.key, p.pos(r.pos)))
			break
		}
		parts = append(parts, fmt.Sprintf("%s (%s)", n.key, p.pos(r.pos)))
		n = r.via
	}
	return strings.Join(parts, " -> ")
}

func (p *pkg) edgeList() [][2]string {
	var r [][2]string
	for k := range p.edges {
		r = append(r, k)
	}
	sort.Slice(r, func(i, j int) bool { return r[i][0] < r[j][0] || r[i][0] == r[j][0] && r[i][1] < r[j][1] })
	return r
}

func (p *pkg) guardList() []*guard {
	var keys []string
	for k := range p.guards {
		keys = append(keys, k)
	}
	sort.Strings(keys)
	var r []*guard
	for _, k := range keys {
		r = append(r, p.guards[k])
	}
	return r
}

// cycles enumerates the elementary cycles of the edge relation (self edges included),
// each once, starting at its smallest mutex.
func (p *pkg) cycles() [][]string {
	succ := map[string][]string{}
	for _, e := range p.edgeList() {
		succ[e[0]] = append(succ[e[0]], e[1])
	}
	var res [][]string
	var path []string
	on := set{}
	var dfs func(start, v string)
	dfs = func(start, v string) {
		path = append(path, v)
		on[v] = true
		for _, s := range succ[v] {
			if s == start {
				res = append(res, append(append([]string{}, path...), start))
			} else if s > start && !on[s] {
				dfs(start, s)
			}
		}
		on[v] = false
		path = path[:len(path)-1]
	}
	for _, m := range p.mutexNames() {
		dfs(m, m)
	}
	return res
}

func (p *pkg) report(w io.Writer) {
	fmt.Fprintf(w, "== package %s (%s): %d files, %d functions analysed\n", p.name, p.dir, len(p.files), len(p.order))
	fmt.Fprintf(w, "mutexes:\n")
	for _, m := range p.mutexNames() {
		fmt.Fprintf(w, "  %s\n", m)
	}
	fmt.Fprintf(w, "edges (B requested while A held):\n")
	for _, e := range p.edgeList() {
		fmt.Fprintf(w, "  %s -> %s\n", e[0], e[1])
		for _, s := range p.edges[e] {
			fmt.Fprintf(w, "      %s\n", s)
		}
	}
	fmt.Fprintf(w, "acq summaries:\n")
	for _, n := range p.order {
		if len(n.acq) > 0 {
			fmt.Fprintf(w, "  %s: {%s}\n", n.key, n.acq.key())
		}
	}
	fmt.Fprintf(w, "must-hold-at-entry (non-empty only):\n")
	for _, n := range p.order {
		if len(n.entry) > 0 {
			fmt.Fprintf(w, "  %s: {%s}\n", n.key, n.entry.key())
		}
	}
	fmt.Fprintf(w, "guards:\n")
	for _, g := range p.guardList() {
		fmt.Fprintf(w, "  %s in %s under {%s}   at %s\n", g.variable, g.function, strings.Join(g.held, ", "), strings.Join(g.sites, " "))
	}
	if verbose {
		fmt.Fprintf(w, "method calls not resolved to a single in-package type (-v):\n")
		for _, n := range p.order {
			for i, s := range n.notes {
				if !contains(n.notes[:i], s) {
					fmt.Fprintf(w, "  %s: %s\n", n.key, s)
				}
			}
		}
	}
	fmt.Fprintf(w, "errors: %d\n", len(p.errors))
	for _, e := range p.errors {
		fmt.Fprintf(w, "  ERROR %s\n", e)
	}
	cs := p.cycles()
	for _, c := range cs {
		fmt.Fprintf(w, "CYCLE %s: %s\n", p.name, strings.Join(c, " -> "))
	}
	if len(cs) == 0 {
		fmt.Fprintf(w, "ACYCLIC %s\n", p.name)
	}
	fmt.Fprintln(w)
}

// reportAtomOnly: packages scanned for Atomicity.v only.
func (p *pkg) reportAtomOnly(w io.Writer) {
	fmt.Fprintf(w, "== package %s (%s): %d files, %d functions analysed (Atomicity.v only)\n", p.name, p.dir, len(p.files), len(p.order))
	fmt.Fprintf(w, "errors: %d\n", len(p.errors))
	for _, e := range p.errors {
		fmt.Fprintf(w, "  ERROR %s\n", e)
	}
	fmt.Fprintln(w)
}
