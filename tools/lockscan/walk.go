package main

// The per-function walker: tracks the held set through the statements of one function
// (one "node": a function, possibly specialised on bool parameters) and records events
// (acquisitions, calls, accesses of tracked variables). Everything it does not
// understand becomes an error string.

import (
	"fmt"
	"go/ast"
	"go/token"
	"sort"
	"strings"
)

type binding struct {
	t   ast.Expr     // static type as written in the source, nil if unknown
	lit *ast.FuncLit // the variable is bound to this function literal
	sc  *scope       // scope the literal was written in
}

type scope struct {
	m  map[string]binding
	up *scope
}

func (s *scope) lookup(n string) (binding, bool) {
	for ; s != nil; s = s.up {
		if b, ok := s.m[n]; ok {
			return b, true
		}
	}
	return binding{}, false
}

func (s *scope) bind(n string, b binding) {
	if n != "_" {
		s.m[n] = b
	}
}

func (s *scope) setLit(n string, lit *ast.FuncLit, at *scope) {
	for ; s != nil; s = s.up {
		if b, ok := s.m[n]; ok {
			b.lit, b.sc = lit, at
			s.m[n] = b
			return
		}
	}
}

const (
	evAcq = iota
	evCall
	evAccess
)

type event struct {
	kind     int
	pos      token.Pos
	name     string  // evAcq: mutex, evAccess: variable
	targets  []*node // evCall
	may      set     // locks possibly held here (used for edges)
	must     set     // locks certainly held, taken in this function (used for guards)
	addEntry bool    // the function's must-hold-at-entry set is held here as well
	inSum    bool    // contributes to acq(enclosing function)
	async    bool    // go statement
	value    bool    // function or method value, not a call
}

// node: a function declaration, possibly specialised on literal bool arguments.
type node struct {
	decl         *ast.FuncDecl
	fname, key   string
	env          map[string]bool
	events       []event
	errs, notes  []string
	walked, live bool
	acq          set
	why          map[string]reason
	entry        set // must-hold-at-entry
	entryTop     bool

	// by-products for Atomicity.v (atom.go); recorded for unspecialised nodes only
	atoms     []atomEv
	acqs      []heldReg
	puts      []poolPut
	atomicOps []atomicOp
	aerrs     []string
}

type reason struct {
	pos token.Pos
	via *node
}

func (p *pkg) node(d *ast.FuncDecl, env map[string]bool) *node {
	key := funcName(d)
	if len(env) > 0 {
		var parts []string
		for k, v := range env {
			parts = append(parts, fmt.Sprintf("%s=%v", k, v))
		}
		sort.Strings(parts)
		key += "[" + strings.Join(parts, ",") + "]"
	}
	if n := p.nodes[key]; n != nil {
		return n
	}
	n := &node{decl: d, fname: funcName(d), key: key, env: env, acq: set{}, why: map[string]reason{}}
	p.nodes[key] = n
	p.order = append(p.order, n)
	return n
}

type deferredCall struct {
	call         *ast.CallExpr
	sc           *scope
	must, heldAt set
}

// frame: one activation of a function body or function literal.
type frame struct {
	entry    set // held set on entry; every exit must restore it
	deferred set // locks with a registered deferred unlock
	extra    set // locks that may additionally be held (callbacks, deferred calls): edges only
	defers   []deferredCall
	exits    []set
	addEntry bool
	inSum    bool
	labels   map[string]string // lenient mode: held set (key) at each label seen so far
	gotos    map[string][]set  // lenient mode: held sets of forward gotos waiting for their label
}

type breakable struct {
	label    string
	loop     bool
	entry    set
	breaks   []set
	hasBreak bool
}

type walker struct {
	p      *pkg
	n      *node
	file   *ast.File
	sc     *scope
	fr     *frame
	held   set
	brk    []*breakable
	label  string
	active map[*ast.FuncLit]bool

	// Atomicity by-products: last acquisition site and mode per mutex (path-insensitive),
	// access kind handed down to the next expr call, context of the literal being walked
	sites map[string]token.Pos
	modes map[string]string
	acc   string
	ctx   string
	// the operand of a sync/atomic function: not reported as a plain access
	skipSel *ast.SelectorExpr
}

const (
	modeSync     = iota // called right here
	modeCallback        // may be called here or later: edges with the current held set, guards with none
	modeGo              // new goroutine
)

var lockOps = map[string]bool{"Lock": true, "RLock": true, "TryLock": true, "TryRLock": true, "Unlock": false, "RUnlock": false}

var universe = set{"nil": true, "true": true, "false": true, "iota": true, "error": true, "string": true, "bool": true, "any": true,
	"int": true, "int8": true, "int16": true, "int32": true, "int64": true, "uint": true, "uint8": true, "uint16": true, "uint32": true,
	"uint64": true, "uintptr": true, "byte": true, "rune": true, "float32": true, "float64": true, "complex64": true, "complex128": true}

func (p *pkg) walk(n *node) {
	if n.walked {
		return
	}
	n.walked = true
	w := &walker{p: p, n: n, file: p.declFile[n.decl], active: map[*ast.FuncLit]bool{}, sites: map[string]token.Pos{}, modes: map[string]string{}}
	sc := &scope{m: map[string]binding{}}
	if n.decl.Recv != nil {
		for _, fl := range n.decl.Recv.List {
			for _, name := range fl.Names {
				sc.bind(name.Name, binding{t: fl.Type})
			}
		}
	}
	w.runBody(n.decl.Type, n.decl.Body, &frame{extra: set{}, addEntry: true, inSum: true}, set{}, sc)
}

func (w *walker) errf(pos token.Pos, format string, a ...interface{}) {
	w.n.errs = append(w.n.errs, fmt.Sprintf("%s: %s: ", w.p.pos(pos), w.n.fname)+fmt.Sprintf(format, a...))
}

func (w *walker) emit(e event, async bool) *event {
	e.addEntry, e.inSum = w.fr.addEntry, w.fr.inSum
	if async {
		e.may, e.must, e.addEntry, e.async = set{}, set{}, false, true
	} else {
		e.must, e.may = w.held.clone(), union(w.held, w.fr.extra)
	}
	w.n.events = append(w.n.events, e)
	return &w.n.events[len(w.n.events)-1]
}

// runBody analyses a function or literal body in a new frame, starting from held.
func (w *walker) runBody(ft *ast.FuncType, body *ast.BlockStmt, fr *frame, held set, sc *scope) {
	sv := *w
	w.fr, w.held, w.sc, w.brk, w.label = fr, held, &scope{m: map[string]binding{}, up: sc}, nil, ""
	fr.entry, fr.deferred = held.clone(), set{}
	for _, fl := range append(append([]*ast.Field{}, ft.Params.List...), resultFields(ft)...) {
		t := fl.Type
		if el, ok := t.(*ast.Ellipsis); ok {
			t = &ast.ArrayType{Elt: el.Elt}
		}
		for _, name := range fl.Names {
			w.sc.bind(name.Name, binding{t: t})
		}
	}
	if !w.stmts(body.List) {
		w.exit(body.Rbrace)
	}
	w.endLabels(body.Rbrace)
	w.runDefers()
	w.fr, w.held, w.sc, w.brk, w.label = sv.fr, sv.held, sv.sc, sv.brk, sv.label
}

func (w *walker) runLit(lit *ast.FuncLit, mode int, sc *scope) {
	if w.active[lit] {
		return // recursive literal: already being analysed
	}
	w.active[lit] = true
	defer delete(w.active, lit)
	defer func(c string) { w.ctx = c }(w.ctx)
	switch mode {
	case modeCallback:
		w.ctx = "cb"
	case modeGo:
		w.ctx = "go"
	}
	switch mode {
	case modeSync:
		w.runBody(lit.Type, lit.Body, &frame{extra: w.fr.extra, addEntry: w.fr.addEntry, inSum: w.fr.inSum}, w.held.clone(), sc)
	case modeCallback:
		w.runBody(lit.Type, lit.Body, &frame{extra: union(w.fr.extra, w.held), inSum: w.fr.inSum}, set{}, sc)
	case modeGo:
		w.runBody(lit.Type, lit.Body, &frame{extra: set{}}, set{}, sc)
	}
}

// exit checks a return (or the end of the body): after the deferred unlocks exactly the
// locks held at entry must remain.
func (w *walker) exit(pos token.Pos) {
	rem := set{}
	for l := range w.held {
		if !w.fr.deferred[l] {
			rem[l] = true
		}
	}
	if rem.key() != w.fr.entry.key() {
		w.errf(pos, "leaves the function holding {%s} but entered it holding {%s}", rem.key(), w.fr.entry.key())
	}
	w.fr.exits = append(w.fr.exits, w.held.clone())
}

// runDefers accounts for the deferred calls of the finished frame (other than deferred
// unlocks): edges with every lock held at any exit or at the defer statement, guards
// with the locks whose deferred unlock was registered before them.
func (w *walker) runDefers() {
	fr := w.fr
	ex := set{}
	for _, e := range fr.exits {
		ex = union(ex, e)
	}
	for i := len(fr.defers) - 1; i >= 0; i-- {
		d := fr.defers[i]
		nf := &frame{extra: union(fr.extra, union(ex, d.heldAt)), addEntry: fr.addEntry, inSum: fr.inSum}
		if lit, ok := unparen(d.call.Fun).(*ast.FuncLit); ok {
			w.runBody(lit.Type, lit.Body, nf, d.must.clone(), d.sc)
			continue
		}
		sv := *w
		nf.entry, nf.deferred = d.must.clone(), set{}
		w.fr, w.held, w.sc = nf, d.must.clone(), d.sc
		w.atomCall(d.call, false, true)
		w.invoke(d.call, false)
		w.fr, w.held, w.sc = sv.fr, sv.held, sv.sc
	}
}

func (w *walker) push() { w.sc = &scope{m: map[string]binding{}, up: w.sc} }
func (w *walker) pop()  { w.sc = w.sc.up }

func (w *walker) pushBrk(loop bool) *breakable {
	b := &breakable{label: w.label, loop: loop, entry: w.held.clone()}
	w.label = ""
	w.brk = append(w.brk, b)
	return b
}
func (w *walker) popBrk() { w.brk = w.brk[:len(w.brk)-1] }

// join merges the held sets of the branches that reach the join point; true = none does.
func (w *walker) join(cands []set, pos token.Pos) bool {
	if len(cands) == 0 {
		return true
	}
	w.held = cands[0].clone()
	for _, c := range cands[1:] {
		if c.key() != cands[0].key() {
			w.errf(pos, "branches reach the join with different held sets {%s} and {%s}", cands[0].key(), c.key())
			w.held = union(w.held, c)
		}
	}
	return false
}

func (w *walker) loopEnd(b *breakable, pos token.Pos) {
	if w.held.key() != b.entry.key() {
		w.errf(pos, "loop body changes the held set from {%s} to {%s}", b.entry.key(), w.held.key())
	}
}

func (w *walker) stmts(list []ast.Stmt) bool {
	for i := 0; i < len(list); i++ {
		if w.stmt(list[i]) {
			// the rest is unreachable (goto is rejected), except, in lenient mode, from a label
			// that an earlier goto jumps forward to
			j := w.resumeAt(list[i+1:])
			if j < 0 {
				return true
			}
			i += j
		}
	}
	return false
}

// stmt analyses one statement; true means control does not flow to the next statement.
func (w *walker) stmt(s ast.Stmt) bool {
	switch s := s.(type) {
	case nil, *ast.EmptyStmt:
	case *ast.ExprStmt:
		w.expr(s.X)
		return w.terminating(s.X)
	case *ast.IncDecStmt:
		w.exprAcc(s.X, "w")
	case *ast.SendStmt:
		w.exprAcc(s.Chan, "use")
		w.expr(s.Value)
	case *ast.AssignStmt:
		w.assign(s)
	case *ast.DeclStmt:
		w.declStmt(s)
	case *ast.GoStmt:
		w.call(s.Call, true)
	case *ast.DeferStmt:
		w.deferStmt(s)
	case *ast.ReturnStmt:
		for _, r := range s.Results {
			w.expr(r)
		}
		w.exit(s.Pos())
		return true
	case *ast.BranchStmt:
		w.branch(s)
		return true
	case *ast.LabeledStmt:
		w.atLabel(s)
		w.label = s.Label.Name
		t := w.stmt(s.Stmt)
		w.label = ""
		return t
	case *ast.BlockStmt:
		w.push()
		defer w.pop()
		return w.stmts(s.List)
	case *ast.IfStmt:
		w.push()
		defer w.pop()
		w.stmt(s.Init)
		if v, known := w.constCond(s.Cond); known { // specialised bool parameter
			if v {
				return w.stmt(s.Body)
			}
			return s.Else != nil && w.stmt(s.Else)
		}
		w.expr(s.Cond)
		h := w.held.clone()
		if l, neg := w.tryLockCond(s.Cond); l != "" { // the lock is held on one branch only
			if delete(h, l); neg {
				w.held, h = h, w.held.clone()
			}
		}
		var cands []set
		if !w.stmt(s.Body) {
			cands = append(cands, w.held)
		}
		w.held = h.clone()
		if s.Else == nil {
			cands = append(cands, h)
		} else if !w.stmt(s.Else) {
			cands = append(cands, w.held)
		}
		return w.join(cands, s.Pos())
	case *ast.ForStmt:
		w.push()
		defer w.pop()
		w.stmt(s.Init)
		b := w.pushBrk(true)
		w.expr(s.Cond)
		if !w.stmt(s.Body) {
			w.stmt(s.Post)
			w.loopEnd(b, s.Pos())
		}
		w.popBrk()
		w.held = b.entry.clone()
		return s.Cond == nil && !b.hasBreak
	case *ast.RangeStmt:
		w.exprAcc(s.X, "use")
		w.push()
		defer w.pop()
		if s.Tok == token.DEFINE {
			kt, vt := w.rangeTypes(s.X)
			if id, ok := s.Key.(*ast.Ident); ok {
				w.sc.bind(id.Name, binding{t: kt})
			}
			if id, ok := s.Value.(*ast.Ident); ok {
				w.sc.bind(id.Name, binding{t: vt})
			}
		} else {
			w.exprAcc(s.Key, "w")
			w.exprAcc(s.Value, "w")
		}
		b := w.pushBrk(true)
		if !w.stmt(s.Body) {
			w.loopEnd(b, s.Pos())
		}
		w.popBrk()
		w.held = b.entry.clone()
	case *ast.SwitchStmt:
		w.push()
		defer w.pop()
		w.stmt(s.Init)
		w.expr(s.Tag)
		return w.clauses(s.Body.List, s.Pos(), true, nil)
	case *ast.TypeSwitchStmt:
		w.push()
		defer w.pop()
		w.stmt(s.Init)
		name, x := "", ast.Expr(nil)
		switch a := s.Assign.(type) {
		case *ast.ExprStmt:
			x = a.X
		case *ast.AssignStmt:
			name, x = a.Lhs[0].(*ast.Ident).Name, a.Rhs[0]
		}
		if ta, ok := unparen(x).(*ast.TypeAssertExpr); ok {
			x = ta.X
		}
		w.expr(x)
		xt := w.typeOf(x)
		return w.clauses(s.Body.List, s.Pos(), false, func(cc *ast.CaseClause) {
			if name != "" {
				t := xt
				if id, isID := unparen0(cc.List).(*ast.Ident); len(cc.List) == 1 && !(isID && id.Name == "nil") {
					t = cc.List[0]
				}
				w.sc.bind(name, binding{t: t})
			}
		})
	case *ast.SelectStmt:
		return w.clauses(s.Body.List, s.Pos(), false, nil)
	default:
		w.errf(s.Pos(), "statement of kind %T is not understood", s)
	}
	return false
}

func unparen0(l []ast.Expr) ast.Expr {
	if len(l) == 1 {
		return unparen(l[0])
	}
	return nil
}

// clauses analyses the clauses of a switch, type switch or select.
func (w *walker) clauses(list []ast.Stmt, pos token.Pos, caseExprs bool, bind func(*ast.CaseClause)) bool {
	b := w.pushBrk(false)
	h := w.held.clone()
	implicit := true // no default clause: control may skip every clause (not for select)
	var cands []set
	for _, c := range list {
		w.held = h.clone()
		w.push()
		var body []ast.Stmt
		switch cc := c.(type) {
		case *ast.CaseClause:
			if cc.List == nil {
				implicit = false
			}
			if caseExprs {
				for _, e := range cc.List {
					w.expr(e)
				}
			}
			if bind != nil {
				bind(cc)
			}
			body = cc.Body
		case *ast.CommClause:
			implicit = false
			w.stmt(cc.Comm)
			body = cc.Body
		}
		if !w.stmts(body) {
			cands = append(cands, w.held)
		}
		w.pop()
	}
	w.popBrk()
	cands = append(cands, b.breaks...)
	if implicit && (len(list) > 0 || caseExprs || bind != nil) {
		cands = append(cands, h)
	}
	return w.join(cands, pos)
}

func (w *walker) branch(s *ast.BranchStmt) {
	if w.p.lenient && w.lenientBranch(s) {
		return
	}
	if s.Tok != token.BREAK && s.Tok != token.CONTINUE {
		w.errf(s.Pos(), "%s is not supported", s.Tok)
		return
	}
	for i := len(w.brk) - 1; i >= 0; i-- {
		b := w.brk[i]
		if s.Label != nil && b.label != s.Label.Name || s.Label == nil && !b.loop && s.Tok == token.CONTINUE {
			continue
		}
		if !b.loop {
			b.breaks = append(b.breaks, w.held.clone())
		} else {
			if w.held.key() != b.entry.key() {
				w.errf(s.Pos(), "%s with held set {%s} but the loop was entered with {%s}", s.Tok, w.held.key(), b.entry.key())
			}
			b.hasBreak = b.hasBreak || s.Tok == token.BREAK
		}
		return
	}
	w.errf(s.Pos(), "%s without enclosing statement", s.Tok)
}

func (w *walker) terminating(e ast.Expr) bool {
	c, ok := unparen(e).(*ast.CallExpr)
	if !ok {
		return false
	}
	switch f := unparen(c.Fun).(type) {
	case *ast.Ident:
		_, local := w.sc.lookup(f.Name)
		return f.Name == "panic" && !local && !w.p.pkgNames["panic"]
	case *ast.SelectorExpr:
		if id, ok := f.X.(*ast.Ident); ok && w.isImport(id) {
			n := f.Sel.Name
			return id.Name == "os" && n == "Exit" || id.Name == "runtime" && n == "Goexit" ||
				(id.Name == "log" || id.Name == "logrus") && (strings.HasPrefix(n, "Fatal") || strings.HasPrefix(n, "Panic"))
		}
	}
	return false
}

// tryLockCond recognises "x.TryLock()" / "!x.TryLock()" on a known mutex as the whole condition.
func (w *walker) tryLockCond(c ast.Expr) (lock string, neg bool) {
	c = unparen(c)
	if u, ok := c.(*ast.UnaryExpr); ok && u.Op == token.NOT {
		neg, c = true, unparen(u.X)
	}
	if call, ok := c.(*ast.CallExpr); ok {
		if sel, ok := unparen(call.Fun).(*ast.SelectorExpr); ok && strings.HasPrefix(sel.Sel.Name, "Try") && !w.isImport(sel.X) {
			if l, k := w.lockName(sel.X); k == "mutex" {
				return l, neg
			}
		}
	}
	return "", false
}

// constCond: the condition is a specialised bool parameter or its negation.
func (w *walker) constCond(c ast.Expr) (val, known bool) {
	c = unparen(c)
	neg := false
	if u, ok := c.(*ast.UnaryExpr); ok && u.Op == token.NOT {
		neg, c = true, unparen(u.X)
	}
	if id, ok := c.(*ast.Ident); ok {
		if v, ok := w.n.env[id.Name]; ok {
			return v != neg, true
		}
	}
	return false, false
}

func (w *walker) assign(s *ast.AssignStmt) {
	for _, r := range s.Rhs {
		w.expr(r)
	}
	litOf := func(i int) *ast.FuncLit {
		if len(s.Rhs) == len(s.Lhs) {
			fl, _ := unparen(s.Rhs[i]).(*ast.FuncLit)
			return fl
		}
		return nil
	}
	if s.Tok != token.DEFINE {
		for i, l := range s.Lhs {
			if id, ok := unparen(l).(*ast.Ident); ok {
				w.sc.setLit(id.Name, litOf(i), w.sc)
			}
			if _, whole := unparen(l).(*ast.SelectorExpr); whole && s.Tok == token.ASSIGN {
				w.exprAcc(l, "set") // the whole field is replaced
			} else {
				w.exprAcc(l, "w")
			}
		}
		return
	}
	var ts []ast.Expr
	if len(s.Rhs) == 1 && len(s.Lhs) > 1 {
		ts = w.typesOf(s.Rhs[0])
		for len(ts) >= 1 && ts[0] == crossT && len(ts) < len(s.Lhs) { // all results of a foreign call are foreign
			ts = append(ts, crossT)
		}
	} else {
		for _, r := range s.Rhs {
			ts = append(ts, w.typeOf(r))
		}
	}
	for i, l := range s.Lhs {
		id, ok := l.(*ast.Ident)
		if !ok {
			w.expr(l)
			continue
		}
		b := binding{lit: litOf(i), sc: w.sc}
		if i < len(ts) {
			b.t = ts[i]
		}
		if k := w.p.syncKind(b.t, w.file); k != "" && !(k == "mutex" && w.p.lenient) {
			w.errf(id.Pos(), "local mutex or condition variable %s is not modelled", id.Name)
		}
		w.sc.bind(id.Name, b)
	}
}

func (w *walker) declStmt(s *ast.DeclStmt) {
	gd, ok := s.Decl.(*ast.GenDecl)
	if !ok {
		w.errf(s.Pos(), "declaration not understood")
		return
	}
	for _, sp := range gd.Specs {
		switch sp := sp.(type) {
		case *ast.TypeSpec:
			w.sc.bind(sp.Name.Name, binding{})
		case *ast.ValueSpec:
			var ts []ast.Expr
			for _, v := range sp.Values {
				w.expr(v)
				ts = append(ts, w.typeOf(v))
			}
			if len(sp.Values) == 1 && len(sp.Names) > 1 {
				ts = w.typesOf(sp.Values[0])
			}
			for i, n := range sp.Names {
				b := binding{t: sp.Type, sc: w.sc}
				if sp.Type == nil && i < len(ts) {
					b.t = ts[i]
				}
				if len(sp.Values) == len(sp.Names) {
					b.lit, _ = unparen(sp.Values[i]).(*ast.FuncLit)
				}
				if k := w.p.syncKind(b.t, w.file); gd.Tok == token.VAR && k != "" && !(k == "mutex" && w.p.lenient) {
					w.errf(n.Pos(), "local mutex or condition variable %s is not modelled", n.Name)
				}
				w.sc.bind(n.Name, b)
			}
		}
	}
}

func (w *walker) deferStmt(s *ast.DeferStmt) {
	c := s.Call
	if sel, ok := unparen(c.Fun).(*ast.SelectorExpr); ok && !w.isImport(sel.X) {
		if acquire, isOp := lockOps[sel.Sel.Name]; isOp {
			if l, kind := w.lockName(sel.X); kind == "mutex" {
				w.lockBase(sel.X)
				switch {
				case acquire:
					w.errf(s.Pos(), "deferred %s of %s is not modelled", sel.Sel.Name, l)
				case !w.held[l]:
					w.errf(s.Pos(), "deferred unlock of %s which is not held here", l)
				case w.fr.deferred[l]:
					w.errf(s.Pos(), "second deferred unlock of %s", l)
				default:
					w.fr.deferred[l] = true
				}
				return
			} else if kind == "ambiguous" {
				return
			}
		}
		if _, kind := w.lockName(sel.X); kind == "cond" && sel.Sel.Name == "Wait" {
			w.errf(s.Pos(), "deferred Wait is not modelled")
			return
		}
	}
	// the operands are evaluated now, the call happens at function exit
	w.operands(c)
	must := set{}
	for l := range w.held {
		if w.fr.deferred[l] {
			must[l] = true
		}
	}
	w.fr.defers = append(w.fr.defers, deferredCall{call: c, sc: w.sc, must: must, heldAt: w.held.clone()})
}

// ---- expressions ----

// exprAcc evaluates e as the location of a write ("w": element store, ++, op=, copy into;
// "set": the whole field is assigned; "del": delete / clear), of an address-of ("addr") or
// of a read that does not hand out the value ("use": indexed, ranged over, measured,
// dereferenced, receiver of a call, path to a sub-field); the plain kind "" is a read of the
// value as a whole ("val": assigned, passed on, returned, compared). The kind travels down
// the location path only (Atomicity events; nothing else depends on it).
func (w *walker) exprAcc(e ast.Expr, acc string) {
	w.acc = acc
	w.expr(e)
	w.acc = ""
}

func (w *walker) expr(e ast.Expr) {
	acc := w.acc
	w.acc = ""
	switch x := e.(type) {
	case nil, *ast.BasicLit, *ast.ArrayType, *ast.MapType, *ast.ChanType, *ast.FuncType, *ast.InterfaceType, *ast.StructType, *ast.Ellipsis:
	case *ast.Ident:
		if _, local := w.sc.lookup(x.Name); local {
			return
		}
		if w.p.pkgVars[x.Name] != nil && w.p.locks[x.Name] == "" {
			w.atom(x.Pos(), accKind(acc), "var "+x.Name)
		}
		if w.p.locks[x.Name] != "" {
			w.errf(x.Pos(), "mutex %s used as a value (aliasing is not modelled)", x.Name)
		}
		if d := w.p.funcs[x.Name]; d != nil && d.Recv == nil {
			w.record(x.Pos(), []*ast.FuncDecl{d}, nil, false, true)
		}
	case *ast.ParenExpr:
		w.exprAcc(x.X, acc)
	case *ast.StarExpr:
		w.exprAcc(x.X, orUse(acc))
	case *ast.UnaryExpr:
		switch x.Op {
		case token.AND:
			w.exprAcc(x.X, "addr")
		case token.ARROW:
			w.exprAcc(x.X, "use")
		default:
			w.expr(x.X)
		}
	case *ast.BinaryExpr:
		w.expr(x.X)
		w.expr(x.Y)
	case *ast.IndexExpr:
		w.exprAcc(x.X, orUse(acc))
		w.expr(x.Index)
	case *ast.IndexListExpr:
		w.expr(x.X)
		for _, i := range x.Indices {
			w.expr(i)
		}
	case *ast.SliceExpr:
		w.exprAcc(x.X, acc)
		w.expr(x.Low)
		w.expr(x.High)
		w.expr(x.Max)
	case *ast.TypeAssertExpr:
		w.expr(x.X)
	case *ast.KeyValueExpr:
		w.expr(x.Key)
		w.expr(x.Value)
	case *ast.CompositeLit:
		for _, el := range x.Elts {
			if kv, ok := el.(*ast.KeyValueExpr); ok {
				if _, fieldName := kv.Key.(*ast.Ident); !fieldName { // "field: value" initialises, it does not access
					w.expr(kv.Key)
				}
				w.expr(kv.Value)
			} else {
				w.expr(el)
			}
		}
	case *ast.FuncLit:
		w.runLit(x, modeCallback, w.sc)
	case *ast.SelectorExpr:
		w.selector(x, acc)
	case *ast.CallExpr:
		w.call(x, false)
	default:
		w.errf(e.Pos(), "expression of kind %T is not understood", e)
	}
}

// selector handles x.f in value position (not the function of a call).
func (w *walker) selector(x *ast.SelectorExpr, acc string) {
	if w.isImport(x.X) {
		return
	}
	p := w.p
	baseAcc := w.atomSelector(x, acc)
	if n := x.Sel.Name; n == "Broadcast" || n == "Signal" {
		if _, k := w.lockName(x.X); k == "cond" { // method value of a condition variable: not a lock operation
			w.lockBase(x.X)
			return
		}
	}
	if in, ok := unparen(x.X).(*ast.SelectorExpr); ok && !w.isImport(in.X) {
		if key, _ := w.fieldKey(in); p.trackedSet[key] && contains(trackedSub[key], x.Sel.Name) {
			w.emit(event{kind: evAccess, pos: x.Pos(), name: key + "." + x.Sel.Name}, false)
			w.atom(in.Pos(), accKind(baseAcc), key)
			w.expr(in.X)
			return
		}
	}
	key, _ := w.fieldKey(x)
	switch {
	case p.locks[key] != "":
		w.errf(x.Pos(), "%s used as a value (aliasing is not modelled)", key)
	case p.trackedSet[key]:
		w.emit(event{kind: evAccess, pos: x.Pos(), name: key}, false)
	case key == "":
		if ds := w.methodCallees(x.X, x.Sel.Name); len(ds) > 0 { // method value
			w.record(x.Pos(), ds, nil, false, true)
		}
	}
	w.exprAcc(x.X, baseAcc)
}

// fieldKey names the struct field x denotes ("T.f"), "" if it is not a field of an
// in-package struct. With an unresolvable receiver a mutex or tracked field is resolved
// by its name if only one struct declares it; otherwise that is an error (amb).
func (w *walker) fieldKey(x *ast.SelectorExpr) (key string, amb bool) {
	p, f := w.p, x.Sel.Name
	t := w.typeOf(x.X)
	if t == nil {
		var cand []string
		for _, o := range p.owners[f] {
			if k := o + "." + f; p.locks[k] != "" || p.trackedSet[k] {
				cand = append(cand, k)
			}
		}
		if len(cand) == 0 {
			return "", false
		}
		if len(p.owners[f]) == 1 {
			return cand[0], false
		}
		w.errf(x.Pos(), "cannot resolve the receiver of .%s and the field name is ambiguous (%s)", f, strings.Join(p.owners[f], ", "))
		return "", true
	}
	if tn := p.named(t); tn != "" {
		if o, _ := p.field(tn, f); o != "" {
			return o + "." + f, false
		}
	}
	return "", false
}

// lockName resolves the receiver of a lock operation: kind is "mutex", "cond",
// "ambiguous" (error already reported) or "" (not a known mutex).
func (w *walker) lockName(e ast.Expr) (name, kind string) {
	p := w.p
	e = unparen(e)
	switch x := e.(type) {
	case *ast.Ident:
		if b, local := w.sc.lookup(x.Name); !local && p.locks[x.Name] != "" {
			return x.Name, p.locks[x.Name]
		} else if local && p.lenient && p.syncKind(b.t, w.file) == "mutex" {
			return "local " + w.n.fname + "." + x.Name, "mutex"
		}
	case *ast.SelectorExpr:
		if w.isImport(x.X) {
			return "", ""
		}
		if x.Sel.Name == "L" {
			if n, k := w.lockName(x.X); k == "cond" {
				return n + ".L", "mutex"
			} else if k == "ambiguous" {
				return "", k
			}
		}
		key, amb := w.fieldKey(x)
		if amb {
			return "", "ambiguous"
		}
		if p.locks[key] != "" {
			return key, p.locks[key]
		}
	}
	if tn := p.named(w.typeOf(e)); tn != "" { // struct value with an embedded mutex
		for _, m := range []string{"Mutex", "RWMutex"} {
			if o, _ := p.field(tn, m); o != "" && p.locks[o+"."+m] == "mutex" {
				return o + "." + m, "mutex"
			}
		}
	}
	return "", ""
}

// lockBase evaluates what lies below the mutex in the receiver of a lock operation.
func (w *walker) lockBase(e ast.Expr) {
	x, ok := unparen(e).(*ast.SelectorExpr)
	if !ok {
		if _, id := unparen(e).(*ast.Ident); !id {
			w.expr(e)
		}
		return
	}
	if x.Sel.Name == "L" {
		if _, k := w.lockName(x.X); k == "cond" {
			w.lockBase(x.X)
			return
		}
	}
	if key, _ := w.fieldKey(x); w.p.locks[key] != "" {
		w.expr(x.X)
		return
	}
	w.expr(e)
}

func (w *walker) isImport(e ast.Expr) bool {
	id, ok := e.(*ast.Ident)
	if !ok {
		return false
	}
	if _, local := w.sc.lookup(id.Name); local || w.p.pkgNames[id.Name] || universe[id.Name] {
		return false
	}
	if w.p.imports[w.file][id.Name] == "" {
		w.errf(id.Pos(), "unresolved identifier %s (not a local, package-level or imported name)", id.Name)
	}
	return true
}

// call handles a call evaluated here; async: it is the call of a go statement.
func (w *walker) call(c *ast.CallExpr, async bool) {
	if sel, ok := unparen(c.Fun).(*ast.SelectorExpr); ok && !w.isImport(sel.X) && w.lockCall(c, sel, async) {
		return
	}
	w.prepAtomic(c)
	w.operands(c)
	w.atomCall(c, async, false)
	w.invoke(c, async)
}

// lockCall handles Lock/Unlock/... on mutexes and Wait/Broadcast/Signal on condition variables.
func (w *walker) lockCall(c *ast.CallExpr, sel *ast.SelectorExpr, async bool) bool {
	name := sel.Sel.Name
	if acquire, isOp := lockOps[name]; isOp {
		l, kind := w.lockName(sel.X)
		switch kind {
		case "mutex":
			w.lockBase(sel.X)
			switch {
			case async:
				w.errf(c.Pos(), "%s of %s in a go statement is not modelled", name, l)
			case acquire:
				w.emit(event{kind: evAcq, pos: c.Pos(), name: l}, false)
				w.held[l] = true
				w.acquired(l, name, c.Pos())
			case !w.held[l]:
				w.errf(c.Pos(), "%s of %s which was not locked in this function", name, l)
			case w.fr.deferred[l]:
				w.errf(c.Pos(), "%s of %s which also has a deferred unlock", name, l)
			default:
				delete(w.held, l)
			}
			return true
		case "ambiguous":
			return true
		}
		if len(w.methodCallees(sel.X, name)) == 0 {
			w.errf(c.Pos(), "%s called on something that is not a known mutex", name)
			w.operands(c)
			return true
		}
		return false // Lock method of an in-package type: an ordinary call
	}
	if name == "Wait" || name == "Broadcast" || name == "Signal" {
		l, kind := w.lockName(sel.X)
		if kind != "cond" {
			return kind == "ambiguous"
		}
		w.lockBase(sel.X)
		if name == "Wait" { // releases L, blocks, re-acquires L with everything else still held
			l += ".L"
			if async || !w.held[l] {
				w.errf(c.Pos(), "Wait without holding %s in this function", l)
				return true
			}
			delete(w.emit(event{kind: evAcq, pos: c.Pos(), name: l}, false).may, l)
			w.atom(c.Pos(), "wait", l)
		} else {
			// who is woken matters to the models (a close must release EVERY parked reader): recorded as a call
			w.atom(c.Pos(), "call", l+"."+name)
		}
		return true
	}
	return false
}

func isTypeExpr(e ast.Expr) bool {
	switch e.(type) {
	case *ast.ArrayType, *ast.MapType, *ast.ChanType, *ast.FuncType, *ast.InterfaceType, *ast.StructType, *ast.StarExpr:
		return true
	}
	return false
}

// operands evaluates receiver and arguments of a call.
func (w *walker) operands(c *ast.CallExpr) {
	switch f := unparen(c.Fun).(type) {
	case *ast.SelectorExpr:
		if !w.isImport(f.X) {
			w.exprAcc(f.X, "use") // method call on it, or call of a function-typed field
		}
	case *ast.Ident, *ast.FuncLit:
	default:
		if !isTypeExpr(f) {
			w.expr(f)
		}
	}
	for i, a := range c.Args {
		if kind := w.builtinAccess(c.Fun); i == 0 && kind != "" {
			w.exprAcc(a, kind)
			if kind == "del" {
				w.atomDeleteOperand(a)
			}
		} else {
			w.expr(a)
		}
	}
}

// invoke accounts for the call itself (operands already evaluated).
func (w *walker) invoke(c *ast.CallExpr, async bool) {
	mode := modeSync
	if async {
		mode = modeGo
	}
	switch f := unparen(c.Fun).(type) {
	case *ast.FuncLit:
		w.runLit(f, mode, w.sc)
	case *ast.Ident:
		if b, ok := w.sc.lookup(f.Name); ok {
			if b.lit != nil { // local closure: analyse its body again at this call
				w.runLit(b.lit, mode, b.sc)
			} else {
				w.n.notes = append(w.n.notes, fmt.Sprintf("%s: call through the function value %s: not followed", w.p.pos(c.Pos()), f.Name))
			}
			return
		}
		if d := w.p.funcs[f.Name]; d != nil && d.Recv == nil {
			w.record(c.Pos(), []*ast.FuncDecl{d}, c, async, false)
		}
	case *ast.SelectorExpr:
		if w.isImport(f.X) {
			return
		}
		if id, ok := f.X.(*ast.Ident); ok && w.p.types[id.Name] != nil {
			if _, local := w.sc.lookup(id.Name); !local { // method expression T.m(recv, ...)
				w.record(c.Pos(), w.p.lookup(id.Name, f.Sel.Name), nil, async, false)
				return
			}
		}
		ds := w.methodCallees(f.X, f.Sel.Name)
		if t := w.typeOf(f.X); t == nil {
			w.n.notes = append(w.n.notes, fmt.Sprintf("%s: .%s on a receiver of unknown type: union of %d in-package methods", w.p.pos(c.Pos()), f.Sel.Name, len(ds)))
		} else if len(ds) == 0 {
			w.n.notes = append(w.n.notes, fmt.Sprintf("%s: .%s on a receiver of type %s: not followed", w.p.pos(c.Pos()), f.Sel.Name, w.p.typeString(t, w.file)))
		}
		w.record(c.Pos(), ds, c, async, false)
	}
}

// record stores a call (or value use) of in-package functions, choosing the bool
// specialisation from literal arguments.
func (w *walker) record(pos token.Pos, ds []*ast.FuncDecl, c *ast.CallExpr, async, value bool) {
	if len(ds) == 0 {
		return
	}
	var ts []*node
	for _, d := range ds {
		env := map[string]bool{}
		if c != nil && !c.Ellipsis.IsValid() {
			for _, i := range w.p.specParams(d) {
				if i >= len(c.Args) {
					continue
				}
				if id, ok := unparen(c.Args[i]).(*ast.Ident); ok && (id.Name == "true" || id.Name == "false") {
					if _, shadowed := w.sc.lookup(id.Name); !shadowed && !w.p.pkgNames[id.Name] {
						env[paramName(d, i)] = id.Name == "true"
					}
				}
			}
		}
		ts = append(ts, w.p.node(d, env))
	}
	w.emit(event{kind: evCall, pos: pos, targets: ts, value: value}, async)
}
