module lockscan

go 1.23
