package main

// Loading of one package directory (overlay, build constraints), its declarations,
// and the declaration-level part of the syntactic type inference.

import (
	"fmt"
	"go/ast"
	"go/build/constraint"
	"go/parser"
	"go/token"
	"os"
	"path/filepath"
	"regexp"
	"sort"
	"strings"
)

type pkg struct {
	name, dir string
	fset      *token.FileSet
	files     []*ast.File
	imports   map[*ast.File]map[string]string // import name -> import path

	types      map[string]*ast.TypeSpec
	typeFile   map[string]*ast.File
	funcs      map[string]*ast.FuncDecl // "f" or "T.m"
	declFile   map[*ast.FuncDecl]*ast.File
	decls      []*ast.FuncDecl            // all functions with a body, in source order
	byName     map[string][]*ast.FuncDecl // methods by method name
	pkgVars    map[string]*ast.ValueSpec
	pkgNames   set                 // every package-level identifier
	locks      map[string]string   // "T.f" or package variable -> "mutex" | "cond"
	trackedSet set                 // "T.f"
	owners     map[string][]string // field name -> structs declaring it
	implCache  map[string][]string
	specCache  map[*ast.FuncDecl][]int
	varBusy    set

	nodes  map[string]*node
	order  []*node
	edges  map[[2]string][]string // edge -> sites
	guards map[string]*guard
	errors []string

	lenient bool // scanned for Atomicity.v only: goto, fallthrough and local mutexes are followed
}

// default build configuration
var knownOS = set{"aix": true, "android": true, "darwin": true, "dragonfly": true, "freebsd": true, "hurd": true, "illumos": true, "ios": true, "js": true, "linux": true, "nacl": true, "netbsd": true, "openbsd": true, "plan9": true, "solaris": true, "wasip1": true, "windows": true, "zos": true}
var knownArch = set{"386": true, "amd64": true, "arm": true, "arm64": true, "loong64": true, "mips": true, "mips64": true, "mips64le": true, "mipsle": true, "ppc64": true, "ppc64le": true, "riscv64": true, "s390x": true, "wasm": true}
var goVersionTag = regexp.MustCompile(`^go1\.([0-9]+)$`)

func tagOK(tag string) bool {
	switch tag {
	case "linux", "amd64", "gc", "unix":
		return true
	}
	if m := goVersionTag.FindStringSubmatch(tag); m != nil {
		var n int
		fmt.Sscan(m[1], &n)
		return n >= 1 && n <= 24
	}
	return false
}

func fileNameOK(name string) bool {
	parts := strings.Split(strings.TrimSuffix(name, ".go"), "_")
	if n := len(parts); n >= 2 && knownArch[parts[n-1]] {
		if parts[n-1] != "amd64" {
			return false
		}
		parts = parts[:n-1]
	}
	if n := len(parts); n >= 2 && knownOS[parts[n-1]] && parts[n-1] != "linux" {
		return false
	}
	return true
}

func constraintsOK(f *ast.File) bool {
	var goBuild constraint.Expr
	var plus []constraint.Expr
	for _, cg := range f.Comments {
		if cg.Pos() >= f.Package {
			break
		}
		for _, c := range cg.List {
			if constraint.IsGoBuild(c.Text) {
				if x, err := constraint.Parse(c.Text); err == nil {
					goBuild = x
				}
			} else if constraint.IsPlusBuild(c.Text) {
				if x, err := constraint.Parse(c.Text); err == nil {
					plus = append(plus, x)
				}
			}
		}
	}
	if goBuild != nil {
		return goBuild.Eval(tagOK)
	}
	for _, x := range plus {
		if !x.Eval(tagOK) {
			return false
		}
	}
	return true
}

func importName(is *ast.ImportSpec) string {
	if is.Name != nil {
		return is.Name.Name
	}
	path := strings.Trim(is.Path.Value, "`\"")
	elems := strings.Split(path, "/")
	base := elems[len(elems)-1]
	if regexp.MustCompile(`^v[0-9]+$`).MatchString(base) && len(elems) > 1 {
		base = elems[len(elems)-2]
	}
	base = strings.TrimSuffix(strings.TrimPrefix(base, "go-"), ".go")
	if i := strings.Index(base, "."); i > 0 {
		base = base[:i]
	}
	return strings.ReplaceAll(base, "-", "_")
}

func loadPkg(dir string, overlay map[string]string, lenient bool) (*pkg, error) {
	dir, err := filepath.Abs(dir)
	if err != nil {
		return nil, err
	}
	entries, err := os.ReadDir(dir)
	if err != nil {
		return nil, err
	}
	isSrc := func(n string) bool { return strings.HasSuffix(n, ".go") && !strings.HasSuffix(n, "_test.go") }
	names := set{}
	for _, e := range entries {
		if !e.IsDir() && isSrc(e.Name()) {
			names[e.Name()] = true
		}
	}
	for k := range overlay { // files added by the overlay
		if filepath.Dir(k) == dir && isSrc(filepath.Base(k)) {
			names[filepath.Base(k)] = true
		}
	}
	p := &pkg{name: filepath.Base(dir), dir: dir, fset: token.NewFileSet(), lenient: lenient,
		imports: map[*ast.File]map[string]string{}, types: map[string]*ast.TypeSpec{}, typeFile: map[string]*ast.File{},
		funcs: map[string]*ast.FuncDecl{}, declFile: map[*ast.FuncDecl]*ast.File{}, byName: map[string][]*ast.FuncDecl{},
		pkgVars: map[string]*ast.ValueSpec{}, pkgNames: set{}, locks: map[string]string{}, trackedSet: set{},
		owners: map[string][]string{}, implCache: map[string][]string{}, specCache: map[*ast.FuncDecl][]int{}, varBusy: set{},
		nodes: map[string]*node{}, edges: map[[2]string][]string{}, guards: map[string]*guard{}}
	for _, t := range tracked[p.name] {
		p.trackedSet[t] = true
	}
	for _, n := range names.list() {
		path := filepath.Join(dir, n)
		src := path
		if r, ok := overlay[path]; ok {
			if r == "" { // deleted by the overlay
				continue
			}
			src = r
		}
		data, err := os.ReadFile(src)
		if err != nil {
			return nil, err
		}
		f, err := parser.ParseFile(p.fset, path, data, parser.ParseComments)
		if err != nil {
			return nil, err
		}
		if !fileNameOK(n) || !constraintsOK(f) {
			continue
		}
		p.files = append(p.files, f)
	}
	if len(p.files) == 0 {
		return nil, fmt.Errorf("%s: no buildable Go source files", dir)
	}
	p.collect()
	return p, nil
}

func (p *pkg) pos(x token.Pos) string {
	ps := p.fset.Position(x)
	return fmt.Sprintf("%s:%d", filepath.Base(ps.Filename), ps.Line)
}

func (p *pkg) errf(x token.Pos, fn, format string, a ...interface{}) {
	p.errors = append(p.errors, fmt.Sprintf("%s: %s: ", p.pos(x), fn)+fmt.Sprintf(format, a...))
}

func unparen(e ast.Expr) ast.Expr {
	for {
		pe, ok := e.(*ast.ParenExpr)
		if !ok {
			return e
		}
		e = pe.X
	}
}

// baseTypeName: T for T, *T, T[K], pkg.T (last element).
func baseTypeName(t ast.Expr) string {
	switch x := unparen(t).(type) {
	case *ast.Ident:
		return x.Name
	case *ast.StarExpr:
		return baseTypeName(x.X)
	case *ast.SelectorExpr:
		return x.Sel.Name
	case *ast.IndexExpr:
		return baseTypeName(x.X)
	case *ast.IndexListExpr:
		return baseTypeName(x.X)
	}
	return ""
}

func funcName(d *ast.FuncDecl) string {
	if d.Recv != nil && len(d.Recv.List) == 1 {
		return baseTypeName(d.Recv.List[0].Type) + "." + d.Name.Name
	}
	return d.Name.Name
}

// syncKind classifies a field/variable type written in file f: "mutex", "cond" or "".
func (p *pkg) syncKind(t ast.Expr, f *ast.File) string {
	t = unparen(t)
	if s, ok := t.(*ast.StarExpr); ok {
		t = unparen(s.X)
	}
	sel, ok := t.(*ast.SelectorExpr)
	if !ok {
		return ""
	}
	if id, ok := sel.X.(*ast.Ident); !ok || p.imports[f][id.Name] != "sync" {
		return ""
	}
	switch sel.Sel.Name {
	case "Mutex", "RWMutex":
		return "mutex"
	case "Cond":
		return "cond"
	}
	return ""
}

func (p *pkg) collect() {
	for _, f := range p.files {
		if f.Name.Name != p.files[0].Name.Name {
			p.errf(f.Package, "package", "package clause %q differs from %q", f.Name.Name, p.files[0].Name.Name)
		}
		imp := map[string]string{}
		for _, is := range f.Imports {
			n := importName(is)
			if n == "." {
				p.errf(is.Pos(), "import", "dot import is not supported")
			}
			imp[n] = strings.Trim(is.Path.Value, "`\"")
		}
		p.imports[f] = imp
		var inits []ast.Stmt // package-level initialisers are analysed as one pseudo function per file
		for _, d := range f.Decls {
			switch d := d.(type) {
			case *ast.FuncDecl:
				name := funcName(d)
				if d.Recv == nil {
					p.pkgNames[name] = true
				}
				if d.Body == nil {
					continue
				}
				if d.Name.Name == "init" || d.Name.Name == "_" || p.funcs[name] != nil {
					d = &ast.FuncDecl{Doc: d.Doc, Recv: d.Recv, Name: ast.NewIdent(d.Name.Name + "@" + p.pos(d.Pos())), Type: d.Type, Body: d.Body}
					name = funcName(d)
				}
				p.funcs[name] = d
				p.declFile[d] = f
				p.decls = append(p.decls, d)
				if d.Recv != nil {
					p.byName[d.Name.Name] = append(p.byName[d.Name.Name], d)
				}
			case *ast.GenDecl:
				for _, s := range d.Specs {
					switch s := s.(type) {
					case *ast.TypeSpec:
						p.types[s.Name.Name], p.typeFile[s.Name.Name] = s, f
						p.pkgNames[s.Name.Name] = true
					case *ast.ValueSpec:
						for _, n := range s.Names {
							p.pkgNames[n.Name] = true
							if d.Tok == token.VAR {
								p.pkgVars[n.Name] = s
								k := ""
								if s.Type != nil {
									k = p.syncKind(s.Type, f)
								} else if len(s.Values) == len(s.Names) {
									for i, v := range s.Values {
										if cl, ok := unparen(v).(*ast.CompositeLit); ok && s.Names[i] == n && cl.Type != nil {
											k = p.syncKind(cl.Type, f)
										}
									}
								}
								if k != "" {
									p.locks[n.Name] = k
								}
							}
						}
						for _, v := range s.Values {
							inits = append(inits, &ast.ExprStmt{X: v})
						}
					}
				}
			}
		}
		if len(inits) > 0 {
			d := &ast.FuncDecl{Name: ast.NewIdent("<package-vars " + filepath.Base(p.fset.Position(f.Pos()).Filename) + ">"),
				Type: &ast.FuncType{Params: &ast.FieldList{}}, Body: &ast.BlockStmt{List: inits, Lbrace: inits[0].Pos(), Rbrace: inits[len(inits)-1].End()}}
			p.funcs[d.Name.Name], p.declFile[d] = d, f
			p.decls = append(p.decls, d)
		}
	}
	tnames := make([]string, 0, len(p.types))
	for n := range p.types {
		tnames = append(tnames, n)
	}
	sort.Strings(tnames)
	for _, tn := range tnames {
		st, ok := p.types[tn].Type.(*ast.StructType)
		if !ok {
			continue
		}
		for _, fl := range st.Fields.List {
			k := p.syncKind(fl.Type, p.typeFile[tn])
			names := []string{baseTypeName(fl.Type)} // embedded field
			if len(fl.Names) > 0 {
				names = names[:0]
				for _, n := range fl.Names {
					names = append(names, n.Name)
				}
			}
			for _, n := range names {
				p.owners[n] = append(p.owners[n], tn)
				if k != "" {
					p.locks[tn+"."+n] = k
				}
			}
		}
	}
	for t := range p.trackedSet {
		if i := strings.Index(t, "."); i < 0 || !contains(p.owners[t[i+1:]], t[:i]) {
			p.errf(p.files[0].Package, "package", "tracked variable %s is not a struct field of package %s", t, p.name)
		}
	}
}

func contains(ss []string, s string) bool {
	for _, x := range ss {
		if x == s {
			return true
		}
	}
	return false
}

func (p *pkg) mutexNames() []string {
	var r []string
	for n, k := range p.locks {
		if k == "cond" {
			n += ".L"
		}
		r = append(r, n)
	}
	sort.Strings(r)
	return r
}

// specParams: indices of bool parameters of d that are never written, shadowed or
// address-taken and are tested by "if p" / "if !p".
func (p *pkg) specParams(d *ast.FuncDecl) []int {
	if r, ok := p.specCache[d]; ok {
		return r
	}
	var names []string
	for _, fl := range d.Type.Params.List {
		id, _ := fl.Type.(*ast.Ident)
		for _, n := range fl.Names {
			if id != nil && id.Name == "bool" && n.Name != "_" {
				names = append(names, n.Name)
			} else {
				names = append(names, "")
			}
		}
		if len(fl.Names) == 0 {
			names = append(names, "")
		}
	}
	tested, spoiled := set{}, set{}
	spoil := func(e ast.Expr) {
		if id, ok := unparen(e).(*ast.Ident); ok {
			spoiled[id.Name] = true
		}
	}
	ast.Inspect(d.Body, func(n ast.Node) bool {
		switch x := n.(type) {
		case *ast.IfStmt:
			c := unparen(x.Cond)
			if u, ok := c.(*ast.UnaryExpr); ok && u.Op == token.NOT {
				c = unparen(u.X)
			}
			if id, ok := c.(*ast.Ident); ok {
				tested[id.Name] = true
			}
		case *ast.AssignStmt:
			for _, l := range x.Lhs {
				spoil(l)
			}
		case *ast.IncDecStmt:
			spoil(x.X)
		case *ast.UnaryExpr:
			if x.Op == token.AND {
				spoil(x.X)
			}
		case *ast.RangeStmt:
			if x.Key != nil {
				spoil(x.Key)
			}
			if x.Value != nil {
				spoil(x.Value)
			}
		case *ast.ValueSpec:
			for _, n := range x.Names {
				spoiled[n.Name] = true
			}
		case *ast.TypeSpec:
			spoiled[x.Name.Name] = true
		case *ast.FuncLit:
			for _, fl := range append(append([]*ast.Field{}, x.Type.Params.List...), resultFields(x.Type)...) {
				for _, n := range fl.Names {
					spoiled[n.Name] = true
				}
			}
		}
		return true
	})
	var r []int
	for i, n := range names {
		if n != "" && tested[n] && !spoiled[n] {
			r = append(r, i)
		}
	}
	p.specCache[d] = r
	return r
}

func resultFields(ft *ast.FuncType) []*ast.Field {
	if ft.Results == nil {
		return nil
	}
	return ft.Results.List
}

// paramName returns the name of the i-th parameter of d.
func paramName(d *ast.FuncDecl, i int) string {
	k := 0
	for _, fl := range d.Type.Params.List {
		if len(fl.Names) == 0 {
			k++
			continue
		}
		for _, n := range fl.Names {
			if k == i {
				return n.Name
			}
			k++
		}
	}
	return ""
}
