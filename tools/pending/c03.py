"""C03 - session-pair lock-step check (see muxlib.py and coq/Model/Mux.v)."""
import muxlib, vlib

PROP_FILES = ['Properties/C03']
EXTRACT_FILES = ['Extract/Mux']
PROFILES = ['close', 'close', 'close', 'mixed']
N_QUICK, N_THOROUGH = 300, 4000
RULE = 'seeded lock-step scenarios with stream closes by either side (closing notice overtaking or trailing data on other connections, zero bytes before close, both sides closing, reads blocked across the close), 1..8 connections, singleplex; distinct = distinct concrete label sequences'
ORACLE = muxlib.oracle_c03
TRUSTED = ['Coq 8.16.1 kernel incl. vm_compute (no native_compute)', 'hand-written model coq/Model/Mux.v of Session/Stream/switchboard at the granularity "one harness label runs to quiescence"; re-sequencer = coq/Model/Reorder.v', 'frames are abstract (decoded) in this model: codec and record framing are the subject of C04/C05', 'correspondence: lock-step driver harness/multiplex/mux_test.go on two real Sessions over harness-owned in-memory connections under testing/synctest (virtual clock, quiescence barrier) vs extracted OCaml model (ExtrOcamlBasic only); connection picks of pickRandConn are read off the wire tap and fed to the model', 'goroutine interleavings INSIDE a label (e.g. preemption inside a critical section) are not enumerated: covered by the fine-grained sender LTS (C13), the race detector runs and the schedule-point hooks']
ASSUMPTIONS = ['connections are FIFO, deliver whole messages (C05) and a reset/EOF is seen by both ends', 'sequence numbers stay below 2^64-1, fewer than 2^32 streams per session']


def scenarios(ctx):
    rng = ctx.rng
    n = N_QUICK if ctx.quick() else N_THOROUGH
    scns = []
    for i in range(n):
        scns.append(muxlib.gen_scenario(rng, 's%d' % i, rng.choice(PROFILES)))
    return scns


def correspondence(ctx, verdict, pr):
    verdict.cov['rule'] = RULE
    return muxlib.check(ctx, verdict, 'C03', scenarios(ctx), ORACLE)


def replay(ctx, verdict):
    return muxlib.replay_scenario(ctx, verdict, 'C03', ORACLE)
