#!/usr/bin/env python3
"""Re-run our checks against every stored seeded change (seeded/C??_m?): apply the patch to /repo with
git apply, run the quick check of its property (plus the extra ids given in EXTRA), undo with
git checkout -- . ; record the outcome as meta.json["final_evaluation"].  Sequential: /repo is patched.
Usage: tools/finaleval.py [ids...]   (default: all)"""
import sys, os, json, glob, subprocess, time
sys.path.insert(0, os.path.dirname(os.path.abspath(__file__)))
import vlib
V = '/verif'
EXTRA = {'C10_m2': ['C07', 'C09'], 'C17_m2': ['C19'], 'C19_m2': ['C17'], 'C01_r2m2': ['C12'], 'C06_r2m1': ['C15'], 'C15_r2m1': ['C17', 'C19']}

def sh(cmd, cwd=None, timeout=3000):
    p = subprocess.run(cmd, shell=True, cwd=cwd, env=vlib.goenv(), stdout=subprocess.PIPE, stderr=subprocess.STDOUT, text=True, timeout=timeout)
    return p.returncode, p.stdout

def main():
    ids = sys.argv[1:] or [os.path.basename(d) for d in sorted(glob.glob(V + '/seeded/C??_m?') + glob.glob(V + '/seeded/C??_r2m?'))]
    rc, o = sh('git -C /repo status --short')
    if o.strip():
        print('refusing: /repo is not clean:\n' + o); sys.exit(2)
    for sid in ids:
        d = '%s/seeded/%s' % (V, sid)
        meta = json.load(open(d + '/meta.json'))
        pid = sid.split('_')[0]
        rc, o = sh('git -C /repo apply %s/patch.diff' % d)
        if rc != 0:
            print(sid, 'patch does not apply', o[:200]); continue
        res = {}
        try:
            for c in [pid] + EXTRA.get(sid, []):
                t0 = time.time()
                rc, o = sh('python3 tools/check.py %s --tier quick' % c, cwd=V)
                lines = [l for l in o.splitlines() if l.startswith('VIOLATION') or l.startswith('# ')]
                res[c] = dict(rc=rc, seconds=round(time.time() - t0), lines=[l[:300] for l in lines[:6]])
        finally:
            sh('git -C /repo checkout -- .')
        caught = [c for c, v in res.items() if v['rc'] == 1 and any(l.startswith('VIOLATION') for l in v['lines'])]
        concrete = [c for c in caught if any(l.startswith('VIOLATION') and 'no-failing-input-found' not in l for l in res[c]['lines'])]
        how = ''
        for c in caught:
            hl = [l for l in res[c]['lines'] if l.startswith('# ')]
            if hl:
                how = hl[0][2:]; break
        meta['final_evaluation'] = dict(checks=res, caught_by=caught, with_concrete_failing_input=concrete, how=how,
                                        repo_head=sh('git -C /repo rev-parse --short HEAD')[1].strip(),
                                        verif_head=sh('git -C /verif rev-parse --short HEAD')[1].strip())
        json.dump(meta, open(d + '/meta.json', 'w'), indent=1)
        print(sid, 'caught_by', caught, 'concrete', concrete, '|', how[:140], flush=True)
    rc, o = sh('git -C /repo status --short')
    print('repo clean' if not o.strip() else 'REPO NOT CLEAN:\n' + o)
    # the evidence files now describe runs against changed code: put the committed (clean-tree) ones back
    sh('git -C /verif checkout -- evidence')

if __name__ == '__main__':
    main()
