#!/usr/bin/env python3
"""Round 4: copy the confirmed seeded changes from /tmp/seed4_out into /verif/seeded/<Cxx>_r4m<i>/ with the
results of the first evaluation (_build/seedeval4/<id>.json: checks as they stood when the round started) and,
where the change was missed then, of the re-evaluation after the checks were strengthened (<id>.final.json)."""
import json, os, glob, shutil
V = '/verif'
for ev in sorted(glob.glob(V + '/_build/seedeval4/C??_r4m?.json')):
    name = os.path.basename(ev)[:-5]
    e = json.load(open(ev))
    if not e.get('confirmed'):
        print('not confirmed:', name); continue
    pid, m = name.split('_r4')
    d = '/tmp/seed4_out/%s/%s' % (pid, m)
    out = '%s/seeded/%s' % (V, name)
    os.makedirs(out, exist_ok=True)
    shutil.copy(d + '/patch.diff', out + '/patch.diff')
    for f in glob.glob(d + '/*_test.go'):
        shutil.copy(f, out + '/' + os.path.basename(f))
    meta = json.load(open(d + '/meta.json'))
    meta['id'] = name; meta['round'] = 4
    meta['confirmed_here'] = dict(
        how='tools/evalseed.py --overlay: scratch worktree of /repo HEAD + patch; go build ./...; full suite compared with the pinned baseline; demonstration run with the change (must fail) and after git apply -R (must pass); our checks run through an overlay of the changed files; worktree removed',
        patch_applies=e.get('patch_applies'), builds=e.get('builds'), suite_not_passing=e.get('suite_not_passing'),
        demo_with_change_rc=e.get('demo_with_mutant_rc'), demo_without_rc=e.get('demo_without_rc'))
    meta['first_evaluation'] = dict(checks={k: v['rc'] for k, v in e.get('checks', {}).items()}, caught_by=e.get('caught_by'),
                                    lines={k: v['lines'][:3] for k, v in e.get('checks', {}).items()})
    fin = e
    fp = ev[:-5] + '.final.json'
    if os.path.exists(fp):
        fin = json.load(open(fp))
    lines = [l for v in fin.get('checks', {}).values() for l in v['lines'] if l.startswith('# ')]
    meta['final_evaluation'] = dict(checks=fin.get('checks'), caught_by=fin.get('caught_by'), how=(lines[0][2:] if lines else ''),
                                    re_run_after_strengthening=os.path.exists(fp))
    json.dump(meta, open(out + '/meta.json', 'w'), indent=1)
    print(name, 'first:', e.get('caught_by'), 'now:', fin.get('caught_by'))
