#!/usr/bin/env python3
"""Which statements of /repo do the quick-tier drivers reach?  Runs the given checks (default: all) with Go
coverage instrumentation, merges the profiles and lists, per source file, the statement blocks never
executed.  Not a verification step: a generator-quality measurement (an unreached branch is a place where a
change cannot be noticed by the correspondence).  Usage: tools/coverage.py [Cxx ...]"""
import sys, os, json, subprocess, shutil, re, glob, collections
V = '/verif'
sys.path.insert(0, V + '/tools')
import vlib

def main():
    ids = sys.argv[1:] or [c['property_id'] for c in json.load(open(V + '/MANIFEST.json'))['checks']]
    cov = V + '/_build/cover'
    shutil.rmtree(cov, ignore_errors=True)
    os.makedirs(cov + '/raw')
    env = dict(os.environ, VERIF_COVER=cov)
    for i in ids:
        p = subprocess.run(['python3', 'tools/check.py', i, '--tier', 'quick'], cwd=V, env=env, stdout=subprocess.PIPE, stderr=subprocess.STDOUT, text=True)
        print(i, 'rc', p.returncode, flush=True)
    # counters flushed by drivers that leave through syscall.Exit
    if os.listdir(cov + '/raw'):
        subprocess.run(['go', 'tool', 'covdata', 'textfmt', '-i=' + cov + '/raw', '-o=' + cov + '/raw.out'], cwd='/repo', env=vlib.goenv())
    hit = collections.defaultdict(int)
    for f in glob.glob(cov + '/*.out'):
        for ln in open(f):
            m = re.match(r'(\S+):(\d+)\.(\d+),(\d+)\.(\d+) (\d+) (\d+)$', ln.strip())
            if m:
                key = (m.group(1), int(m.group(2)), int(m.group(4)), int(m.group(6)))
                hit[key] += int(m.group(7))
    byfile = collections.defaultdict(list)
    for (f, a, b, n), c in hit.items():
        byfile[f].append((a, b, n, c))
    rep = []
    for f in sorted(byfile):
        if '_test.go' in f or 'zz_verif' in f or '/internal/test' in f:
            continue
        blocks = byfile[f]
        tot = sum(n for _, _, n, _ in blocks); cv = sum(n for _, _, n, c in blocks if c > 0)
        un = sorted((a, b) for a, b, n, c in blocks if c == 0)
        rep.append('%-70s %4d/%4d statements reached; unreached lines: %s' % (f.replace('github.com/cbeuw/Cloak/', ''), cv, tot,
                   ' '.join('%d-%d' % (a, b) if a != b else str(a) for a, b in un)))
    open(cov + '/report.txt', 'w').write('\n'.join(rep) + '\n')
    print('\n'.join(rep))

if __name__ == '__main__':
    main()
