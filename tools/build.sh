#!/bin/bash
# Full (incremental) build of the Coq development + extraction + OCaml drivers.
# Serialised by a lock so that concurrently started checks share one build.
set -u
V=/verif
mkdir -p $V/_build $V/ocaml/gen $V/ocaml/bin
exec 9>$V/_build/lock
flock 9
cd $V/coq
# _CoqProject is derived from the files present (order does not matter to coq_makefile)
{
  echo "-Q . Cloak"
  echo "-arg -w -arg -notation-overridden,-deprecated-hint-without-locality,-deprecated-instance-without-locality"
  find Gen Model Proofs Properties Extract -name '*.v' | sort
} > _CoqProject.new
if ! cmp -s _CoqProject.new _CoqProject 2>/dev/null; then
  mv _CoqProject.new _CoqProject
  coq_makefile -f _CoqProject -o Makefile >/dev/null 2>$V/_build/coq_makefile.err || { cat $V/_build/coq_makefile.err; exit 3; }
else
  rm -f _CoqProject.new
fi
[ -f Makefile ] || coq_makefile -f _CoqProject -o Makefile >/dev/null
# optional arguments: the .vo targets to build (default: everything)
LOG=$V/_build/make.log
if [ $# -gt 0 ]; then LOG=$V/_build/make.$$.log; fi
# every single file is capped (time and memory) so that one runaway proof cannot hold the lock
ulimit -v ${VERIF_COQC_MEM_KB:-16000000}
timeout ${VERIF_MAKE_TIMEOUT:-3000} make -k -j${VERIF_JOBS:-16} COQC="timeout ${VERIF_COQC_TIMEOUT:-600} coqc" "$@" > $LOG 2>&1
rc=$?
echo "make rc=$rc" >> $LOG
if [ $# -gt 0 ]; then cp $LOG $V/_build/make.last.log; [ -n "${VERIF_BUILD_LOG:-}" ] && cp $LOG "$VERIF_BUILD_LOG"; rm -f $LOG; fi
# OCaml drivers: one per extracted module ocaml/gen/<name>.ml with ocaml/<name>_driver.ml
cd $V/ocaml
for drv in *_driver.ml; do
  [ -f "$drv" ] || continue
  name=${drv%_driver.ml}
  if [ -f gen/$name.ml ]; then
    if [ ! -x bin/$name ] || [ gen/$name.ml -nt bin/$name ] || [ $drv -nt bin/$name ] || [ common.ml -nt bin/$name ]; then
      rm -rf $V/_build/ocaml_$name && mkdir -p $V/_build/ocaml_$name
      cp gen/$name.ml gen/$name.mli $V/_build/ocaml_$name/
      Mod="$(echo ${name:0:1} | tr a-z A-Z)${name:1}"
      { echo "open $Mod"; cat common.ml $drv; } > $V/_build/ocaml_$name/main_$name.ml
      ( cd $V/_build/ocaml_$name && ocamlfind ocamlopt -O3 -w -a -package str $name.mli $name.ml main_$name.ml -linkpkg -o $V/ocaml/bin/$name ) > $V/_build/ocaml_$name.log 2>&1 \
        || { echo "ocaml build of $name failed" >> $V/_build/make.log; cat $V/_build/ocaml_$name.log >> $V/_build/make.log; rm -f $V/ocaml/bin/$name; rc=4; }
    fi
  fi
done
exit $rc
