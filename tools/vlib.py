"""Shared machinery of the Cloak verification checks (see DESIGN.md section 2, 9).

One check = (1) regenerate the generated Coq files from /repo and rebuild the Coq
development (full .vo build, make -k), (2) re-check the property file and parse its
Print Assumptions output, grep the development for forbidden declarations, (3) run the
correspondence: the same cases through the real code (Go driver injected with
`go test -overlay`, built from /repo's working tree with -tags verif) and through the
extracted model, compare projected observables, (4) run the model-independent property
oracle on what the implementation did, (5) decide, write evidence.
"""
import json, os, re, subprocess, sys, time, random, hashlib, shutil, fcntl

V = '/verif'
REPO = '/repo'
BUILD = V + '/_build'
COQ = V + '/coq'
os.makedirs(BUILD, exist_ok=True)

FORBIDDEN = re.compile(
    r'\b(Admitted|admit|Axiom|Axioms|Parameter|Parameters|Conjecture|Conjectures|'
    r'Unset\s+Guard\s+Checking|Unset\s+Positivity\s+Checking|Unset\s+Universe\s+Checking|'
    r'bypass_check|Admit\s+Obligations|native_compute|type-in-type|impredicative-set)\b')


def goenv():
    e = dict(os.environ)
    e['GOFLAGS'] = '-mod=mod'
    e['GOPROXY'] = 'off'
    e.pop('GOTOOLCHAIN', None)
    e.pop('GOSUMDB', None)
    e['GOCACHE'] = e.get('GOCACHE', os.path.expanduser('~/.cache/go-build'))
    return e


def sh(cmd, cwd=None, env=None, timeout=None, input=None):
    t0 = time.time()
    try:
        p = subprocess.run(cmd, shell=isinstance(cmd, str), cwd=cwd, env=env, timeout=timeout,
                           input=input, stdout=subprocess.PIPE, stderr=subprocess.STDOUT, text=True)
        return p.returncode, p.stdout, time.time() - t0
    except subprocess.TimeoutExpired as ex:
        out = ex.stdout or ''
        if isinstance(out, bytes):
            out = out.decode('utf-8', 'replace')
        return 124, out + '\n[timeout after %ss]' % timeout, time.time() - t0


class Ctx:
    def __init__(self, pid, tier, seed):
        self.pid = pid
        self.tier = tier
        self.seed = seed
        self.rng = random.Random(seed * 1000003 + int(hashlib.sha1(pid.encode()).hexdigest()[:6], 16))
        self.t0 = time.time()
        # one scratch directory per running check (several checks of the same property may run at once);
        # directories of processes that no longer exist are removed
        wroot = '%s/work' % BUILD
        os.makedirs(wroot, exist_ok=True)
        for d in os.listdir(wroot):
            if d == pid or d.startswith(pid + '.'):
                owner = d.split('.')[-1] if '.' in d else ''
                if not (owner.isdigit() and os.path.exists('/proc/' + owner)):
                    shutil.rmtree(os.path.join(wroot, d), ignore_errors=True)
        self.work = '%s/%s.%d' % (wroot, pid, os.getpid())
        shutil.rmtree(self.work, ignore_errors=True)
        os.makedirs(self.work, exist_ok=True)
        self.replays = V + '/replays'
        os.makedirs(self.replays, exist_ok=True)
        self.notes = []

    def quick(self):
        return self.tier != 'thorough'


# ----------------------------------------------------------------------------------------
# build
_build_result = None


def ensure_build(targets=None):
    """Regenerate coq/Gen/*.v from /repo, then make (only the given .vo targets and what they
    depend on, when given).  Returns dict(rc, log)."""
    global _build_result
    if _build_result is not None:
        return _build_result
    gen_rc, gen_log = 0, ''
    gen = V + '/tools/gen_all.py'
    if os.path.exists(gen):
        gen_rc, gen_log, _ = sh([sys.executable, gen], cwd=V, env=goenv(), timeout=900)
    logp = '%s/make.%d.check.log' % (BUILD, os.getpid())
    e = dict(os.environ); e['VERIF_BUILD_LOG'] = logp
    rc, out, dt = sh([V + '/tools/build.sh'] + [t + '.vo' for t in (targets or [])], cwd=V, timeout=3600, env=e)
    log = ''
    try:
        log = open(logp if targets else BUILD + '/make.log').read()
        if targets:
            os.remove(logp)
    except OSError:
        pass
    _build_result = dict(rc=rc, log=log, gen_rc=gen_rc, gen_log=gen_log, wall=dt)
    return _build_result


def vo_fresh(rel):
    """Is coq/<rel>.vo up to date w.r.t. its sources (make -q)?"""
    lock = open(BUILD + '/lock', 'w')
    fcntl.flock(lock, fcntl.LOCK_EX)
    try:
        rc, out, _ = sh(['make', '-q', rel + '.vo'], cwd=COQ, timeout=300)
    finally:
        fcntl.flock(lock, fcntl.LOCK_UN)
    return rc == 0 and os.path.exists('%s/%s.vo' % (COQ, rel))


def coq_errors_for(log, rel):
    """Extract the coqc error text for a given .v from the make log."""
    m = re.search(r'File "\./%s\.v".*?(?=\nmake|\nCOQC|\Z)' % re.escape(rel), log, re.S)
    return m.group(0)[:3000] if m else ''


def failed_files(log):
    return sorted(set(re.findall(r'\*\*\* \[Makefile:\d+: (\S+)\.vo\] Error', log)))


def check_proofs(ctx, prop_files, extra_obligation_files=(), extract_files=()):
    """Re-check the property files.  Returns dict with obligations, discharged, axioms,
    broken (list of (file, error))."""
    b = ensure_build(list(prop_files) + list(extra_obligation_files) + list(extract_files))
    res = dict(obligations=0, discharged=0, axioms=[], broken=[], theorems=[], closed=0,
               checker_cmd='coq_makefile -f _CoqProject -o Makefile && make -k -j16 (full .vo build, Coq 8.16.1) ; '
                           'coqc -Q . Cloak Properties/<id>.v (Print Assumptions parsed)')
    if b['gen_rc'] != 0:
        res['broken'].append(('tools/gen_all.py', b['gen_log'][-3000:]))
    for rel in list(prop_files) + list(extra_obligation_files):
        src = open('%s/%s.v' % (COQ, rel)).read()
        thms = re.findall(r'^\s*(?:Theorem|Lemma|Corollary|Example)\s+(\w+)', src, re.M)
        res['obligations'] += len(thms)
        if not vo_fresh(rel):
            err = coq_errors_for(b['log'], rel)
            if not err:
                # a dependency failed: name it
                ff = failed_files(b['log'])
                err = 'dependency failed to compile: ' + ', '.join(ff) + '\n' + \
                      '\n'.join(coq_errors_for(b['log'], f) for f in ff)[:3000]
            res['broken'].append((rel + '.v', err))
            continue
        if rel in prop_files:
            od = '%s/props/%d' % (BUILD, os.getpid())
            os.makedirs(od, exist_ok=True)
            outvo = '%s/%s.vo' % (od, os.path.basename(rel))
            rc, out, _ = sh(['coqc', '-Q', '.', 'Cloak', '-o', outvo, rel + '.v'], cwd=COQ, timeout=1200)
            for f in (outvo, outvo[:-3] + '.glob'):
                try:
                    os.remove(f)
                except OSError:
                    pass
            if rc != 0:
                res['broken'].append((rel + '.v', out[-3000:]))
                continue
            closed = out.count('Closed under the global context')
            res['closed'] += closed
            for blk in re.findall(r'Axioms:\n((?:.+\n?)+?)(?=\n\S|\Z)', out):
                for ln in blk.splitlines():
                    m = re.match(r'^(\S+)\s*:', ln)
                    if m and m.group(1) not in res['axioms']:
                        res['axioms'].append(m.group(1))
            # section-variable assumptions are printed under "Section Variables:"
        res['discharged'] += len(thms)
        res['theorems'] += thms
    # thorough tier: the independent checker re-checks the compiled property files and everything
    # they depend on, and lists the axioms (expected: none)
    if ctx.tier == 'thorough' and not res['broken']:
        mods = ['Cloak.' + rel.replace('/', '.') for rel in prop_files]
        lock = open(BUILD + '/lock', 'w')
        fcntl.flock(lock, fcntl.LOCK_SH)
        try:
            rc, out, dt = sh(['coqchk', '-silent', '-o', '-Q', '.', 'Cloak'] + mods, cwd=COQ, timeout=3000)
        finally:
            fcntl.flock(lock, fcntl.LOCK_UN)
        m = re.search(r'\* Axioms:(.*?)\n\s*\n\* Constants', out, re.S)
        ax = m.group(1).strip() if m else '?'
        res['coqchk'] = dict(rc=rc, seconds=round(dt, 1), axioms=ax,
                             type_in_type='<none>' in out.split('type-in-type:')[-1][:20] if 'type-in-type' in out else None)
        if rc != 0:
            res['broken'].append(('coqchk ' + ' '.join(mods), out[-2000:]))
        elif ax != '<none>':
            res['axioms'] += [a.strip() for a in ax.splitlines() if a.strip()]
    # forbidden declarations anywhere in the development
    bad = []
    for root, _, files in os.walk(COQ):
        for fn in files:
            if fn.endswith('.v'):
                path = os.path.join(root, fn)
                txt = open(path).read()
                txt_nc = re.sub(r'\(\*.*?\*\)', '', txt, flags=re.S)
                for m in FORBIDDEN.finditer(txt_nc):
                    bad.append('%s: %s' % (os.path.relpath(path, COQ), m.group(0)))
    if bad:
        res['broken'].append(('forbidden declarations', '\n'.join(bad[:50])))
    res['forbidden'] = bad
    return res


# ----------------------------------------------------------------------------------------
# Go drivers via overlay
HARNESS = V + '/harness'
PKGDIR = {'multiplex': 'internal/multiplex', 'common': 'internal/common', 'server': 'internal/server',
          'usermanager': 'internal/server/usermanager', 'client': 'internal/client',
          'ckclient': 'cmd/ck-client', 'ckserver': 'cmd/ck-server', 'ecdh': 'internal/ecdh'}


def overlay_for(pkg, files, extra=None):
    """Overlay mapping harness/<pkg>/<file> into the package directory of /repo.  Only the
    files a driver needs are injected, so that one driver that no longer compiles cannot
    take the other checks of the package down with it."""
    rep = {}
    d = '%s/%s' % (HARNESS, pkg)
    for fn in files:
        rep['%s/%s/zz_verif_%s' % (REPO, PKGDIR[pkg], fn)] = '%s/%s' % (d, fn)
    if extra:
        rep.update(extra)
    # mutation testing without touching /repo: VERIF_EXTRA_OVERLAY=<json with a Replace map>
    xo = os.environ.get('VERIF_EXTRA_OVERLAY')
    if xo:
        rep.update(json.load(open(xo)).get('Replace', {}))
    return {'Replace': rep}


def go_test(ctx, pkg, run, files=(), env=None, race=False, timeout=900, synctest=False, extra_overlay=None,
            args=(), tags='verif', util=True):
    """Run one in-package driver (harness/<pkg>/<files>, plus util_test.go).  Returns (rc, output, seconds)."""
    fl = list(files)
    if util and os.path.exists('%s/%s/util_test.go' % (HARNESS, pkg)):
        fl.append('util_test.go')
    ov = overlay_for(pkg, fl, extra_overlay)
    ovp = '%s/overlay_%s_%s.json' % (ctx.work, pkg, run)
    json.dump(ov, open(ovp, 'w'))
    e = goenv()
    if synctest:
        e['GOEXPERIMENT'] = 'synctest'
    if env:
        e.update(env)
    cmd = ['go', 'test', '-vet=off', '-count=1', '-tags', tags, '-overlay', ovp,
           '-run', '^%s$' % run, '-timeout', '%ds' % timeout]
    if race:
        cmd.append('-race')
    cov = os.environ.get('VERIF_COVER')   # tools/coverage.py: which statements of /repo do the drivers reach?
    if cov:
        os.makedirs(cov + '/raw', exist_ok=True)
        n = len(os.listdir(cov))
        cmd += ['-cover', '-coverpkg=github.com/cbeuw/Cloak/...', '-coverprofile=%s/%s_%s_%s_%d.out' % (cov, ctx.pid, pkg, run, n)]
        e['VERIF_COVDIR'] = cov + '/raw'
    cmd += ['./' + PKGDIR[pkg] + '/']
    cmd += list(args)
    return sh(cmd, cwd=REPO, env=e, timeout=timeout + 60)


def run_model(name, infile, outfile, timeout=7200):
    binp = '%s/ocaml/bin/%s' % (V, name)
    if not os.path.exists(binp):
        return 127, 'model binary %s missing (extraction or OCaml build failed)' % binp
    with open(infile) as fi, open(outfile, 'w') as fo:
        try:
            def big_stack():   # extracted list functions are not tail-recursive: 32 KiB writes need a deep stack
                import resource
                try:
                    resource.setrlimit(resource.RLIMIT_STACK, (resource.RLIM_INFINITY, resource.RLIM_INFINITY))
                except Exception:
                    pass
            p = subprocess.run([binp], stdin=fi, stdout=fo, stderr=subprocess.PIPE, timeout=timeout, text=True, preexec_fn=big_stack)
            return p.returncode, p.stderr
        except subprocess.TimeoutExpired:
            return 124, 'model timeout'


def read_lines_by_id(path):
    d = {}
    if not os.path.exists(path):
        return d
    for ln in open(path):
        ln = ln.rstrip('\n')
        if not ln:
            continue
        i = ln.find(' ')
        if i < 0:
            d[ln] = ''
        else:
            d[ln[:i]] = ln[i + 1:]
    return d


# ----------------------------------------------------------------------------------------
# known findings, replay files, verdict
def known_findings(pid):
    fs = []
    paths = [V + '/known_findings.json']
    d = V + '/known_findings.d'
    if os.path.isdir(d):
        paths += [os.path.join(d, fn) for fn in sorted(os.listdir(d)) if fn.endswith('.json')]
    for p in paths:
        if os.path.exists(p):
            fs += [f for f in json.load(open(p)).get('findings', []) if f['property'] == pid]
    return fs


def write_replay(ctx, tag, obj):
    path = '%s/%s_%s_%d.json' % (ctx.replays, ctx.pid, tag, ctx.seed)
    obj = dict(obj)
    obj.update(property=ctx.pid, tier=ctx.tier, seed=ctx.seed)
    json.dump(obj, open(path, 'w'), indent=1, default=str)
    return path


def ddmin(items, fails, max_tests=400):
    """Delta-debugging minimisation of a list w.r.t. predicate fails(list)->bool."""
    n = 2
    tests = 0
    items = list(items)
    while len(items) >= 2 and tests < max_tests:
        chunk = max(1, len(items) // n)
        reduced = False
        for i in range(0, len(items), chunk):
            cand = items[:i] + items[i + chunk:]
            tests += 1
            if cand and fails(cand):
                items = cand
                n = max(n - 1, 2)
                reduced = True
                break
            if tests >= max_tests:
                break
        if not reduced:
            if chunk == 1:
                break
            n = min(n * 2, len(items))
    return items


class Verdict:
    """Collects what a check found and turns it into exit code + evidence."""

    def __init__(self, ctx):
        self.ctx = ctx
        self.violations = []      # (replay_path, no_input_found: bool, what)
        self.known_seen = {}      # signature -> what
        self.proof = None
        self.cov = {}
        self.assumptions = []
        self.trusted = []

    def oracle_failure(self, signature, what, replay_obj):
        """A concrete input on which the property fails on the implementation."""
        for f in known_findings(self.ctx.pid):
            if f.get('status', 'open') == 'open' and re.fullmatch(f['signature'], signature):
                self.known_seen.setdefault(f['signature'], f['what'])
                return 'known'
        path = write_replay(self.ctx, 'violation%d' % len(self.violations), dict(replay_obj, what=what, signature=signature))
        self.violations.append((path, False, what))
        return 'new'

    def broken(self, what, detail, failing_input_found=False):
        """A proof obligation or the correspondence no longer checks and no failing input was found."""
        path = write_replay(self.ctx, 'broken%d' % len(self.violations),
                            dict(no_longer_checks=what, detail=detail, failing_input_found=failing_input_found))
        self.violations.append((path, True, what))

    def finish(self, level='proof'):
        ctx = self.ctx
        pr = self.proof or {}
        cov = dict(self.cov)
        cov.setdefault('obligations', pr.get('obligations', 0))
        cov.setdefault('discharged', pr.get('discharged', 0))
        cov.setdefault('checker_cmd', pr.get('checker_cmd', 'make'))
        cov['theorems'] = pr.get('theorems', [])
        cov['print_assumptions'] = dict(closed_under_global_context=pr.get('closed', 0), axioms=pr.get('axioms', []))
        if pr.get('coqchk'):
            cov['coqchk'] = pr['coqchk']
        cov.setdefault('trusted_base', self.trusted)
        cov['known_findings_seen'] = sorted(self.known_seen.values())
        cov['notes'] = ctx.notes
        ev = dict(property_id=ctx.pid, tier='thorough' if ctx.tier == 'thorough' else 'quick', seed=ctx.seed,
                  level=level, coverage=cov, assumptions=self.assumptions,
                  wall_s=round(time.time() - ctx.t0, 2), violations=len(self.violations))
        os.makedirs(V + '/evidence', exist_ok=True)
        tmp = '%s/evidence/%s.json.tmp' % (V, ctx.pid)
        json.dump(ev, open(tmp, 'w'), indent=1, default=str)
        os.replace(tmp, '%s/evidence/%s.json' % (V, ctx.pid))
        for sig, what in sorted(self.known_seen.items()):
            print('KNOWN-FINDING: property=%s %s' % (ctx.pid, what))
        for path, noinput, what in self.violations:
            print('# %s' % what.replace('\n', ' ')[:300])
            print('VIOLATION property=%s replay=%s%s' % (ctx.pid, path, ' no-failing-input-found' if noinput else ''))
        sys.stdout.flush()
        return 1 if self.violations else 0


def standard_proof_part(ctx, verdict, prop_files, extra=(), extract=()):
    pr = check_proofs(ctx, prop_files, extra, extract)
    verdict.proof = pr
    return pr


def summarize_dist(values):
    d = {}
    for v in values:
        d[v] = d.get(v, 0) + 1
    return dict(sorted(d.items(), key=lambda kv: str(kv[0])))
