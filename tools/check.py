#!/usr/bin/env python3
"""Entry point: python3 tools/check.py <Cxx> [--tier quick|thorough] [--replay path]"""
import sys, os, argparse, importlib, json, traceback
sys.path.insert(0, os.path.dirname(os.path.abspath(__file__)))
sys.path.insert(1, os.path.join(os.path.dirname(os.path.abspath(__file__)), 'props'))
import vlib


def main():
    ap = argparse.ArgumentParser()
    ap.add_argument('pid')
    ap.add_argument('--tier', default=os.environ.get('VERIF_TIER', 'quick'))
    ap.add_argument('--replay')
    a = ap.parse_args()
    seed = int(os.environ.get('VERIF_SEED', '1') or 1)
    ctx = vlib.Ctx(a.pid, a.tier, seed)
    mod = importlib.import_module('props.' + a.pid.lower())
    verdict = vlib.Verdict(ctx)
    if a.replay:
        ctx.replay = json.load(open(a.replay))
        rc = mod.replay(ctx, verdict)
        sys.exit(rc)
    try:
        pid_extract = 'Extract/' + a.pid
        extract = getattr(mod, 'EXTRACT_FILES', [pid_extract] if os.path.exists('%s/%s.v' % (vlib.COQ, pid_extract)) else [])
        pr = vlib.standard_proof_part(ctx, verdict, mod.PROP_FILES, getattr(mod, 'EXTRA_OBLIGATION_FILES', ()), extract)
        if os.environ.get('VERIF_EXTRA_OVERLAY'):
            # mutant run: the shared coq/Gen is left alone, so the obligations about the terms generated
            # from the source (lock graph, guards, atomicity) are re-generated and re-proved privately
            from props import panellib
            gen_obl = [f for f in getattr(mod, 'EXTRA_OBLIGATION_FILES', ()) if panellib.is_generated_obligation(f)]
            if gen_obl:
                for f, err in panellib.check_generated_obligations(ctx, gen_obl)['errors']:
                    pr['broken'].append((f, err))
        corr = mod.correspondence(ctx, verdict, pr)
        new_before = len(verdict.violations)
        problems = [('proof obligation %s' % f, e) for f, e in pr['broken']] + \
                   [('correspondence %s' % w, d) for w, d in corr.get('broken', [])]
        if problems:
            found = any(not noinput for _, noinput, _ in verdict.violations)
            if not found and hasattr(mod, 'search'):
                found = mod.search(ctx, verdict, problems)
            if not found:
                for what, detail in problems:
                    verdict.broken(what, detail)
        verdict.trusted = mod.TRUSTED
        verdict.assumptions = getattr(mod, 'ASSUMPTIONS', [])
        rc = verdict.finish('proof')
    except Exception:
        traceback.print_exc()
        verdict.cov.setdefault('explanation', 'check crashed: ' + traceback.format_exc()[-800:])
        verdict.broken('check machinery crashed', traceback.format_exc()[-2000:])
        rc = verdict.finish('proof')
    sys.exit(rc)


if __name__ == '__main__':
    main()
