#!/usr/bin/env python3
"""Assemble MANIFEST.json from the MANIFEST dict of every tools/props/cXX.py."""
import json, os, sys, importlib
sys.path.insert(0, os.path.dirname(os.path.abspath(__file__)))
sys.path.insert(1, os.path.join(os.path.dirname(os.path.abspath(__file__)), 'props'))
V = '/verif'
props = [json.loads(l) for l in open(V + '/properties.jsonl')]
checks, na = [], []
NA = json.load(open(V + '/tools/not_applicable.json')) if os.path.exists(V + '/tools/not_applicable.json') else {}
for p in props:
    pid = p['id']
    path = '%s/tools/props/%s.py' % (V, pid.lower())
    if not os.path.exists(path):
        na.append(dict(property_id=pid, reason=NA.get(pid, 'check not built yet at this commit (planned, see DESIGN.md section 6)')))
        continue
    m = importlib.import_module('props.' + pid.lower()).MANIFEST
    checks.append(dict(
        property_id=pid,
        quick_cmd='python3 tools/check.py %s --tier quick' % pid,
        thorough_cmd='python3 tools/check.py %s --tier thorough' % pid,
        evidence_file='/verif/evidence/%s.json' % pid,
        replay_cmd_template='python3 tools/check.py %s --replay {path}' % pid,
        engine='coq-model+correspondence',
        level_claimed=dict(category='proof', text=m['level_text'], design_ref=m.get('design_ref', 'DESIGN.md section 6')),
        level_note=m['level_note'],
        technique=m['technique']))
hooks_commits = []
hp = V + '/tools/hook_commits.txt'
if os.path.exists(hp):
    hooks_commits = [l.strip() for l in open(hp) if l.strip()]
man = dict(
    version=1,
    setup_cmd='bash tools/setup.sh',
    hooks=dict(guard='verif', enable='go test -tags verif -overlay <harness overlay> (drivers are injected with -overlay; schedule-point hooks in /repo are //go:build verif files)',
               baseline_off_cmd='cd /repo && go test -mod=mod -json -vet=off -count=1 -timeout 25m ./...',
               source_commits=hooks_commits, add_only=True),
    engines=[dict(name='coq-model+correspondence', path='/verif/coq + /verif/tools/check.py',
                  serves_properties=[c['property_id'] for c in checks],
                  kind_free_text='Rocq/Coq 8.16.1 theorems about Gallina models (coq/Model, coq/Proofs, coq/Properties), generated obligations (coq/Gen, regenerated from /repo each run), models extracted to OCaml and compared with in-package Go drivers (harness/, go test -overlay) on the same inputs')],
    checks=checks,
    not_applicable=na,
    notes='All checks share one Coq build (tools/build.sh, flock). Evidence in /verif/evidence/<id>.json. known_findings.json lists recorded defects; see DESIGN.md.')
json.dump(man, open(V + '/MANIFEST.json', 'w'), indent=1)
print('checks:', len(checks), 'not_applicable:', len(na))
