#!/bin/bash
# Offline build of the whole framework from files on disk: generated Coq files, full .vo
# build, extraction, OCaml drivers, and a warm Go build cache for the drivers.
cd /verif
export GOFLAGS=-mod=mod GOPROXY=off
unset GOTOOLCHAIN GOSUMDB
python3 tools/gen_all.py || echo "gen_all failed (checks will report it)"
tools/build.sh || { echo "coq build reported errors (see _build/make.log); checks will report the affected properties"; tail -40 _build/make.log; }
python3 tools/warm.py || true
exit 0
