#!/usr/bin/env python3
"""Mutant campaign for the front checks: one mutant per early exit of dispatchConnection, one per checked error of the
hello parsers.  Nothing is written to /repo: each mutant is a patched copy injected with VERIF_EXTRA_OVERLAY."""
import os, sys, json, subprocess, shutil, time, re

R = '/repo/internal/server/'
OUT = os.environ.get('FRONT_MUTANTS_OUT', '/tmp/mut_front/camp')
os.makedirs(OUT, exist_ok=True)

D = 'dispatcher.go'
T = 'TLS.go'
W = 'websocket.go'
A = 'auth.go'

M = []


def mut(name, f, old, new, checks, what):
    M.append(dict(name=name, file=f, old=old, new=new, checks=checks, what=what))


FRONT = ['C09', 'C07', 'C10']
PARS = ['C07', 'C09']

# ---------------------------------------------------------------- dispatchConnection: one per early exit
mut('D01_goweb_dial_err_return', D,
    '\t\t\tlog.Errorf("Making connection to redirection server: %v", err)\n\t\t\tconn.Close()\n\t\t\treturn\n',
    '\t\t\tlog.Errorf("Making connection to redirection server: %v", err)\n\t\t\tconn.Close()\n', FRONT,
    'goWeb: return after a failed dial dropped')
mut('D02_goweb_write_err_return', D,
    '\t\t\twebConn.Close()\n\t\t\tconn.Close()\n\t\t\treturn\n',
    '\t\t\twebConn.Close()\n\t\t\tconn.Close()\n', FRONT, 'goWeb: return after a failed first write dropped')
mut('D03_firstpacket_err_return', D,
    '\t\t} else {\n\t\t\tconn.Close()\n\t\t}\n\t\treturn\n\t}\n',
    '\t\t} else {\n\t\t\tconn.Close()\n\t\t}\n\t}\n', FRONT, 'return after readFirstPacket error (redirect / close) dropped')
mut('D04_auth_err_return', D,
    '\t\t}).Warn(err)\n\t\tgoWeb()\n\t\treturn\n', '\t\t}).Warn(err)\n\t\tgoWeb()\n', FRONT,
    'return after AuthFirstPacket error + goWeb dropped')
mut('D05_obfuscator_err_return', D,
    '\t\t}).Error(err)\n\t\tgoWeb()\n\t\treturn\n', '\t\t}).Error(err)\n\t\tgoWeb()\n', FRONT,
    'return after MakeObfuscator error + goWeb dropped')
mut('D06_admin_finish_err_return', D,
    '\t\tpreparedConn, err := finishHandshake(conn, sessionKey, sta.WorldState.Rand)\n\t\tif err != nil {\n\t\t\tlog.Error(err)\n\t\t\treturn\n\t\t}\n',
    '\t\tpreparedConn, err := finishHandshake(conn, sessionKey, sta.WorldState.Rand)\n\t\tif err != nil {\n\t\t\tlog.Error(err)\n\t\t}\n', FRONT,
    'admin branch: return after finishHandshake error dropped')
mut('D07_admin_served_return', D,
    '\t\t// http.Serve never returns with non-nil error\n\t\tlog.Error(err)\n\t\treturn\n\t}\n',
    '\t\t// http.Serve never returns with non-nil error\n\t\tlog.Error(err)\n\t}\n', FRONT,
    'admin branch: return after http.Serve dropped (falls through to the proxy branch when the admin session ends)')
mut('D08_badmethod_return', D,
    '\t\t}).Error(ErrBadProxyMethod)\n\t\tgoWeb()\n\t\treturn\n', '\t\t}).Error(ErrBadProxyMethod)\n\t\tgoWeb()\n', FRONT,
    'return after ErrBadProxyMethod + goWeb dropped (= seeded C10_m2)')
mut('D09_baduid_return', D,
    '\t\t}).Warn("+1 unauthorised UID")\n\t\tgoWeb()\n\t\treturn\n', '\t\t}).Warn("+1 unauthorised UID")\n\t\tgoWeb()\n', FRONT,
    'return after unauthorised UID + goWeb dropped')
mut('D10_getsession_err_return', D,
    '\t\tuser.CloseSession(ci.SessionId, "")\n\t\tlog.Error(err)\n\t\treturn\n', '\t\tuser.CloseSession(ci.SessionId, "")\n\t\tlog.Error(err)\n', FRONT,
    'return after GetSession error dropped')
mut('D11_proxy_finish_err_return', D,
    '\tpreparedConn, err := finishHandshake(conn, sesh.GetSessionKey(), sta.WorldState.Rand)\n\tif err != nil {\n\t\tlog.Error(err)\n\t\treturn\n\t}\n',
    '\tpreparedConn, err := finishHandshake(conn, sesh.GetSessionKey(), sta.WorldState.Rand)\n\tif err != nil {\n\t\tlog.Error(err)\n\t}\n', FRONT,
    'proxy branch: return after finishHandshake error dropped')
mut('D12_firstpacket_err_close', D,
    '\t\tif redirOnErr {\n\t\t\tgoWeb()\n\t\t} else {\n\t\t\tconn.Close()\n\t\t}\n',
    '\t\tif redirOnErr {\n\t\t\tgoWeb()\n\t\t}\n', FRONT,
    'conn.Close() of the no-redirect first-packet error exit dropped')

# ---------------------------------------------------------------- TLS.go: one per checked error
mut('T01_parseClientHello_err', T,
    '\tch, err := parseClientHello(clientHello)\n\tif err != nil {\n\t\tlog.Debug(err)\n\t\terr = ErrBadClientHello\n\t\treturn\n\t}\n',
    '\tch, _ := parseClientHello(clientHello)\n\tlog.Debug("parsed")\n', PARS, 'processFirstPacket: parseClientHello error ignored')
mut('T02_unmarshal_err', T,
    '\tfragments, err = TLS{}.unmarshalClientHello(ch, privateKey)\n\tif err != nil {\n\t\terr = fmt.Errorf("failed to unmarshal ClientHello into authFragments: %v", err)\n\t\treturn\n\t}\n',
    '\tfragments, _ = TLS{}.unmarshalClientHello(ch, privateKey)\n', PARS, 'processFirstPacket: unmarshalClientHello error ignored')
mut('T03_reply_encrypt_err', T,
    '\t\tencryptedSessionKey, err := common.AESGCMEncrypt(nonce[:], sharedSecret[:], sessionKey[:])\n\t\tif err != nil {\n\t\t\treturn\n\t\t}\n',
    '\t\tencryptedSessionKey, _ := common.AESGCMEncrypt(nonce[:], sharedSecret[:], sessionKey[:])\n', PARS,
    'TLS responder: AESGCMEncrypt error ignored')
mut('T04_reply_write_err', T,
    '\t\t_, err = originalConn.Write(reply)\n\t\tif err != nil {\n\t\t\terr = fmt.Errorf("failed to write TLS reply: %v", err)\n\t\t\toriginalConn.Close()\n\t\t\treturn\n\t\t}\n',
    '\t\toriginalConn.Write(reply)\n', PARS, 'TLS responder: error of the reply Write ignored')
mut('T05_unmarshal_pubkey_ok', T,
    '\tephPub, ok := ecdh.Unmarshal(fragments.randPubKey[:])\n\tif !ok {\n\t\terr = ErrInvalidPubKey\n\t\treturn\n\t}\n',
    '\tephPub, _ := ecdh.Unmarshal(fragments.randPubKey[:])\n', PARS, 'unmarshalClientHello: ecdh.Unmarshal ok flag ignored')
mut('T06_ecdh_err', T,
    '\tsharedSecret, err = ecdh.GenerateSharedSecret(staticPv, ephPub)\n\tif err != nil {\n\t\treturn\n\t}\n',
    '\tsharedSecret, _ = ecdh.GenerateSharedSecret(staticPv, ephPub)\n', PARS, 'unmarshalClientHello: X25519 error ignored (seeded C07_m1 in its plainest form)')
mut('T07_keyshare_err', T,
    '\tkeyShare, err = parseKeyShare(ch.extensions[[2]byte{0x00, 0x33}])\n\tif err != nil {\n\t\treturn\n\t}\n',
    '\tkeyShare, _ = parseKeyShare(ch.extensions[[2]byte{0x00, 0x33}])\n', PARS, 'unmarshalClientHello: parseKeyShare error ignored')
mut('T08_ctlen_check', T,
    '\tif len(ctxTag) != 64 {\n\t\terr = fmt.Errorf("%v: %v", ErrCiphertextLength, len(ctxTag))\n\t\treturn\n\t}\n',
    '\t_ = fmt.Sprint\n', PARS, 'unmarshalClientHello: ciphertext length check removed')

# ---------------------------------------------------------------- websocket.go
mut('W01_readrequest_err', W,
    '\treq, err = http.ReadRequest(bufio.NewReader(bytes.NewBuffer(reqPacket)))\n\tif err != nil {\n\t\terr = fmt.Errorf("failed to parse first HTTP GET: %v", err)\n\t\treturn\n\t}\n',
    '\treq, _ = http.ReadRequest(bufio.NewReader(bytes.NewBuffer(reqPacket)))\n', PARS, 'WebSocket.processFirstPacket: http.ReadRequest error ignored')
mut('W03_unmarshalHidden_err', W,
    '\tfragments, err = WebSocket{}.unmarshalHidden(hiddenData, privateKey)\n\tif err != nil {\n\t\terr = fmt.Errorf("failed to unmarshal hidden data from WS into authFragments: %v", err)\n\t\treturn\n\t}\n',
    '\tfragments, _ = WebSocket{}.unmarshalHidden(hiddenData, privateKey)\n\terr = nil\n', PARS, 'WebSocket.processFirstPacket: unmarshalHidden error ignored')
mut('W04_reply_encrypt_err', W,
    '\t\tencryptedKey, err := common.AESGCMEncrypt(nonce, sharedSecret[:], sessionKey[:]) // 32 + 16 = 48 bytes\n\t\tif err != nil {\n\t\t\terr = fmt.Errorf("failed to encrypt reply: %v", err)\n\t\t\treturn\n\t\t}\n',
    '\t\tencryptedKey, _ := common.AESGCMEncrypt(nonce, sharedSecret[:], sessionKey[:]) // 32 + 16 = 48 bytes\n', PARS,
    'WebSocket responder: AESGCMEncrypt error ignored')
mut('W05_reply_write_err', W,
    '\t\t_, err = preparedConn.Write(reply)\n\t\tif err != nil {\n\t\t\terr = fmt.Errorf("failed to write reply: %v", err)\n\t\t\tpreparedConn.Close()\n\t\t\treturn\n\t\t}\n',
    '\t\tpreparedConn.Write(reply)\n', PARS, 'WebSocket responder: error of the reply Write ignored')
mut('W06_unmarshal_pubkey_ok', W,
    '\tephPub, ok := ecdh.Unmarshal(fragments.randPubKey[:])\n\tif !ok {\n\t\terr = ErrInvalidPubKey\n\t\treturn\n\t}\n',
    '\tephPub, _ := ecdh.Unmarshal(fragments.randPubKey[:])\n', PARS, 'unmarshalHidden: ecdh.Unmarshal ok flag ignored')
mut('W07_ecdh_err', W,
    '\tsharedSecret, err = ecdh.GenerateSharedSecret(staticPv, ephPub)\n\tif err != nil {\n\t\treturn\n\t}\n',
    '\tsharedSecret, _ = ecdh.GenerateSharedSecret(staticPv, ephPub)\n', PARS, 'unmarshalHidden: X25519 error ignored (the WebSocket twin of C07_m1)')
mut('W08_hidden_len96', W,
    '\tif len(hidden) < 96 {\n\t\terr = ErrBadGET\n\t\treturn\n\t}\n', '', PARS, 'unmarshalHidden: minimum length check removed')
mut('W09_hidden_ctlen', W,
    '\tif len(hidden[32:]) != 64 {\n\t\terr = fmt.Errorf("%v: %v", ErrCiphertextLength, len(hidden[32:]))\n\t\treturn\n\t}\n',
    '', PARS, 'unmarshalHidden: ciphertext length check removed')

# ---------------------------------------------------------------- auth.go
mut('A01_decrypt_err', A,
    '\tplaintext, err = common.AESGCMDecrypt(fragments.randPubKey[0:12], fragments.sharedSecret[:], fragments.ciphertextWithTag[:])\n\tif err != nil {\n\t\treturn\n\t}\n',
    '\tplaintext, _ = common.AESGCMDecrypt(fragments.randPubKey[0:12], fragments.sharedSecret[:], fragments.ciphertextWithTag[:])\n', PARS,
    'decryptClientInfo: AES-GCM open error ignored')
mut('A02_processFirstPacket_err', A,
    '\tfragments, finisher, err := transport.processFirstPacket(firstPacket, sta.StaticPv)\n\tif err != nil {\n\t\treturn\n\t}\n',
    '\tfragments, finisher, _ := transport.processFirstPacket(firstPacket, sta.StaticPv)\n', PARS,
    'AuthFirstPacket: processFirstPacket error ignored')
mut('A03_decryptClientInfo_err', A,
    '\tinfo, err = decryptClientInfo(fragments, sta.WorldState.Now().UTC())\n\tif err != nil {\n\t\tlog.Debug(err)\n\t\terr = fmt.Errorf("%w: %v", ErrBadDecryption, err)\n\t\treturn\n\t}\n',
    '\tinfo, _ = decryptClientInfo(fragments, sta.WorldState.Now().UTC())\n\tlog.Debug("x")\n', PARS,
    'AuthFirstPacket: decryptClientInfo error (decryption failure, window) ignored')
mut('A04_replay_check', A,
    '\tif sta.registerRandom(fragments.randPubKey) {\n\t\terr = ErrReplay\n\t\treturn\n\t}\n',
    '\tsta.registerRandom(fragments.randPubKey)\n', PARS, 'AuthFirstPacket: result of registerRandom ignored (C08 territory)')

# ---------------------------------------------------------------- harmless refactorings: must raise no alarm
mut('R01_tls_tidy_correct', T,
    '\tvar sharedSecret []byte\n\tsharedSecret, err = ecdh.GenerateSharedSecret(staticPv, ephPub)\n\tif err != nil {\n\t\treturn\n\t}\n\n\tcopy(fragments.sharedSecret[:], sharedSecret)\n\tvar keyShare []byte\n\tkeyShare, err = parseKeyShare(ch.extensions[[2]byte{0x00, 0x33}])\n\tif err != nil {\n\t\treturn\n\t}\n',
    '\tsharedSecret, dhErr := ecdh.GenerateSharedSecret(staticPv, ephPub)\n\tif dhErr != nil {\n\t\treturn fragments, dhErr\n\t}\n\tcopy(fragments.sharedSecret[:], sharedSecret)\n\n\tkeyShare, ksErr := parseKeyShare(ch.extensions[[2]byte{0x00, 0x33}])\n\tif ksErr != nil {\n\t\treturn fragments, ksErr\n\t}\n',
    ['C07', 'C09', 'C06', 'C10'], 'REFACTORING: the declaration block of unmarshalClientHello tidied correctly (separate error variables)')
mut('R02_dispatch_reject_helper', D,
    '\tif _, ok := sta.ProxyBook[ci.ProxyMethod]; !ok {\n',
    '\t_, methodServed := sta.ProxyBook[ci.ProxyMethod]\n\tif !methodServed {\n',
    ['C09', 'C07', 'C10', 'C06'], 'REFACTORING: ProxyBook lookup hoisted into a named boolean')


def run(only=None, skip_done=True):
    res_path = OUT + '/results.json'
    results = json.load(open(res_path)) if os.path.exists(res_path) else {}
    for m in M:
        if only and not any(m['name'].startswith(o) for o in only):
            continue
        d = '%s/%s' % (OUT, m['name'])
        os.makedirs(d, exist_ok=True)
        src = open(R + m['file']).read()
        if src.count(m['old']) != 1:
            print('!! %s: pattern occurs %d times' % (m['name'], src.count(m['old'])))
            results.setdefault(m['name'], {})['error'] = 'pattern count %d' % src.count(m['old'])
            continue
        open('%s/%s' % (d, m['file']), 'w').write(src.replace(m['old'], m['new'], 1))
        ov = '%s/ov.json' % d
        json.dump({'Replace': {R + m['file']: '%s/%s' % (d, m['file'])}}, open(ov, 'w'))
        for chk in m['checks']:
            key = m['name']
            if skip_done and results.get(key, {}).get(chk):
                continue
            t0 = time.time()
            p = subprocess.run(['python3', 'tools/check.py', chk, '--tier', 'quick'], cwd='/verif', env=dict(os.environ, VERIF_EXTRA_OVERLAY=ov),
                               capture_output=True, text=True)
            dt = time.time() - t0
            out = p.stdout + p.stderr
            open('%s/%s.log' % (d, chk), 'w').write(out)
            viol = [ln for ln in out.splitlines() if ln.startswith('VIOLATION')]
            notes = [ln for ln in out.splitlines() if ln.startswith('# ')]
            reps = []
            for v in viol:
                mm = re.search(r'replay=(\S+)', v)
                if mm and os.path.exists(mm.group(1)):
                    dst = '%s/%s_%s' % (d, chk, os.path.basename(mm.group(1)))
                    shutil.copy(mm.group(1), dst)
                    reps.append(dst)
            concrete = any('no-failing-input-found' not in v for v in viol)
            results.setdefault(key, dict(what=m['what'], file=m['file']))[chk] = dict(
                rc=p.returncode, seconds=round(dt), violations=viol, notes=[n[:400] for n in notes[:4]], concrete=concrete, replays=reps)
            json.dump(results, open(res_path, 'w'), indent=1)
            print('%-32s %s rc=%d %3ds %s' % (m['name'], chk, p.returncode, dt, (notes[0][:150] if notes else '')), flush=True)
    return results


if __name__ == '__main__':
    run(only=sys.argv[1:] or None)
