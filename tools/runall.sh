#!/bin/bash
# run every claimed check once (quick tier by default) and summarise
cd /verif
tier=${1:-quick}
for id in $(python3 -c "import json;print(' '.join(c['property_id'] for c in json.load(open('MANIFEST.json'))['checks']))"); do
  s=$(date +%s)
  out=$(timeout 3000 python3 tools/check.py $id --tier $tier 2>&1); rc=$?
  e=$(( $(date +%s) - s ))
  echo "$id rc=$rc ${e}s $(echo "$out" | grep -E 'VIOLATION|KNOWN-FINDING' | head -3 | tr '\n' ' ' | cut -c1-300)"
done
