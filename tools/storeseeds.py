#!/usr/bin/env python3
"""Copy the independently seeded changes that were confirmed (tools/evalseed.py) into /verif/seeded/<id>/:
patch.diff, the demonstration test, meta.json (the author's description + what was run here and which
of our checks reported it)."""
import json, os, sys, glob, shutil
V = '/verif'
src = sys.argv[1] if len(sys.argv) > 1 else '/tmp/seed_out'
for ev in sorted(glob.glob(V + '/_build/seedeval/C*_m*.json')):
    name = os.path.basename(ev)[:-5]
    try:
        e = json.load(open(ev))
    except Exception:
        continue
    if not e.get('confirmed'):
        print('not confirmed:', name); continue
    pid, m = name.split('_')
    d = '%s/%s/%s' % (src, pid, m)
    out = '%s/seeded/%s' % (V, name)
    os.makedirs(out, exist_ok=True)
    shutil.copy(d + '/patch.diff', out + '/patch.diff')
    for f in glob.glob(d + '/*.go'):
        shutil.copy(f, out + '/' + os.path.basename(f))
    meta = json.load(open(d + '/meta.json'))
    meta['id'] = name
    meta['confirmed_here'] = dict(
        how='tools/evalseed.py: scratch worktree of /repo HEAD + patch; go build ./...; full suite compared with the pinned baseline; demonstration run with the change (must fail) and after git apply -R (must pass); worktree removed',
        patch_applies=e.get('patch_applies'), builds=e.get('builds'), suite_not_passing=e.get('suite_not_passing'),
        demo_with_change_rc=e.get('demo_with_mutant_rc'), demo_without_rc=e.get('demo_without_rc'))
    meta['first_evaluation'] = dict(checks={k: v['rc'] for k, v in e.get('checks', {}).items()}, caught_by=e.get('caught_by'))
    json.dump(meta, open(out + '/meta.json', 'w'), indent=1)
    print(name, 'stored; first evaluation caught by', e.get('caught_by'))
