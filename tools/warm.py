#!/usr/bin/env python3
"""Warm the Go build cache: compile every driver package once (no test is run)."""
import os, sys, concurrent.futures
sys.path.insert(0, os.path.dirname(os.path.abspath(__file__)))
import vlib
class C: pass
ctx = C(); ctx.work = vlib.BUILD + '/work/warm'; os.makedirs(ctx.work, exist_ok=True)
jobs = []
for pkg in sorted(os.listdir(vlib.HARNESS)):
    d = os.path.join(vlib.HARNESS, pkg)
    if pkg in vlib.PKGDIR and os.path.isdir(d):
        files = [f for f in os.listdir(d) if f.endswith('_test.go') and f not in ('util_test.go',)]
        jobs.append((pkg, files))
def one(j):
    pkg, files = j
    rc, out, dt = vlib.go_test(ctx, pkg, 'TestNothingAtAll', files=files, timeout=900)
    return pkg, rc, dt, out[-500:] if rc else ''
with concurrent.futures.ThreadPoolExecutor(4) as ex:
    for pkg, rc, dt, out in ex.map(one, jobs):
        print('warm %s rc=%d %.1fs %s' % (pkg, rc, dt, out))
