"""C05 - record framing survives any TCP segmentation and concurrent writers."""
import os, json, re, collections, hashlib, itertools, time
import vlib

PROP_FILES = ['Properties/C05']
EXTRA_OBLIGATION_FILES = ['Proofs/AtomWire']
TRUSTED = [
    'atomic steps of the hand-written model as GENERATED obligations (Proofs/AtomWire.v, re-proved on every run about coq/Gen/Atomicity.v; in a private re-generated copy under VERIF_EXTRA_OVERLAY): tools/lockscan (go/ast, syntactic types) is trusted to list, per function of internal/{server,multiplex,common,client}, every field access / call / sync/atomic operation with the critical sections (Lock..Unlock / RLock..RUnlock / deferred unlock, mutex identity by name) it lies in, every sync.Pool.Put with the later mentions of the object, and every variable a go statement shares with its spawner (anything it cannot resolve is in atomicity_errors, which must be empty); it does not follow calls (a region is what one function writes between Lock and Unlock), does no alias analysis, treats callbacks as running with no lock held, and counts call sites, not executions (a loop around one call site is invisible)',
    'Coq 8.16.1 kernel incl. vm_compute (no native_compute); all C05_* theorems: Closed under the global context',
    'hand-written model coq/Model/Record.v of AddRecordLayer, TLSConn.Write, TLSConn.Read (io.ReadFull = io.ReadAtLeast loop over a chunked stream) and of the WebSocketConn.Read loop over an abstract message reader',
    'net.Conn.Write appends its argument atomically to a FIFO byte stream and Read returns a non-empty prefix of what is pending, io.EOF at the end (DESIGN section 3); the theorem about concurrent writers rests on TLSConn.Write issuing exactly ONE underlying Write per message, which the driver observes on every write',
    'correspondence: in-package Go driver harness/common/c05_test.go (real TLSConn over a recording conn and a segmenting conn; concurrent writers under -race; real WebSocketConn over a gorilla/websocket client/server pair on a segmenting in-memory duplex conn) vs extracted OCaml model (ExtrOcamlBasic only), ocaml/c05_driver.ml; large byte strings are compared by length + MD5',
    'gorilla/websocket is a black box: its message reader is modelled abstractly (pieces, then io.EOF, or a failure); switchboard.deplex (one Read = one frame) is covered by C14/C01 drivers, not here',
]
ASSUMPTIONS = ['connection errors other than end-of-stream are not modelled (a failing Read ends the stream)',
               'WebSocket theorem speaks about binary messages; a non-binary message is reported as (0, nil) by the adapter (modelled, not claimed)']

LIMIT = 16640


def payload(n, tag):
    return bytes([(tag * 37 + i * 11 + (i >> 8) * 5 + 7) % 256 for i in range(n)])


def repr_(b):
    if len(b) == 0:
        return '-'
    if len(b) <= 32:
        return b.hex()
    return '%d.%s' % (len(b), hashlib.md5(b).hexdigest())


def frame(m):
    return bytes([23, 3, 3, len(m) >> 8, len(m) & 0xff]) + m


# ------------------------------------------------------------------------------------------
# oracles (from the property text; independent of the Coq model)
def x_oracle(meta, toks):
    """TLS exchange: msgs -> Write -> wire -> cuts/trunc -> Read loop with buflen."""
    msgs = [payload(l, t) for l, t in meta['msgs']]
    buflen, trunc = meta['buflen'], meta['trunc']
    exp = []
    wire = b''
    sent = []
    for m in msgs:
        if len(m) > LIMIT:
            exp.append('W0:1:0')           # refused, nothing written
        else:
            exp.append('W%d:0:1' % len(m))  # accepted, exactly one underlying write
            wire += frame(m); sent.append(m)
    exp.append('wire:' + repr_(wire))
    if trunc >= 0:
        wire = wire[:trunc]
    # what any reader of this byte stream must see, however it is segmented
    pos = 0
    if buflen < 5:
        exp.append('eS')
    else:
        for _ in range(len(msgs) + 3):
            rest = len(wire) - pos
            if rest == 0:
                exp.append('eE'); break
            if rest < 5:
                exp.append('eU:0'); break
            l = wire[pos + 3] << 8 | wire[pos + 4]
            if l > buflen:
                exp.append('eS'); break     # an error, never a truncated delivery
            body = wire[pos + 5:pos + 5 + l]
            if len(body) < l:
                exp.append('eE' if len(body) == 0 else 'eU:%d' % len(body)); break
            exp.append('d:' + repr_(body))
            pos += 5 + l
    if toks != exp:
        for i, (a, b) in enumerate(itertools.zip_longest(toks, exp)):
            if a != b:
                return 'observation #%d is %s, the property demands %s (messages %s, buffer %d, cuts %s, stream cut at %s)' % (
                    i, a, b, [l for l, _ in meta['msgs']], buflen, meta['cuts'], trunc if trunc >= 0 else 'end')
    return None


def c_oracle(meta, toks):
    d = dict(t.split(':', 1) for t in toks)
    total = sum(len(q) for q in meta['queues'])
    if d.get('parse') != 'ok:%d' % total:
        return 'concurrent writers (%d goroutines, %d messages): wire does not parse into whole records in per-writer order: %s' % (
            len(meta['queues']), total, d.get('parse'))
    if d.get('writes') != str(total):
        return 'concurrent writers: %s underlying writes for %d messages' % (d.get('writes'), total)
    return None


def ws_frame_hdr(n, masked):
    return 2 + (2 if 126 <= n < 65536 else (8 if n >= 65536 else 0)) + (4 if masked else 0)


def s_expect(meta):
    """per message: ('exact', token) | ('cut', avail) | None (nothing observable after an err)"""
    out = []
    pos = 0
    cut_seen = False
    for l, t in meta['msgs']:
        if cut_seen:
            out.append(None); continue
        m = payload(l, t)
        hdr = ws_frame_hdr(l, meta['dir'] == 0)
        end = pos + hdr + l
        normal = 'ok:' + repr_(m) if l <= meta['buflen'] else 'nm:%d' % meta['buflen']
        if meta['trunc'] < 0 or end <= meta['trunc']:
            out.append(('exact', normal))
        else:
            out.append(('cut', max(0, meta['trunc'] - pos - hdr)))
            cut_seen = True
        pos = end
    return out


def s_oracle(meta, toks):
    exp = s_expect(meta)
    k = 0
    for e in exp:
        if e is None:
            break
        if k >= len(toks):
            return 'websocket: %d results for %d messages' % (len(toks), len(exp))
        tok = toks[k]; k += 1
        l, t = meta['msgs'][k - 1]
        if e[0] == 'exact':
            if tok != e[1]:
                return 'websocket message #%d (%d bytes, buffer %d): adapter returned %s, expected %s (whole message or an error)' % (k - 1, l, meta['buflen'], tok, e[1])
        else:
            # the message the end of stream falls into, and whatever the reader tries afterwards:
            # errors only, never a success
            for tok2 in toks[k - 1:]:
                if tok2.startswith('ok:'):
                    return 'websocket message #%d (%d bytes) cut by end of stream after %d payload bytes: a success was reported: %s' % (k - 1, l, e[1], tok2)
            return None
    if k != len(toks):
        return 'websocket: extra results %s' % toks[k:]
    return None


# ------------------------------------------------------------------------------------------
def x_line(cid, meta):
    return '%s X %d %d %s %s' % (cid, meta['buflen'], meta['trunc'],
                                 ','.join(map(str, meta['cuts'])) or '-', ' '.join('%d:%d' % m for m in meta['msgs']))


def gen_cases(ctx):
    rng = ctx.rng
    cases = []   # (id, kind, line, meta)

    def addx(cid, kind, msgs, buflen, cuts, trunc=-1):
        meta = dict(kind=kind, msgs=msgs, buflen=buflen, cuts=sorted(set(cuts)), trunc=trunc)
        cases.append((cid, 'X', x_line(cid, meta), meta))

    # (a) exhaustive: every single cut and every pair of cuts of short exchanges
    sets = [[(1, 1)], [(0, 1)], [(3, 1), (0, 2), (1, 3)], [(10, 1), (0, 2), (0, 3), (7, 4)], [(20, 1), (12, 2), (8, 3)]]
    if not ctx.quick():
        sets += [[(9, 5), (9, 6), (9, 7), (12, 8)], [(40, 9), (14, 10)]]
    k = 0
    for msgs in sets:
        L = sum(5 + l for l, _ in msgs)
        assert L <= 64
        maxl = max(l for l, _ in msgs)
        for cuts in [()] + [(a,) for a in range(1, L)] + list(itertools.combinations(range(1, L), 2)):
            addx('e%d' % k, 'tls/exhaustive-cuts/L=%d' % L, msgs, max(5, maxl), list(cuts)); k += 1
    # every byte its own segment
    for msgs in sets:
        L = sum(5 + l for l, _ in msgs)
        addx('e%d' % k, 'tls/bytewise', msgs, 64, list(range(1, L))); k += 1
    # end of stream at every position of a short exchange, with and without a cut before it
    msgs = sets[2]
    L = sum(5 + l for l, _ in msgs)
    for tr in range(0, L + 1):
        addx('t%d' % tr, 'tls/trunc-every-position', msgs, 5, [c for c in (tr - 1, 2) if 0 < c < tr], tr)
    # (b) seeded multi-cut exchanges
    nseed = 1500 if ctx.quick() else 12000
    special = [0, 1, 5, 16384, 16640]
    for i in range(nseed):
        n = rng.randrange(1, 6)
        msgs = []
        big = 0
        for j in range(n):
            r = rng.random()
            if r < 0.30:
                l = rng.choice(special)
            elif r < 0.34:
                l = 16641
            elif r < 0.45:
                l = rng.choice([4, 6, 255, 256, 257, 1024, 16383, 16385, 16639])
            else:
                l = rng.randrange(0, 300)
            if l > 2000:
                big += 1
                if big > 2:
                    l = rng.randrange(0, 300)
            msgs.append((l, (i * 7 + j * 3 + 1) % 256))
        sent = [l for l, _ in msgs if l <= LIMIT]
        L = sum(5 + l for l in sent)
        maxl = max(sent) if sent else 0
        r = rng.random()
        if r < 0.55:
            buflen = max(5, maxl)
        elif r < 0.7:
            buflen = rng.choice([maxl + 1, maxl + 5, 16645, 20480])
        elif r < 0.8:
            buflen = rng.randrange(0, 5)
        else:
            buflen = max(0, rng.choice([maxl - 1, maxl - 1, (rng.choice(sent) if sent else 3) - 1, 5, 6]))
        trunc = -1
        if L > 0 and rng.random() < 0.2:
            bounds = list(itertools.accumulate(5 + l for l in sent))
            b = rng.choice([0] + bounds)
            trunc = max(0, min(L, b + rng.choice([0, 1, 2, 4, 5, 6, -1, rng.randrange(0, 40)])))
        eff = L if trunc < 0 else trunc
        cuts = []
        if eff > 1:
            bounds = [0] + list(itertools.accumulate(5 + l for l in sent))
            for _ in range(rng.choice([0, 1, 1, 2, 3, 5, 8, 12])):
                if rng.random() < 0.6:
                    c = rng.choice(bounds) + rng.choice([-1, 0, 1, 2, 3, 4, 5, 6])
                else:
                    c = rng.randrange(1, eff)
                if 0 < c < eff:
                    cuts.append(c)
        addx('s%d' % i, 'tls/seeded', msgs, buflen, cuts, trunc)
    # (c) malformed wire
    nmal = 300 if ctx.quick() else 3000
    for i in range(nmal):
        r = rng.random()
        if r < 0.3:
            wire = bytes(rng.randrange(256) for _ in range(rng.randrange(0, 40)))
        elif r < 0.6:   # declared length differs from what follows
            l = rng.choice([0, 1, 5, 6, 7, 255, 256, 65535, 16641])
            wire = bytes([rng.choice([23, 22, 0]), 3, rng.choice([1, 3]), l >> 8, l & 255]) + bytes(rng.randrange(256) for _ in range(rng.randrange(0, 12)))
        else:           # good record(s) followed by garbage / a bare header
            wire = frame(payload(rng.randrange(0, 9), i % 256)) + rng.choice([b'', b'\x17\x03\x03', b'\x17\x03\x03\x00\x09abc', frame(b'xy') + b'\x00'])
        buflen = rng.choice([0, 4, 5, 6, 8, 64, 20480])
        cuts = sorted(set(rng.randrange(1, len(wire)) for _ in range(rng.randrange(0, 4)))) if len(wire) > 1 else []
        meta = dict(kind='tls/malformed', buflen=buflen, cuts=cuts, wire=wire.hex())
        cases.append(('m%d' % i, 'R', 'm%d R %d %s %s' % (i, buflen, ','.join(map(str, cuts)) or '-', wire.hex() or '-'), meta))
    # (d) concurrent writers
    nconc = 40 if ctx.quick() else 300
    for i in range(nconc):
        nw = rng.randrange(2, 9)
        used = set()
        queues = []
        for wtr in range(nw):
            q = []
            for j in range(rng.randrange(5, 40)):
                for _ in range(20):
                    l = rng.choice([rng.randrange(1, 60), rng.randrange(1, 300), rng.randrange(1, 300), 16384 if rng.random() < 0.03 else 7, 16640 if rng.random() < 0.02 else 9, 0])
                    t = rng.randrange(256)
                    key = (l, t if l else 0)
                    if key not in used:
                        used.add(key); q.append((l, t)); break
            queues.append(q)
        meta = dict(kind='tls/concurrent-writers', queues=queues)
        cases.append(('c%d' % i, 'C', 'c%d C %s' % (i, ' '.join(','.join('%d:%d' % m for m in q) or '-' for q in queues)), meta))
    # (e) WebSocket adapter
    nws = 150 if ctx.quick() else 1200
    for i in range(nws):
        buflen = rng.choice([0, 1, 5, 100, 125, 126, 127, 1000, 4096, 16480, 20480])
        msgs = []
        for j in range(rng.randrange(1, 6)):
            l = max(0, rng.choice([buflen - 1, buflen, buflen + 1, buflen, 0, 1, rng.randrange(0, 2 * buflen + 3), 125, 126]))
            msgs.append((l, (i * 5 + j) % 256))
        segs = [rng.choice([1, 2, 3, 7, 64, 1000, 100000]) for _ in range(rng.randrange(1, 5))]
        d = rng.randrange(2)
        trunc = -1
        total = sum(ws_frame_hdr(l, d == 0) + l for l, _ in msgs)
        # end of stream mid-message only where every message travels as a single frame (gorilla
        # fragments messages larger than its write buffer, the frame offsets are then not predictable)
        if rng.random() < 0.25 and max(l for l, _ in msgs) <= 8000:
            trunc = rng.randrange(0, total + 1)
        meta = dict(kind='ws', buflen=buflen, segs=segs, trunc=trunc, dir=d, msgs=msgs)
        cases.append(('w%d' % i, 'S', 'w%d S %d %s %d %d %s' % (i, buflen, ','.join(map(str, segs)), trunc, d, ' '.join('%d:%d' % m for m in msgs)), meta))
    return cases


# ------------------------------------------------------------------------------------------
def run_go(ctx, lines, tag, race=True):
    inp = '%s/%s.in' % (ctx.work, tag)
    out = '%s/%s.go.out' % (ctx.work, tag)
    open(inp, 'w').write('\n'.join(lines) + '\n')
    if os.path.exists(out):
        os.remove(out)
    rc, log, dt = vlib.go_test(ctx, 'common', 'TestVerifC05', files=['c05_test.go'],
                               env=dict(VERIF_IN=inp, VERIF_OUT=out), race=race, timeout=600)
    return rc, log, vlib.read_lines_by_id(out)


def run_model(ctx, lines, tag):
    inp = '%s/%s.model.in' % (ctx.work, tag)
    out = '%s/%s.model.out' % (ctx.work, tag)
    open(inp, 'w').write('\n'.join(lines) + '\n')
    rc, err = vlib.run_model('c05', inp, out)
    return rc, err, vlib.read_lines_by_id(out)


def split_pieces(rng, l, t, upto=None):
    """a random way the message reader may hand out the first [upto] bytes of payload(l,t):
    a list of model pieces len:tag:off:n"""
    n = l if upto is None else upto
    if n == 0:
        return []
    cuts = sorted(set(rng.randrange(1, n) for _ in range(rng.randrange(0, 4)))) if n > 1 else []
    edges = [0] + cuts + [n]
    return ['%d:%d:%d:%d' % (l, t, a, b - a) for a, b in zip(edges, edges[1:])]


def evaluate(ctx, cases, tag, race=True):
    lines = [c[2] for c in cases]
    rc, log, impl = run_go(ctx, lines, tag, race)
    mlines, expect = [], {}
    out = {}
    stats = collections.Counter()
    rng = ctx.rng
    for cid, kind, line, meta in cases:
        r = dict(go=impl.get(cid), oracle=None, mismatch=None, line=line)
        out[cid] = r
        if r['go'] is None:
            continue
        toks = r['go'].split()
        if kind == 'X':
            r['oracle'] = x_oracle(meta, toks)
            mlines.append(line); expect[cid] = (cid, r['go'])
            for t in toks:
                stats['tls/' + (t[:2] if t[0] in 'de' else t[0])] += 1
        elif kind == 'R':
            mlines.append(line); expect[cid] = (cid, r['go'])
            for t in toks:
                stats['malformed/' + t[:2]] += 1
        elif kind == 'C':
            r['oracle'] = c_oracle(meta, toks)
            d = dict(t.split(':', 1) for t in toks)
            stats['conc/' + d.get('parse', '?')[:2]] += 1
            if d.get('parse', '').startswith('ok'):
                # the schedule read off the wire is the model's input
                sched = d['sched'].split(',') if d['sched'] != '-' else []
                switches = sum(1 for a, b in zip(sched, sched[1:]) if a != b)
                stats['conc/writer-switches'] += switches
                mlines.append('%s C %s %s' % (cid, d['sched'], line.split(' ', 2)[2]))
                expect[cid] = (cid, 'wire:%s n:%d left:0' % (d['wire'], len(sched)))
        else:
            r['oracle'] = s_oracle(meta, toks)
            for t in toks:
                stats['ws/' + t[:2]] += 1
            for k, (e, (l, t)) in enumerate(zip(s_expect(meta), meta['msgs'])):
                if e is None or k >= len(toks):
                    break
                # the model gets the message as pieces; payload pieces must be expressible as len:tag,
                # so the split is: whole message, or (for a cut message) the part that arrived + failure
                if e[0] == 'exact':
                    for v in range(2):   # two different ways of handing the message out piecewise
                        mid = '%s.m%d.v%d' % (cid, k, v)
                        mlines.append('%s S %d 1 %s' % (mid, meta['buflen'], ' '.join(split_pieces(rng, l, t))))
                        expect[mid] = (cid, toks[k])
                elif e[1] < meta['buflen'] and 0 < e[1] < l:
                    mid = '%s.m%d' % (cid, k)
                    mlines.append('%s S %d 1 %s E' % (mid, meta['buflen'], ' '.join(split_pieces(rng, l, t, e[1]))))
                    expect[mid] = (cid, toks[k])
    mrc, merr, model = run_model(ctx, mlines, tag)
    for mid, (cid, exp) in expect.items():
        mo = model.get(mid)
        if mo is None:
            continue
        if mo != exp and out[cid]['mismatch'] is None:
            out[cid]['mismatch'] = (mid, exp, mo)
    return dict(rc=rc, log=log, mrc=mrc, merr=merr, res=out, stats=stats, nmodel=len(model))


def rebuild(case, meta):
    cid, kind = case[0], case[1]
    if kind == 'X':
        return (cid, kind, x_line(cid, meta), meta)
    return case


def shrink_x(ctx, case, pred, budget_s=25):
    """greedy batch shrinking of a TLS exchange: drop cuts, drop messages, drop truncation"""
    t0 = time.time()
    cid, kind, line, meta = case
    for rnd in range(10):
        if time.time() - t0 > budget_s:
            break
        cands = []
        for i in range(len(meta['cuts'])):
            cands.append(dict(meta, cuts=meta['cuts'][:i] + meta['cuts'][i + 1:]))
        for i in range(len(meta['msgs'])):
            if len(meta['msgs']) > 1:
                cands.append(dict(meta, msgs=meta['msgs'][:i] + meta['msgs'][i + 1:], cuts=[], trunc=-1))
                cands.append(dict(meta, msgs=meta['msgs'][:i] + meta['msgs'][i + 1:]))
        if meta['trunc'] >= 0:
            cands.append(dict(meta, trunc=-1))
        for i, (l, t) in enumerate(meta['msgs']):
            if l > 8:
                cands.append(dict(meta, msgs=meta['msgs'][:i] + [(l // 2, t)] + meta['msgs'][i + 1:]))
        if not cands:
            break
        cs = [('%s_%d_%d' % (cid, rnd, j), 'X', None, m) for j, m in enumerate(cands)]
        cs = [rebuild(c, c[3]) for c in cs]
        ev = evaluate(ctx, cs, 'shrink', race=False)
        good = [c for c in cs if pred(ev['res'][c[0]])]
        if not good:
            break
        meta = min(good, key=lambda c: len(c[2]))[3]
    return rebuild((cid, kind, None, meta), meta)


def correspondence(ctx, verdict, pr):
    res = dict(broken=[])
    cases = []
    cdir = vlib.V + '/corpus/C05'
    if os.path.isdir(cdir):
        for fn in sorted(os.listdir(cdir)):
            c = json.load(open(os.path.join(cdir, fn)))
            cases.append((c['id'], c['kind'], c['line'], c['meta']))
    ncorpus = len(cases)
    cases += gen_cases(ctx)
    ev = evaluate(ctx, cases, 'cases')
    if ev['rc'] != 0:
        res['broken'].append(('Go driver TestVerifC05 failed to build or run (the run includes the race detector)', ev['log'][-3000:]))
    if ev['mrc'] != 0:
        res['broken'].append(('extracted model c05 failed', ev['merr'][-2000:]))
    byid = {c[0]: c for c in cases}
    orc = [cid for cid, r in ev['res'].items() if r['go'] is not None and r['oracle']]
    mism = [cid for cid, r in ev['res'].items() if r['mismatch']]
    missing = [cid for cid, r in ev['res'].items() if r['go'] is None]
    if missing and ev['rc'] == 0:
        res['broken'].append(('Go driver produced no output for %d cases' % len(missing), ' '.join(missing[:10])))
    reported = 0
    # one report per kind of failing case, smallest first
    seen_kinds = set()
    for cid in sorted(orc, key=lambda c: len(byid[c][2])):
        kind = byid[cid][1]
        if kind in seen_kinds or reported >= 2:
            continue
        seen_kinds.add(kind)
        case = byid[cid]; r = ev['res'][cid]
        if kind == 'X' and reported == 0:
            small = shrink_x(ctx, case, lambda x: x['go'] is not None and x['oracle'] is not None)
            ev2 = evaluate(ctx, [small], 'shrunk', race=False)
            r2 = ev2['res'][small[0]]
            if r2['go'] is not None and r2['oracle']:
                case, r = small, r2
        sig = {'X': 'tls:', 'C': 'concurrent:', 'S': 'ws:'}[kind] + re.sub(r'\d+', 'N', r['oracle'])[:80]
        verdict.oracle_failure(sig, 'C05 oracle: ' + r['oracle'],
                               dict(case=case[2], kind=kind, meta=case[3], implementation=r['go'], model_mismatch=r['mismatch'],
                                    how='python3 tools/check.py C05 --replay <this file>  (runs the line through TestVerifC05 with go test -overlay [-race] and through ocaml/bin/c05)'))
        reported += 1
    if mism and ev['rc'] == 0 and ev['mrc'] == 0:
        cid = min(mism, key=lambda c: len(ev['res'][c]['line']))
        r = ev['res'][cid]
        res['broken'].append(('model Record.v vs implementation: %d of %d cases differ' % (len(mism), len(cases)),
                              'smallest differing case: %s\nmodel case %s\nimplementation: %s\nmodel:          %s' % (
                                  r['line'][:2000], r['mismatch'][0], r['mismatch'][1][:1500], r['mismatch'][2][:1500])))
    kinds = [c[3]['kind'] for c in cases]
    distinct = set()
    for cid, kind, line, meta in cases:
        g = ev['res'][cid]['go']
        if g is None:
            continue
        nontrivial = {'X': ' d:' in g or ' e' in g, 'R': True, 'C': 'parse:' in g, 'S': True}[kind]
        if nontrivial:
            distinct.add(line.split(' ', 1)[1])
    sizes = collections.Counter()
    for c in cases:
        if c[1] == 'X':
            for l, _ in c[3]['msgs']:
                sizes['len=' + (str(l) if l in (0, 1, 5, 16384, 16640, 16641) else ('<300' if l < 300 else 'other'))] += 1
            b = c[3]['buflen']; mx = max([l for l, _ in c[3]['msgs'] if l <= LIMIT] or [0])
            sizes['buffer ' + ('<5' if b < 5 else ('< largest record' if b < mx else ('= largest record' if b == max(5, mx) else '> largest record')))] += 1
            sizes['cuts=%s' % (len(c[3]['cuts']) if len(c[3]['cuts']) < 3 else '3+')] += 1
            sizes['eos ' + ('at end' if c[3]['trunc'] < 0 else 'inside')] += 1
    verdict.cov.update(
        evaluations=len(cases), distinct_nontrivial=len(distinct),
        rule='TLS: every single cut position and every pair of cut positions of %d short exchanges (<= 64 wire bytes, incl. empty messages), byte-wise segmentation, end of stream at every position; %d seeded multi-cut exchanges (lengths 0,1,5,16384,16640,16641 and random, cuts clustered around record boundaries, reader buffers <5 / < record / = record / larger, end of stream inside header/body in 20%%); malformed wire bytes; '
             'concurrent writers: 2-8 goroutines x 5-39 distinct messages through one TLSConn under -race, the wire parsed back and the observed schedule replayed on the model; '
             'WebSocketConn over a gorilla client/server pair on a segmenting duplex conn, message sizes around the reader buffer, both directions, end of stream mid-message in 20%%. '
             'distinct = distinct case lines; all cases are non-trivial (at least one read or one parsed wire)' % (
                 len(set(k for k in kinds if k.startswith('tls/exhaustive'))), sum(1 for k in kinds if k == 'tls/seeded')),
        samples=[cases[ncorpus + 300][2][:300], [c for c in cases if c[1] == 'X' and c[3]['kind'] == 'tls/seeded'][3][2][:300],
                 [c for c in cases if c[1] == 'C'][0][2][:300], [c for c in cases if c[1] == 'S'][0][2][:300]],
        traces_validated_against_impl=ev['nmodel'],
        mismatches=len(mism), oracle_failures=len(orc), race_detector=True,
        input_distribution=dict(case_kinds=vlib.summarize_dist(kinds), observations=dict(sorted(ev['stats'].items())),
                                tls_parameters=dict(sorted(sizes.items()))),
        corpus_cases=ncorpus, exhaustive=False)
    return res


def replay(ctx, verdict):
    r = ctx.replay
    if not r.get('case'):
        print(json.dumps(r, indent=1)[:4000]); return 0
    line = r['case']
    case = (line.split()[0], r['kind'], line, r['meta'])
    if r['kind'] == 'X':
        case[3]['msgs'] = [tuple(m) for m in case[3]['msgs']]
    ev = evaluate(ctx, [case], 'replay', race=(r['kind'] == 'C'))
    x = ev['res'][case[0]]
    print('case:          ', x['line'][:3000])
    print('implementation:', (x['go'] or '')[:3000])
    print('model mismatch:', x['mismatch'])
    print('oracle:', x['oracle'])
    return 1 if (x['oracle'] or x['go'] is None) else 0


MANIFEST = dict(
    technique='Coq proof that TLSConn.Read over io.ReadFull depends only on the concatenated byte stream (induction over the chunk list), round trip with TLSConn.Write by induction over the message list, schedule semantics for concurrent writers, loop invariant for the WebSocket adapter; model tied to the code by differential execution (extracted OCaml vs in-package Go driver on the real TLSConn / WebSocketConn over harness-owned segmenting connections, race detector on)',
    level_text='Theorems C05_one_write_one_read, C05_segmentation_irrelevant, C05_oversize_is_error, C05_no_interleave and C05_ws_whole_or_error are proved in Coq for every message list (lengths 0..limit), every segmentation of the byte stream, every reader buffer size, every number of writers and every schedule of their Write calls (no bound). The model (coq/Model/Record.v) is hand-written; on every run every single and every pair of cut positions of short exchanges, ~1500 seeded multi-cut exchanges, malformed streams, concurrent writers under the race detector and WebSocket exchanges over gorilla/websocket are executed on the real code and on the extracted model and compared; an independent oracle re-parses the wire.',
    level_note='Trusted: Coq kernel; extraction (ExtrOcamlBasic); net.Conn.Write is an atomic append and Read returns a prefix of the pending bytes (section hypothesis of the design, not modelled further); gorilla/websocket, net/http are black boxes; loopback TCP is not used (the in-memory conn dictates the segmentation instead).',
    design_ref='DESIGN.md section 6, C05')


# ---- concurrency windows (tools/props/winlib.py): two writers on one connection, one parked inside the underlying Write
import winlib

TRUSTED = TRUSTED + ['schedule control of the window drivers: a goroutine is parked inside a call through a seam the harness owns (the underlying net.Conn of the WebSocketConn / TLSConn); "the other goroutine has returned or is blocked on a lock" is read off runtime.Stack wait states; outcomes are judged by the property predicate only', 'hand-written model coq/Model/WsWriters.v of the write side of WebSocketConn (writers as threads, writeM as explicit state, a message = one or more frames = one underlying Write each; gorilla/websocket itself is a black box); that WebSocketConn.Write really holds writeM around WriteMessage is the generated obligation (lockscan) and is exercised by the parked-writer schedules']
MANIFEST = dict(MANIFEST, level_note=MANIFEST['level_note'] + ' Concurrent writers: writer A parked inside the underlying Write while writer B writes, WebSocketConn in both roles and TLSConn (harness/common/c05_win_test.go); C05_ws_no_interleave is the theorem about the write mutex, that Write holds it is the generated obligation of Proofs/AtomWire.')
_corr_before_windows = correspondence
_replay_before_windows = replay


def correspondence(ctx, verdict, pr):
    res = _corr_before_windows(ctx, verdict, pr)
    res['broken'] += winlib.c05_windows(ctx, verdict)
    return res


def replay(ctx, verdict):
    if ctx.replay.get('kind') == 'window':
        return winlib.replay(ctx, verdict)
    return _replay_before_windows(ctx, verdict)


def search(ctx, verdict, problems):
    return winlib.search(ctx, verdict, problems)


# ---- "one write = one read, whole": the receive loop (switchboard.deplex) hands every Read result to the session as one
# frame, so what TLSConn.Read returns together with an ERROR (a record cut short by a connection drop) must not be
# handed on.  The receive-loop driver of C11 (harness/multiplex/c11_loop_test.go, winlib.c11_loop) has that family.
_corr_before_loop = correspondence
_replay_before_loop = replay


def correspondence(ctx, verdict, pr):
    res = _corr_before_loop(ctx, verdict, pr)
    import winlib
    res['broken'] += winlib.c11_loop(ctx, verdict)
    return res


def replay(ctx, verdict):
    if ctx.replay.get('kind') == 'window' and ctx.replay.get('driver') == 'c11':
        import winlib
        return winlib.replay(ctx, verdict)
    return _replay_before_loop(ctx, verdict)
