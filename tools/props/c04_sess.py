"""C04, part B: the size clause on real Sessions built with a CONFIGURED on-wire limit.

Cases: a Session pair built by MakeSession with one of a family of limits (the value the commands
configure, the default, small ones, the boundary values of the header/tag/padding arithmetic), one
stream, Stream.Write / ReadFrom traffic of sizes around 1x..3x the per-frame maximum, Stream.Close,
Session.Close, through a connection pair owned by the Go driver (harness/multiplex/c04_sess_test.go).
Every message on the wire is compared with the extracted model (Model/SessionLimit.v: make_session,
stream_write_plan, read_from_plan, closing_notice_plan) and judged by an oracle that knows only the
property text and the Cloak-v2 header layout (pure-Python Salsa20)."""
import os, re, json, hashlib, random
import vlib

HDR, MAXEXTRA, PADFIRST = 14, 255, 5
TAG = {0: 8, 1: 16, 2: 16, 3: 16}
MNAME = {0: 'plain', 1: 'aes-256-gcm', 2: 'chacha20-poly1305', 3: 'aes-128-gcm'}
DEFAULT_LIMIT = (1 << 14) + 256      # RFC 8446 5.2: what a session falls back to when no limit is configured
OVERHEAD = HDR + MAXEXTRA            # a frame of p payload bytes may grow to p + 269 bytes
NOTICE_MAX = HDR + 256 + MAXEXTRA    # largest closing notice


def limits_in_commands():
    """the limits ck-client (internal/client/connector.go) and ck-server (internal/server/dispatcher.go) configure:
    appDataMaxLength of the two packages, as printed by the Go compiler into Gen/Consts.v"""
    vals = []
    try:
        txt = open(vlib.COQ + '/Gen/Consts.v').read()
        for name in ('client_appDataMaxLength', 'server_appDataMaxLength'):
            m = re.search(r'Definition %s : Z := (-?\d+)\.' % name, txt)
            if m:
                vals.append(int(m.group(1)))
    except OSError:
        pass
    return vals or [16401, 16401]


def eff_limit(L):
    return L if L > 0 else DEFAULT_LIMIT


def pattern(seed, op, n):
    return bytes((j * 131 + op * 17 + (j >> 8) * 7 + seed) & 0xff for j in range(n))


# ---- case generation ---------------------------------------------------------------------------
def limit_family(quick):
    cmd = limits_in_commands()
    fam = []
    for L in cmd:
        fam.append((L, 'commands'))
    fam += [(0, 'default'), (-7, 'default'), (DEFAULT_LIMIT, 'default-explicit'), (20480, 'receive-buffer'),
            (300, 'small'), (600, 'small'), (1024, 'small'), (4096, 'small'),
            (OVERHEAD - 1, 'boundary'), (OVERHEAD, 'boundary'), (OVERHEAD + 1, 'boundary'), (OVERHEAD + 2, 'boundary'),
            (OVERHEAD + 16, 'boundary'), (OVERHEAD + 17, 'boundary'), (1, 'boundary'), (22, 'boundary'), (23, 'boundary'),
            (NOTICE_MAX - 1, 'boundary'), (NOTICE_MAX, 'boundary'), (NOTICE_MAX + 1, 'boundary')]
    if not quick:
        fam += [(L, 'sweep') for L in list(range(255, 300)) + list(range(515, 535)) + [2048, 8192, 12000, 16400, 16402, 16639]]
    seen, out = set(), []
    for L, k in fam:
        if (L, k == 'commands') in seen:
            continue
        seen.add((L, k == 'commands'))
        out.append((L, k))
    return out


def gen_cases(rng, quick):
    cases = []
    fam = limit_family(quick)
    nid = [0]
    for L, kind in fam:
        eff = eff_limit(L)
        u = eff - OVERHEAD
        big = eff > 8000
        for m in range(4):
            for unordered in (0, 1):
                if big and kind not in ('commands', 'receive-buffer') and (m + unordered + len(cases)) % 2 == 0 and quick:
                    continue        # the large non-command limits: half of the (method, mode) grid per run
                bound = MAXEXTRA - TAG[m] + 1
                script = [bound - 1 if rng.random() < 0.6 else rng.randrange(256)]
                script += [rng.choice([0, bound - 1, bound - 2, 1, 0xff, rng.randrange(256), rng.randrange(bound)])
                           for _ in range(rng.randrange(3, 9))]
                ops = []
                if u >= 1:
                    pool = sorted(set(x for x in (1, 2, u - 1, u, u + 1, 2 * u - 1, 2 * u, 2 * u + 1, 3 * u - 1, 3 * u, 3 * u + 1) if x >= 1))
                    if unordered:
                        first = rng.choice([u, u, max(1, u - 1)])
                        rest = [rng.choice([u + 1, 2 * u, 3 * u + 1]), rng.choice(pool[:4]), rng.choice([u, u + 1, max(1, u - 1)])]
                        if not big:
                            rest.append(rng.choice(pool))
                    else:
                        first = rng.choice([u, u + 1, 2 * u + 1, 3 * u, 3 * u + 1])
                        rest = [rng.choice(pool) for _ in range(1 if big else 3)]
                    ops = ['W:%d' % first] + ['W:%d' % x for x in rest]
                    sizes = [rng.choice([u + 10, u, max(1, u - 1), 1, 3, max(1, u // 2)]) for _ in range(rng.randrange(1, 4))]
                    if rng.random() < 0.15:
                        sizes.append(0)           # a reader may return 0, nil: ReadFrom then cuts an empty frame
                    avail = sum(min(s, u) for s in sizes) + rng.choice([0, 0, 5])
                    ops.insert(rng.randrange(1, len(ops) + 1), 'R:%d:%s' % (max(avail, 1), ','.join(map(str, sizes))))
                else:
                    ops = ['W:%d' % rng.choice([1, 5, 300]), 'R:10:5,5', 'W:1']
                ops.append('X')
                c = dict(id='q%d' % nid[0], kind='session/' + kind, m=m, key=rng.randbytes(32), limit=L, unordered=unordered,
                         script=bytes(script), seed=rng.randrange(1, 200), ops=ops)
                nid[0] += 1
                cases.append(c)
    return cases


def go_line(c):
    return '%s SESS %d %s %d %d %s %d %s' % (c['id'], c['m'], c['key'].hex(), c['limit'], c['unordered'],
                                            c['script'].hex() or '-', c['seed'], ' '.join(c['ops']))


def short(c):
    return {k: (v.hex() if isinstance(v, bytes) else v) for k, v in c.items()}


# ---- parsing what the Go driver reports -----------------------------------------------------------
def parse_go(out):
    """-> dict(cfg=[..] | None, ops={name: dict(n, end, msgs=[bytes], single=bytes, offered=[int])}, peer=dict|None, raw)"""
    d = dict(cfg=None, ops={}, order=[], peer=None, raw=out)
    for tok in out.split():
        k, _, v = tok.partition('=')
        if k == 'cfg':
            try:
                d['cfg'] = [int(x) for x in v.split(',')]
            except ValueError:
                d['cfg'] = None
                d['cfgraw'] = v
        elif k == 'peer':
            f = v.split('|')
            d['peer'] = dict(accepted=f[0] == '1', sid=f[1], n=int(f[2]), sha=f[3],
                             sizes=[] if f[4] == '-' else [int(x) for x in f[4].split(',')], end=f[5])
        elif k and (k[0] in 'WRX' or k in ('KS', 'KC')):
            f = v.split('|')
            o = dict(n=int(f[0]), end=f[1], msgs=[] if f[2] == '-' else [bytes.fromhex(x) for x in f[2].split('/')],
                     single=b'' if f[3] == '-' else bytes.fromhex(f[3]), offered=[])
            if len(f) > 4 and f[4] != '-':
                o['offered'] = [int(x) for x in f[4].split(',')]
            d['ops'][k] = o
            d['order'].append(k)
    return d


def end_class(e):
    return e.split(':')[0]


def headers(c, o, py_header):
    """independent Cloak-v2 header decode of every message of an operation: (sid, seq, closing, extra, payload length)"""
    hs = []
    for msg in o['msgs']:
        if len(msg) < HDR + 8:
            hs.append(None)
            continue
        sid, seq, closing, extra = py_header(c['key'], msg)
        hs.append((sid, seq, closing, extra, len(msg) - HDR - extra))
    return hs


# ---- the oracle: the property text, nothing of the model --------------------------------------------
def oracle(c, g, py_header):
    """-> list of (signature, what, offending message bytes or None)"""
    fails = []
    L, m = c['limit'], c['m']
    eff = eff_limit(L)
    maxpay = eff - OVERHEAD
    tag = TAG[m]
    if g['cfg'] is None:
        return [('session-setup', 'MakeSession / OpenStream failed for limit %d: %s' % (L, g.get('cfgraw', g['raw'][:100])), None)]
    accepted = []       # (op index, bytes accepted) in order
    first_bad = None
    for name in g['order']:
        o = g['ops'][name]
        kind = name[0] if name[0] in 'WRX' else name
        idx = int(name[1:]) if name[0] in 'WRX' else -1
        hs = headers(c, o, py_header)
        for msg, h in zip(o['msgs'], hs):
            where = '%s of a session configured with MsgOnWireSizeLimit=%d (%s, %s)' % (
                name, L, MNAME[m], 'unordered' if c['unordered'] else 'ordered')
            if len(msg) > eff:
                fails.append(('session-size-limit', 'message of %d bytes on the wire exceeds the configured limit %d: %s'
                              % (len(msg), eff, where), msg))
            if h is None:
                fails.append(('session-layout', 'message of %d bytes is shorter than a header plus nonce: %s' % (len(msg), where), msg))
                continue
            sid, seq, closing, extra, plen = h
            if not (tag <= extra <= MAXEXTRA) or plen < 1:
                fails.append(('session-layout', 'header says extra=%d (tag %d), leaving %d payload bytes: %s' % (extra, tag, plen, where), msg))
                continue
            if extra - tag > 0 and seq >= PADFIRST:
                fails.append(('session-padding-threshold', 'frame with seq=%d carries %d bytes of padding: %s' % (seq, extra - tag, where), msg))
            want_closing = {'W': 0, 'R': 0, 'X': 1, 'KS': 2, 'KC': 2}[kind]
            want_sid = 0xffffffff if kind in ('KS', 'KC') else 1
            if closing != want_closing or sid != want_sid:
                fails.append(('session-header', 'header reads sid=%x closing=%d, expected sid=%x closing=%d: %s'
                              % (sid, closing, want_sid, want_closing, where), msg))
            if kind in 'WR' and plen > max(maxpay, 0):
                fails.append(('session-frame-maximum', 'frame carries %d payload bytes, the per-frame maximum for limit %d is %d: %s'
                              % (plen, eff, maxpay, where), msg))
        if kind in ('W', 'R'):
            spec = c['ops'][idx].split(':')
            want = int(spec[1])
            data = pattern(c['seed'], idx, want)
            plens = [h[4] for h in hs if h is not None]
            if sum(plens) != o['n'] and all(h is not None for h in hs):
                fails.append(('session-accounting', '%s returned n=%d but its %d messages carry %d payload bytes'
                              % (name, o['n'], len(hs), sum(plens)), None))
            if m == 0:      # plain: the payload is readable
                off = 0
                for msg, h in zip(o['msgs'], hs):
                    if h is None:
                        break
                    if msg[HDR:HDR + h[4]] != data[off:off + h[4]]:
                        fails.append(('session-payload', '%s: the plain payload of a message is not the next %d bytes written' % (name, h[4]), msg))
                        break
                    off += h[4]
            if kind == 'W':
                if not c['unordered'] and maxpay >= 1:
                    if o['n'] != want or o['end'] != 'ok':
                        fails.append(('session-write-refused', 'Stream.Write of %d bytes on an ordered session with limit %d returned n=%d, %s'
                                      % (want, eff, o['n'], o['end']), None))
                if c['unordered'] and maxpay >= 1:
                    if want <= maxpay and (o['n'] != want or o['end'] != 'ok' or len(o['msgs']) != 1):
                        fails.append(('session-write-refused', 'Stream.Write of %d bytes (maximum %d) on an unordered session returned n=%d, %s, %d messages'
                                      % (want, maxpay, o['n'], o['end'], len(o['msgs'])), None))
                    if want > maxpay and (o['msgs'] or o['n'] != 0):
                        fails.append(('session-datagram-split', 'Stream.Write of %d bytes (maximum %d) on an unordered session sent %d messages, n=%d'
                                      % (want, maxpay, len(o['msgs']), o['n']), o['msgs'][0] if o['msgs'] else None))
            if kind == 'R':
                for off_len in o['offered']:
                    if off_len > max(maxpay, 0):
                        fails.append(('session-frame-maximum', 'ReadFrom offered its reader a %d-byte buffer, the per-frame maximum for limit %d is %d'
                                      % (off_len, eff, maxpay), None))
                        break
            accepted.append((idx, data[:max(0, min(o['n'], want))]))
            # a frame that could not be encoded (empty payload) consumes no sequence number: what is written
            # afterwards must still arrive, so 'obfs' does not excuse a loss
            bad = end_class(o['end']) not in ('ok', 'eof', 'short', 'obfs')
            if bad and first_bad is None:
                first_bad = len(accepted) - 1
        if kind == 'X' and eff >= NOTICE_MAX:
            if o['end'] != 'ok' or len(o['msgs']) != 1:
                fails.append(('session-close-refused', 'Stream.Close on a session with limit %d: %s, %d messages' % (eff, o['end'], len(o['msgs'])), None))
    # what the peer session delivered
    p = g['peer']
    if p is not None and maxpay >= 1:
        alld = [d for _, d in accepted]
        cands = []
        lo = len(alld) if first_bad is None else first_bad
        for j in range(lo, len(alld) + 1):
            cands.append(b''.join(alld[:j]))
        shas = {hashlib.sha256(x).hexdigest(): len(x) for x in cands}
        got_n = p['n'] if p['accepted'] else 0
        got_sha = p['sha'] if p['accepted'] else hashlib.sha256(b'').hexdigest()
        if got_sha not in shas:
            fails.append(('session-peer-roundtrip', 'the peer session delivered %d bytes (sha256 %s..), the stream had accepted %s bytes: not the bytes written'
                          % (got_n, got_sha[:12], '/'.join(str(len(x)) for x in cands)), None))
        elif c['unordered'] and first_bad is None:
            want_sizes = [len(d) for _, d in accepted if len(d) > 0]
            # ReadFrom sends one datagram per Read: take the frame sizes from the wire for those
            sizes = []
            for name in g['order']:
                if name[0] in 'WR':
                    sizes += [h[4] for h in headers(c, g['ops'][name], py_header) if h is not None]
            if p['sizes'] != sizes:
                fails.append(('session-peer-boundaries', 'unordered peer read datagrams of %s bytes, frames carried %s' % (p['sizes'][:8], sizes[:8]), None))
    return fails


# ---- model line from the observations ------------------------------------------------------------------
def model_line(c, g, py_header):
    tag = TAG[c['m']]
    ops = []
    names = []
    for name in g['order']:
        o = g['ops'][name]
        hs = headers(c, o, py_header)
        pads = [max(0, h[3] - tag) if h is not None else 0 for h in hs]
        ps = ','.join(map(str, pads)) or '-'
        if name[0] == 'W':
            ops.append('W:%s:%s' % (c['ops'][int(name[1:])].split(':')[1], ps))
        elif name[0] == 'R':
            sp = c['ops'][int(name[1:])].split(':')
            ops.append('R:%s:%s:%s' % (sp[1], sp[2] or '-', ps))
        else:
            if end_class(o['end']) == 'closed':
                continue                      # the session had been closed by the peer's notice: nothing is built
            single = o['single']
            b = single[0] if single else 0
            rest = single[(2 if b == 0 else 1):]
            draw = pads[0] if pads else (rest[-1] if rest else 0)
            ops.append('%s:%d:%d' % ('X' if name[0] == 'X' else 'K', b, draw))
        names.append(name)
    return '%s SESS %d %d %d %s' % (c['id'], c['m'], c['limit'], c['unordered'], ' '.join(ops)), names


def compare(c, g, mo, names, py_header):
    """model output vs the implementation on the projected observables -> list of differences"""
    diffs = []
    toks = mo.split()
    md = {}
    for t in toks:
        k, _, v = t.partition('=')
        md[k] = v
    if g['cfg'] is None:
        return ['MakeSession failed: ' + g['raw'][:80]]
    if md.get('cfg') != ','.join(map(str, g['cfg'])):
        diffs.append('MakeSession sizes (limit, maxStreamUnitWrite, streamSendBufferSize, connReceiveBufferSize): model %s, implementation %s'
                     % (md.get('cfg'), ','.join(map(str, g['cfg']))))
    mops = [t for t in toks if t.partition('=')[0] not in ('cfg', 'offer')]
    seq = 0
    for name, mt in zip(names, mops):
        o = g['ops'][name]
        f = mt.partition('=')[2].split('|')
        hs = headers(c, o, py_header)
        got = ','.join('%d:%d' % (h[4], len(msg)) if h is not None else '?:%d' % len(msg) for msg, h in zip(o['msgs'], hs)) or '-'
        gend = end_class(o['end'])
        if (str(o['n']), gend, got) != (f[0], f[1], f[2]):
            diffs.append('%s: model n=%s %s frames(payload:message)=%s, implementation n=%d %s %s'
                         % (name, f[0], f[1], f[2][:120], o['n'], o['end'][:60], got[:120]))
        if name[0] in 'WRX':
            if hs and hs[0] is not None and hs[0][1] != seq:
                diffs.append('%s: first frame carries seq=%d, the model\'s counter is at %d' % (name, hs[0][1], seq))
            seq = int(f[3], 16)
        if name[0] == 'R':
            offer = md.get('offer')
            want = [] if offer == 'panic' else None
            if offer != 'panic' and any(x != int(offer) for x in o['offered']):
                diffs.append('%s: ReadFrom offered buffers of %s bytes, model maxStreamUnitWrite %s' % (name, o['offered'][:4], offer))
            if want == [] and o['offered']:
                diffs.append('%s: the model panics before the reader is called, the implementation offered %s' % (name, o['offered'][:4]))
    return diffs
