"""Overlapped panel calls through the UserManager seam (shared by c16.py / c17.py; the C19 and C08
counterparts live in their own drivers).

userPanel.Manager is an interface.  The lock-step engine (harness/server/c17_common_test.go) hands the
real panel a wrapper around the real localManager that can hold a scenario thread INSIDE
Manager.AuthenticateUser (step suffix a), Manager.AuthoriseNewSession (s) or Manager.UploadStatus (u)
until the scenario releases it (g<t> / G<t>).  A held thread keeps the locks the code keeps across the
call, so

  D1.1a D1.2ah g0 g1 g1     two first connections of a not-yet-active user, the second arriving while the
                            first is inside AuthenticateUser
  T0.100.0 Ru T1.50.0 U g2  a usage-upload round held inside UploadStatus while more usage is collected

are ordinary deterministic scenarios.  Whether the second caller is "blocked until the first is released"
(the atomic behaviour, read off the goroutine states) or gets through is part of the observation; the
model (Model/Panel.v, park points Model/PanelPark.v) runs the same steps with the thread stopped at D1 /
D3 / M8 and says what the atomic code does.

Structural rules that keep a scenario deterministic on the unchanged code (each was derived from which
continuations commute, see the comments at the blocks):
  * while a thread is held inside AuthenticateUser / AuthoriseNewSession at most ONE other operation that
    needs the lock it keeps is started before it is released;
  * an overlapping dispatch is always armed for the schedule point dispatch.gotUser too (suffix h), so
    that the two dispatches never create their sessions concurrently (sessions are numbered in creation
    order);
  * commitUpdate never overlaps a held dispatch (its bolt transaction would race with the dispatch's);
  * the users of the seeded family have ample caps and credits, so no TERMINATE verdict interferes; the
    hand-written cases cover exhaustion during an upload.
"""
import itertools


class Build:
    """scenario builder that tracks thread and session numbering (sessions are tracked as the UNCHANGED
    code creates them: ample caps, so every dispatch of a new (uid, sid) creates one)"""

    def __init__(self, users):
        self.users = users
        self.steps = []
        self.nthr = 0
        self.nses = 0
        self.live = {}          # (uid, sid) -> k  among sessions not closed by a C step
        self.owner = {}         # k -> uid
        self.pending = []       # threads that may still be parked: (thread, max parks left)

    def thr(self, step, parks=0):
        self.steps.append(step)
        t = self.nthr
        self.nthr += 1
        if parks:
            self.pending.append([t, parks])
        return t

    def env(self, step):
        self.steps.append(step)

    def dispatch(self, u, sd, suffix=''):
        t = self.thr('D%d.%d%s' % (u, sd, suffix), parks=len(suffix))
        if (u, sd) not in self.live:
            self.live[(u, sd)] = self.nses
            self.owner[self.nses] = u
            self.nses += 1
        return t

    def close(self, k):
        self.thr('C%d' % k)
        for key, v in list(self.live.items()):
            if v == k:
                del self.live[key]

    def rel(self, t, strict=False):
        self.env(('G%d' if strict else 'g%d') % t)

    def drain(self):
        """release everything that may still be parked (a thread armed for n points is released n times)"""
        for t, n in self.pending:
            for _ in range(n):
                self.env('G%d' % t)
        self.pending = []

    def live_of(self, u):
        return sorted(k for (uu, _), k in self.live.items() if uu == u)

    def live_not_of(self, u):
        return sorted(k for (uu, _), k in self.live.items() if uu != u)


AMPLE = '1:12:1000000:1000000:100000'
AMPLE2 = '1:12:1000000:1000000:100000,2:12:1000000:1000000:100000'
AMPLE3 = '1:12:1000000:1000000:100000,2:12:1000000:1000000:100000,b9'
AMPLE4 = '1:12:1000000:1000000:100000,2:12:1000000:1000000:100000,3:12:1000000:1000000:100000,b9'


def exhaustive():
    """the small exhaustive families: -> [(id, users, steps, kind)]"""
    cases = []

    # ---- GU: two first connections of one user; thread 0 held inside AuthenticateUser, thread 1 arrives
    # (same or another session id), every release order of length 3, then everything is drained.
    # Property text (C17 / C19 / C15): one record per UID, every live session reachable from it, one valve.
    for sd2 in (1, 2):
        for order in itertools.product((0, 1), repeat=3):
            b = Build(AMPLE)
            b.dispatch(1, 1, 'a')
            b.dispatch(1, sd2, 'ah')
            for t in order:
                b.rel(t)
            b.drain()
            b.env('T0.40.3'); b.env('T1.60.0')
            b.thr('R'); b.thr('R')
            b.close(0); b.close(1)
            b.thr('R'); b.thr('R')
            cases.append(('ovGU_%d_%s' % (sd2, ''.join(map(str, order))), b.users, b.steps, 'overlap-getuser'))
    # three first connections, two of them arriving while the first is held (the second waiter is started
    # only after the first waiter has been seen blocked / parked)
    for order in itertools.permutations((0, 1, 2)):
        b = Build(AMPLE)
        b.dispatch(1, 1, 'a')
        b.dispatch(1, 2, 'ah')
        b.rel(order[0])
        b.dispatch(1, 3, 'ah')
        for t in order[1:]:
            b.rel(t)
        b.drain()
        b.env('T0.10.0'); b.env('T1.20.0'); b.env('T2.30.0')
        b.thr('R'); b.thr('R')
        cases.append(('ovGU3_%s' % ''.join(map(str, order)), b.users, b.steps, 'overlap-getuser'))
    # the other user of the panel arrives / leaves / is collected while the first is held
    for name, mid in (('otherD', lambda b: b.dispatch(2, 2, 'ah')),
                      ('otherC', lambda b: b.close(0)),
                      ('collect', lambda b: b.thr('U')),
                      ('traffic', lambda b: b.env('T0.33.0'))):
        b = Build(AMPLE2)
        b.dispatch(2, 1)                 # thread 0, session 0: user 2 is active
        b.env('T0.25.5')
        t = b.dispatch(1, 1, 'a')
        mid(b)
        b.rel(t)
        b.drain()
        b.env('T1.70.0')
        b.thr('R'); b.thr('R')
        cases.append(('ovGU_' + name, b.users, b.steps, 'overlap-getuser'))

    # ---- UP: a usage-upload round held inside Manager.UploadStatus (no lock is kept) while the queue is used.
    # Property text (C16): every byte carried is charged exactly once.
    def up_case(name, users, mid, second=False, orders=((0,),)):
        for oi, order in enumerate(orders):
            b = Build(users)
            b.dispatch(1, 1); b.dispatch(1, 2)
            b.env('T0.100.7')
            held = [b.thr('Ru', parks=1)]
            mid(b, held)
            for i in order:
                b.rel(held[i])
            b.drain()
            b.thr('R'); b.thr('R')
            cases.append(('ovUP_%s%s' % (name, '_%d' % oi if len(orders) > 1 else ''), b.users, b.steps, 'overlap-upload'))

    up_case('none', AMPLE, lambda b, h: None)
    up_case('traffic', AMPLE, lambda b, h: b.env('T1.50.0'))
    up_case('collect', AMPLE, lambda b, h: (b.env('T1.50.0'), b.thr('U')))
    up_case('collect2', AMPLE, lambda b, h: (b.env('T1.50.0'), b.thr('U'), b.env('T0.5.1'), b.thr('U')))
    up_case('close', AMPLE, lambda b, h: (b.env('T0.30.0'), b.close(0)))
    up_case('terminate', AMPLE, lambda b, h: (b.env('T0.30.0'), b.close(0), b.env('T1.20.0'), b.close(1)))
    up_case('commit', AMPLE, lambda b, h: b.thr('M'))
    up_case('round', AMPLE, lambda b, h: (b.env('T1.50.0'), b.thr('R')))
    up_case('topup', AMPLE, lambda b, h: b.env('Aw1.u500.d500'))
    up_case('rejoin', AMPLE, lambda b, h: (b.close(0), b.close(1), b.dispatch(1, 3), b.env('T2.44.0')))
    up_case('two_rounds', AMPLE, lambda b, h: (b.env('T1.50.0'), h.append(b.thr('Ru', parks=1))), orders=((0, 1), (1, 0)))
    up_case('three_rounds', AMPLE, lambda b, h: (b.env('T1.50.0'), h.append(b.thr('Ru', parks=1)), b.env('T0.9.0'), h.append(b.thr('Ru', parks=1))),
            orders=tuple(itertools.permutations((0, 1, 2))))
    # exhaustion: the held upload leaves 20 bytes of credit, the usage collected meanwhile exhausts it
    up_case('exhaust', '1:6:120:1000000:100000', lambda b, h: (b.env('T1.50.0'), b.thr('U')))
    up_case('exhaust_now', '1:6:90:1000000:100000', lambda b, h: (b.env('T1.50.0'), b.thr('U')))
    up_case('deleted', AMPLE, lambda b, h: b.env('Ad1'))

    # ---- SA: GetSession held inside Manager.AuthoriseNewSession (keeps the record's sessionsM)
    for users, tag in ((AMPLE, 'ample'), ('1:1:1000000:1000000:100000', 'cap1')):
        for sd2 in (1, 2):
            for order in itertools.product((0, 1), repeat=3):
                b = Build(users)
                b.dispatch(1, 1, 's')
                t1 = b.dispatch(1, sd2, 'hs')
                b.rel(t1, strict=False)          # leaves dispatch.gotUser, then waits for sessionsM
                for t in order:
                    b.rel(t)
                b.drain()
                b.env('T0.11.0'); b.env('T1.13.0')
                b.thr('R'); b.thr('R')
                cases.append(('ovSA_%s_%d_%s' % (tag, sd2, ''.join(map(str, order))), b.users, b.steps, 'overlap-authorise'))
    for name, mid in (('close', lambda b: b.close(0)), ('collect', lambda b: (b.env('T0.8.0'), b.thr('U')))):
        b = Build(AMPLE)
        b.dispatch(1, 1)
        t = b.dispatch(1, 2, 's')
        mid(b)
        b.rel(t)
        b.drain()
        b.thr('R'); b.thr('R')
        cases.append(('ovSA_' + name, b.users, b.steps, 'overlap-authorise'))

    # ---- CM: three operations overlapping - commitUpdate reaches a user's NumSession (sessionsM.RLock) while a
    # new session of that user is being authorised by a slow UserManager (GetSession holds sessionsM, held at s),
    # and a WRITER of activeUsersM arrives (a new user's GetUser, or the termination of a bypass user, which does
    # not need usageUpdateQueueM - commitUpdate holds that).  The code as it is has released activeUsersM.RLock
    # before NumSession, so the writer gets through and after the release everything finishes; a read lock kept
    # across NumSession / taken again in isActive lets the pending writer and the nested reader wait for each
    # other for ever (sync.RWMutex: a pending Lock blocks new RLocks).  Property text (C17): after everything
    # held has been released, every started call returns.
    def cm_case(name, queued, held_user, writer, early=None):
        b = Build(AMPLE4)
        byp = b.dispatch(9, 1)
        kb = b.nses - 1
        for u in queued:
            b.dispatch(u, 1)
            b.env('T%d.%d.3' % (b.nses - 1, 40 + 10 * u))
        b.thr('U')                                   # the queue now has an entry per queued user
        hold = b.dispatch(held_user, 2, 's')         # GetSession held inside AuthoriseNewSession: keeps sessionsM
        pre = None
        w = None
        if early:
            # the writer is already waiting when commitUpdate asks for its first read lock: a first connection of
            # user 3 held inside AuthenticateUser keeps activeUsersM meanwhile
            pre = b.dispatch(3, 1, 'a')
            if early == 'writer-first':
                w = writer(b, kb)
                b.thr('M')
            else:
                b.thr('M')
                w = writer(b, kb)
            b.rel(pre)
        else:
            b.thr('M')                               # takes the queue lock, looks the user up, waits for sessionsM
            w = writer(b, kb)
        b.rel(hold)
        b.drain()
        b.thr('R'); b.thr('R')
        cases.append(('ovCM_' + name, b.users, b.steps, 'overlap-commit'))

    # ---- RC: the user's ActiveUser record is REPLACED while an upload round that will answer TERMINATE for it is
    # held inside Manager.UploadStatus (last session closed and the same UID connected again - still admitted, the
    # credit has not been deducted yet; or the user was between connections when the batch was built).  The code as
    # it is looks the UID up again when it acts on the verdict, so the NEW record is terminated.  Property text (C16):
    # once that round is processed the user has no open session; (C17) and none the panel cannot reach.
    def rc_case(name, users, script):
        b = Build(users)
        script(b)
        b.drain()
        b.thr('R'); b.thr('R')
        cases.append(('ovRC_' + name, b.users, b.steps, 'overlap-reconnect'))

    UP90 = '1:12:90:1000000:100000'
    DOWN150 = '1:12:1000000:150:100000'
    EXP100 = '1:12:1000000:1000000:100'

    def reconnect(sid2, users=UP90, traffic='T0.100.7', extra=None):
        def script(b):
            b.dispatch(1, 1); b.env(traffic)
            h = b.thr('Ru', parks=1)
            b.close(0)
            b.dispatch(1, sid2)
            if extra:
                extra(b)
            b.rel(h)
        return users, script
    for name, (users, script) in (
            ('same_sid', reconnect(1)), ('other_sid', reconnect(2)),
            ('down_credit', reconnect(2, DOWN150, 'T0.10.200')),
            ('expired', reconnect(2, EXP100, 'T0.10.3', lambda b: b.env('K200'))),
            ('deleted', reconnect(2, AMPLE, 'T0.10.3', lambda b: b.env('Ad1'))),
            ('zeroed', reconnect(2, AMPLE, 'T0.10.3', lambda b: b.env('Aw1.u0'))),
            ('traffic_on_new', reconnect(2, UP90, 'T0.100.7', lambda b: b.env('T1.30.0'))),
            ('twice', reconnect(2, UP90, 'T0.100.7', lambda b: (b.close(1), b.dispatch(1, 3))))):
        rc_case(name, users, script)

    def reconnect_only(b):
        b.dispatch(1, 1); b.env('T0.100.7'); b.close(0)     # between connections, usage pending in the queue
        h = b.thr('Mu', parks=1)
        b.dispatch(1, 2)
        b.rel(h)
    rc_case('reconnect_only', UP90, reconnect_only)

    def no_replacement(b):
        b.dispatch(1, 1); b.env('T0.100.7')
        h = b.thr('Ru', parks=1)
        b.dispatch(1, 2)                                      # one more session in the SAME record
        b.rel(h)
    rc_case('no_replacement', UP90, no_replacement)

    def two_sessions(b):
        b.dispatch(1, 1); b.dispatch(1, 2); b.env('T0.60.7'); b.env('T1.60.0')
        h = b.thr('Ru', parks=1)
        b.close(0); b.close(1); b.dispatch(1, 3); b.dispatch(1, 4)
        b.rel(h)
    rc_case('two_sessions', UP90, two_sessions)
    for name, users in (('two_users_one_exhausted', '1:12:90:1000000:100000,2:12:1000000:1000000:100000'),
                        ('two_users_both_exhausted', '1:12:90:1000000:100000,2:12:90:1000000:100000')):
        def two_users(b):
            b.dispatch(1, 1); b.dispatch(2, 1); b.env('T0.100.7'); b.env('T1.100.7')
            h = b.thr('Ru', parks=1)
            b.close(0); b.dispatch(1, 2)
            if 'both' in name:
                b.close(1); b.dispatch(2, 2)
            b.rel(h)
        rc_case(name, users, two_users)
    for order in ((0, 1), (1, 0)):
        def two_rounds(b):
            b.dispatch(1, 1); b.env('T0.100.7')
            h = [b.thr('Ru', parks=1)]
            b.close(0); b.dispatch(1, 2); b.env('T1.20.0')
            h.append(b.thr('Ru', parks=1))                    # its batch names the NEW record
            for i in order:
                b.rel(h[i])
        rc_case('two_rounds_%d%d' % order, UP90, two_rounds)

    new_user = lambda b, kb: b.dispatch(2 if (2, 1) not in b.live else 3 if (3, 1) not in b.live else 2, 7 if (2, 1) in b.live and (3, 1) in b.live else 1, 'h')
    term_bypass = lambda b, kb: b.close(kb)
    cm_case('newuser', [1], 1, new_user)
    cm_case('terminate', [1], 1, term_bypass)
    cm_case('two_users_newuser', [1, 2], 1, new_user)
    cm_case('two_users_hold2', [1, 2], 2, new_user)
    cm_case('two_users_terminate', [1, 2], 2, term_bypass)
    cm_case('sameuser_conn', [1], 1, lambda b, kb: b.dispatch(1, 3, 'h'))      # GetUser of an ACTIVE user takes the write lock too
    cm_case('early_commit_first', [1], 1, lambda b, kb: b.dispatch(2, 1, 'h'), early='commit-first')
    cm_case('early_writer_first', [1], 1, lambda b, kb: b.dispatch(2, 1, 'h'), early='writer-first')
    cm_case('early_terminate', [1, 2], 1, term_bypass, early='writer-first')
    return cases


def gen_random(rng, nblocks):
    """a seeded scenario made of overlap blocks separated by ordinary sequential operations"""
    users = rng.choice([AMPLE2, AMPLE2, AMPLE3])
    limited = [1, 2]
    uids = limited + ([9] if 'b9' in users else [])
    b = Build(users)
    nextsid = {u: 1 for u in uids}

    def new_sid(u):
        if rng.random() < 0.2 and nextsid[u] > 1:
            return rng.randrange(1, nextsid[u])
        nextsid[u] += 1
        return nextsid[u] - 1

    def traffic():
        if b.nses:
            b.env('T%d.%d.%d' % (rng.randrange(b.nses), rng.choice([0, 1, 40, 333, 2000]), rng.choice([0, 0, 1, 50, 700])))

    def sequential():
        k = rng.choice('DDTTTCUMRA')
        if k == 'D':
            u = rng.choice(uids)
            b.dispatch(u, new_sid(u))
        elif k == 'T':
            traffic()
        elif k == 'C' and b.live:
            b.close(rng.choice(sorted(b.live.values())))
        elif k in 'UMR':
            b.thr(k)
        elif k == 'A':
            b.env('Aw%d.u1000000.d1000000' % rng.choice(limited))

    b.dispatch(rng.choice(limited), 1)
    nextsid = {u: 2 for u in uids}
    for _ in range(nblocks):
        for _ in range(rng.randrange(0, 4)):
            sequential()
        kind = rng.choice(['A', 'A', 'U', 'U', 'S', 'C', 'C'])
        if kind == 'C':
            # commitUpdate waiting for the sessionsM a held GetSession keeps, a writer of activeUsersM arriving
            u = rng.choice(limited)
            if not b.live_of(u):
                b.dispatch(u, new_sid(u))
            b.env('T%d.%d.%d' % (b.live_of(u)[0], rng.choice([1, 40, 333]), rng.choice([0, 1, 50])))
            b.thr('U')
            t = b.dispatch(u, new_sid(u), 's')
            b.thr(rng.choice(['M', 'M', 'R']))
            x = rng.choice(['D', 'D', 'Db', 'T', '-'])
            tx = None
            if x == 'D':
                v = rng.choice(limited)
                tx = b.dispatch(v, new_sid(v), 'h')
            elif x == 'Db' and 9 in uids:
                tx = b.dispatch(9, new_sid(9), 'h')
            elif x == 'T':
                traffic()
            b.rel(t)
            if tx is not None:
                b.rel(tx, strict=True)
            continue
        if kind == 'A':
            # GetUser held inside AuthenticateUser (keeps activeUsersM when the user is not active yet)
            u = rng.choice(limited)
            if rng.random() < 0.6:
                for k in b.live_of(u):       # make the user inactive first, so that the lookup misses
                    b.close(k)
            t = b.dispatch(u, new_sid(u), 'a')
            x = rng.choice(['D', 'D', 'D', 'U', 'C', 'T', 'A', '-'])
            tx = None
            if x == 'D':
                v = rng.choice([u, u, rng.choice(uids)])
                # another user's dispatch is not held inside AuthenticateUser itself: it would keep
                # activeUsersM while the released holder finishes (the engine reads the table then)
                tx = b.dispatch(v, new_sid(v), 'ah' if v == u else 'h')
            elif x == 'U':
                b.thr('U')
            elif x == 'C':
                others = b.live_not_of(u)
                if others:
                    b.close(rng.choice(others))
            elif x == 'T':
                traffic()
            elif x == 'A':
                b.env('Aw%d.u1000000.d1000000' % rng.choice(limited))
            if tx is not None and rng.random() < 0.3:
                b.rel(tx)                    # before the holder: a no-op when it is merely blocked
            b.rel(t)
            if tx is not None:
                for _ in range(3):
                    b.rel(tx, strict=True)
        elif kind == 'U':
            # an upload round held inside UploadStatus: nothing is locked, anything may happen meanwhile
            traffic()
            held = [b.thr(rng.choice(['Ru', 'Ru', 'Mu']), parks=1)]
            for _ in range(rng.randrange(0, 5)):
                y = rng.choice('TTTUMRCDAH')
                if y == 'T':
                    traffic()
                elif y in 'UMR':
                    b.thr(y)
                elif y == 'C' and b.live:
                    b.close(rng.choice(sorted(b.live.values())))
                elif y == 'D':
                    u = rng.choice(uids)
                    b.dispatch(u, new_sid(u))
                elif y == 'A':
                    b.env('Aw%d.u1000000.d1000000' % rng.choice(limited))
                elif y == 'H' and len(held) < 3:
                    traffic()
                    held.append(b.thr('Ru', parks=1))
            rng.shuffle(held)
            for t in held:
                b.rel(t)
        else:
            # GetSession held inside AuthoriseNewSession (keeps the record's sessionsM)
            u = rng.choice(limited)
            t = b.dispatch(u, new_sid(u), 's')
            x = rng.choice(['D', 'D', 'C', 'U', 'T', '-'])
            tx = None
            if x == 'D':
                tx = b.dispatch(u, new_sid(u), 'hs')
                b.rel(tx, strict=False)
            elif x == 'C':
                mine = [k for k in b.live_of(u) if k != b.nses - 1]
                if mine:
                    b.close(rng.choice(mine))
            elif x == 'U':
                b.thr('U')
            elif x == 'T':
                traffic()
            b.rel(t)
            if tx is not None:
                for _ in range(3):
                    b.rel(tx, strict=True)
    b.drain()
    for _ in range(rng.randrange(0, 3)):
        sequential()
    b.thr('R'); b.thr('R')
    return b.users, b.steps


def gen_random_cutoff(rng):
    """seeded: upload rounds held inside UploadStatus whose verdict may be TERMINATE (small credits, near expiry,
    deletions), with the user's sessions closing / the user connecting again / traffic / admin changes meanwhile.
    The held round keeps no lock and everything else runs one call at a time, so any such sequence is deterministic."""
    nu = rng.choice([1, 2, 2])
    recs = []
    for u in range(1, nu + 1):
        f = rng.choice(['up', 'down', 'exp', 'ample'])
        recs.append('%d:12:%d:%d:%d' % (u, rng.choice([40, 90, 300]) if f == 'up' else 1000000,
                                        rng.choice([150, 400]) if f == 'down' else 1000000, 60 if f == 'exp' else 100000))
    b = Build(','.join(recs))
    uids = list(range(1, nu + 1))
    nextsid = {u: 1 for u in uids}

    def connect(u=None):
        u = u or rng.choice(uids)
        sd = nextsid[u] if rng.random() < 0.8 else rng.randrange(1, nextsid[u] + 1)
        nextsid[u] = max(nextsid[u], sd + 1)
        b.dispatch(u, sd)

    def traffic():
        if b.nses:
            b.env('T%d.%d.%d' % (rng.randrange(b.nses), rng.choice([0, 10, 60, 100, 350]), rng.choice([0, 0, 3, 120])))
    for u in uids:
        connect(u)
    for _ in range(rng.randrange(1, 4)):
        traffic()
    for _ in range(rng.choice([1, 1, 2])):
        held = [b.thr(rng.choice(['Ru', 'Ru', 'Mu']), parks=1)]
        for _ in range(rng.randrange(1, 7)):
            y = rng.choice('CCCDDDTTUKAXH')
            if y == 'C' and b.live:
                u = rng.choice(uids)
                ks = b.live_of(u) or sorted(b.live.values())
                for k in (ks if rng.random() < 0.6 else ks[:1]):     # often: all sessions of one user (its record goes)
                    b.close(k)
            elif y == 'D':
                connect()
            elif y == 'T':
                traffic()
            elif y == 'U':
                b.thr('U')
            elif y == 'K':
                b.env('K%d' % rng.choice([1, 30, 100]))
            elif y == 'A':
                b.env('Aw%d.%s' % (rng.choice(uids), rng.choice(['u0', 'd0', 'u1000000.d1000000', 'e5'])))
            elif y == 'X':
                b.env('Ad%d' % rng.choice(uids))
            elif y == 'H' and len(held) < 2:
                traffic()
                held.append(b.thr('Ru', parks=1))
        rng.shuffle(held)
        for t in held:
            b.rel(t)
        for _ in range(rng.randrange(0, 3)):
            rng.choice([connect, traffic])()
    b.drain()
    b.thr('R'); b.thr('R')
    return b.users, b.steps


def cases(rng, nrandom):
    cs = exhaustive()
    for i in range(nrandom):
        users, steps = gen_random(rng, rng.choice([1, 2, 2, 3, 4]))
        cs.append(('ovr%d' % i, users, steps, 'overlap-random'))
    for i in range(max(10, nrandom // 3)):
        users, steps = gen_random_cutoff(rng)
        cs.append(('ovc%d' % i, users, steps, 'overlap-cutoff'))
    return cs


# ------------------------------------------------------------------------------------------------
# oracles (property text, model-independent) on the engine's output

def sessions_of(ses):
    """[(k, uid, closed, bornDead, rx, tx, notice, valve, record)] (older drivers: 7 fields)"""
    return [tuple(e) + (0, 0) * (len(e) < 9) for e in ses]


def one_record_per_user(users, ses, orph):
    """C17 / C19 / C15 wording: all LIVE sessions of one limited user belong to one active record and draw on
    one valve.  Sessions the panel cannot reach are reported by the reachability oracle; here: two reachable
    ones that disagree.  -> [(sig, msg)]"""
    bad = []
    limited = set(int(e.split(':')[0]) for e in users.split(',') if e and e[0] != 'b')
    by = {}
    for e in sessions_of(ses):
        k, uid, closed = e[0], e[1], e[2]
        if closed or uid not in limited or k in orph:
            continue
        by.setdefault(uid, []).append(e)
    for uid, es in sorted(by.items()):
        if len(set(e[8] for e in es)) > 1:
            bad.append(('two-records-for-one-user', 'user %d: live sessions %s are owned by %d different ActiveUser records' % (
                uid, [e[0] for e in es], len(set(e[8] for e in es)))))
        elif len(set(e[7] for e in es)) > 1:
            bad.append(('two-valves-for-one-user', 'user %d: live sessions %s draw on %d different valves' % (
                uid, [e[0] for e in es], len(set(e[7] for e in es)))))
    return bad


def valves_of_live(users, ses):
    """uid -> number of distinct valves among ALL live sessions (reachable or not): what C19 cares about"""
    limited = set(int(e.split(':')[0]) for e in users.split(',') if e and e[0] != 'b')
    by = {}
    for e in sessions_of(ses):
        if not e[2] and e[1] in limited:
            by.setdefault(e[1], set()).add(e[7])
    return {u: len(v) for u, v in by.items()}


def describe(steps):
    """human-readable schedule for the replay file"""
    out = []
    thr = 0
    names = {}
    for st in steps:
        c = st[0]
        if c in 'DUMRC':
            body = st.rstrip('hasu') if c in 'DUMR' else st
            suf = st[len(body):]
            what = {'D': 'connection for (uid.session) %s: GetUser, then GetSession' % body[1:],
                    'U': 'updateUsageQueue', 'M': 'commitUpdate', 'R': 'updateUsageQueue; commitUpdate',
                    'C': 'CloseSession of session %s' % st[1:]}[c]
            hold = []
            if 'a' in suf: hold.append('held inside Manager.AuthenticateUser')
            if 'h' in suf: hold.append('held at its schedule point (%s)' % ('dispatch.gotUser' if c == 'D' else 'updateUsageQueue.firstLock'))
            if 's' in suf: hold.append('held inside Manager.AuthoriseNewSession')
            if 'u' in suf: hold.append('held inside Manager.UploadStatus')
            out.append('goroutine %d: %s%s' % (thr, what, (' - ' + ', then '.join(hold)) if hold else ''))
            names[thr] = st
            thr += 1
        elif c in 'Gg':
            out.append('release goroutine %s%s' % (st[1:], '' if c == 'G' else ' (if it is held)'))
        elif c == 'T':
            f = st[1:].split('.')
            out.append('traffic on session %s: %s bytes from the client, %s bytes written to it' % (f[0], f[1], f[2]))
        elif c == 'A':
            out.append('admin API: %s' % st)
        elif c == 'K':
            out.append('clock + %s s' % st[1:])
        elif c == 'B':
            out.append('session %s loses its connection' % st[1:])
    return out


# ------------------------------------------------------------------------------------------------
# shrinking a failing overlapped scenario (one Go run per round: all single-step removals at once)

def _thread_steps(steps):
    """index of the step that creates thread t, for every t"""
    return [i for i, st in enumerate(steps) if st[0] in 'DCUMR']


def remove_step(steps, i):
    """steps without step i, thread numbers in later G/g tokens adjusted; None if step i may not go
    (a dispatch: removing one renumbers the sessions)"""
    st = steps[i]
    if st[0] == 'D':
        return None
    out = steps[:i] + steps[i + 1:]
    if st[0] in 'CUMR':
        t = _thread_steps(steps).index(i)
        res = []
        for x in out:
            if x[0] in 'Gg':
                n = int(x[1:])
                if n == t:
                    continue
                if n > t:
                    x = x[0] + str(n - 1)
            res.append(x)
        out = res
    return out


def shrink(run_and_judge, users, steps, rounds=6):
    """run_and_judge([(id, users, steps)]) -> set of ids that still fail.  Greedy: per round every single-step
    removal (and the truncations) is tried in ONE driver run; the shortest failing candidate is kept."""
    cur = list(steps)
    for rnd in range(rounds):
        cands = []
        for cut in range(1, len(cur)):
            cands.append(cur[:cut])
        for i in range(len(cur)):
            c = remove_step(cur, i)
            if c:
                cands.append(c)
        uniq = []
        for c in cands:
            if c not in uniq and len(c) < len(cur):
                uniq.append(c)
        if not uniq:
            break
        batch = [('sh%d_%d' % (rnd, j), users, c) for j, c in enumerate(uniq)]
        failing = run_and_judge(batch)
        ok = [c for (cid, _, c) in batch if cid in failing]
        if not ok:
            break
        cur = min(ok, key=len)
    return cur
