"""lockscan runner and generated obligations (lock graph, guarded-by sets, atomicity: used by every
check that lists a Proofs file about coq/Gen/{LockGraph,Guards,Atomicity}.v in EXTRA_OBLIGATION_FILES),
and, shared by c15.py / c16.py / c17.py, the scenario runner for the panel lock-step engine (harness/server/c17_*_test.go
vs the extracted model ocaml/c17_driver.ml), output parsing."""
import os, json, subprocess, shutil, hashlib, re
import vlib

LOCKSCAN_DIR = vlib.V + '/tools/lockscan'
LOCKSCAN_BIN = vlib.BUILD + '/lockscan_bin'
GEN = vlib.COQ + '/Gen'
LOCKSCAN_CMD = 'cd /verif/tools/lockscan && GOFLAGS=-mod=mod GOPROXY=off go run . -out /verif/coq/Gen -atom /repo/internal/common,/repo/internal/client /repo/internal/server /repo/internal/multiplex'
GEN_FILES = ('LockGraph.v', 'Guards.v', 'Atomicity.v')


def _build_lockscan():
    srcs = [os.path.join(LOCKSCAN_DIR, f) for f in os.listdir(LOCKSCAN_DIR) if f.endswith('.go') or f == 'go.mod']
    if os.path.exists(LOCKSCAN_BIN) and all(os.path.getmtime(s) <= os.path.getmtime(LOCKSCAN_BIN) for s in srcs):
        return 0, ''
    rc, out, _ = vlib.sh(['go', 'build', '-o', LOCKSCAN_BIN, '.'], cwd=LOCKSCAN_DIR, env=vlib.goenv(), timeout=300)
    return rc, out


def run_lockscan(outdir, overlay=None):
    """Returns (rc, report).  rc 0 = no errors, 1 = lockscan did not understand something."""
    rc, out = _build_lockscan()
    if rc != 0:
        return 2, 'building lockscan failed:\n' + out
    os.makedirs(outdir, exist_ok=True)
    cmd = [LOCKSCAN_BIN, '-out', outdir]
    if overlay:
        cmd += ['-overlay', overlay]
    # LockGraph.v / Guards.v: server, multiplex; Atomicity.v: these and common, client
    cmd += ['-atom', vlib.REPO + '/internal/common,' + vlib.REPO + '/internal/client']
    cmd += [vlib.REPO + '/internal/server', vlib.REPO + '/internal/multiplex']
    e = vlib.goenv()
    e.pop('VERIF_EXTRA_OVERLAY', None)
    rc, out, _ = vlib.sh(cmd, env=e, timeout=300)
    return rc, out


def refresh_gen():
    """Called at import time of the property modules (before the shared build): regenerate
    coq/Gen/LockGraph.v, Guards.v and Atomicity.v from /repo's working tree.  With VERIF_EXTRA_OVERLAY (mutant
    runs) the shared tree is left alone; the obligations are then checked in a private copy
    (check_generated_obligations)."""
    if os.environ.get('VERIF_EXTRA_OVERLAY'):
        return
    tmp = vlib.BUILD + '/work/lockscan_gen_%d' % os.getpid()
    rc, out = run_lockscan(tmp)
    try:
        for fn in GEN_FILES:
            src = os.path.join(tmp, fn)
            if not os.path.exists(src):
                continue
            txt = open(src).read()
            dst = os.path.join(GEN, fn)
            if not os.path.exists(dst) or open(dst).read() != txt:
                os.makedirs(GEN, exist_ok=True)
                open(dst, 'w').write(txt)
    finally:
        shutil.rmtree(tmp, ignore_errors=True)


def _cloak_imports(rel):
    """Modules of this development (as 'Dir/File') a Coq file imports with `From Cloak Require Import`."""
    try:
        txt = open('%s/%s.v' % (vlib.COQ, rel)).read()
    except OSError:
        return []
    txt = re.sub(r'\(\*.*?\*\)', '', txt, flags=re.S)
    mods = []
    for m in re.finditer(r'From\s+Cloak\s+Require\s+(?:Import\s+|Export\s+)?(.*?)\.(?:\s|$)', txt, re.S):
        mods += [x.replace('.', '/') for x in m.group(1).split()]
    return mods


def generated_closure(rel, _seen=None):
    """If Proofs file `rel` depends (transitively) on nothing of this development but the files lockscan
    generates, the list of hand-written files to copy next to them (dependencies first); else None."""
    seen = _seen if _seen is not None else []
    for m in _cloak_imports(rel):
        if m.startswith('Gen/'):
            if m[4:] + '.v' not in GEN_FILES:
                return None          # Gen/Consts.v: built by the shared build only
        elif m not in seen:
            if generated_closure(m, seen) is None:
                return None
    if rel not in seen:
        seen.append(rel)
    return seen


def is_generated_obligation(rel):
    """A file of lemmas about the terms lockscan generates (and about nothing else of /repo)."""
    cl = generated_closure(rel)
    return cl is not None and any(m.startswith('Gen/') for f in cl for m in _cloak_imports(f))


def _lemma_at(rel, line):
    """Name of the lemma whose statement or proof contains the given line of coq/<rel>.v."""
    name = None
    try:
        for i, ln in enumerate(open('%s/%s.v' % (vlib.COQ, rel)), 1):
            m = re.match(r'\s*(?:Lemma|Theorem|Corollary|Example|Fact)\s+(\w+)', ln)
            if m:
                name = m.group(1)
            if i >= line:
                break
    except OSError:
        pass
    return name


_gen_cache = {}


def check_generated_obligations(ctx, files=('Proofs/LockOrder',)):
    """Re-generate the lock graph / guards / atomicity terms honouring VERIF_EXTRA_OVERLAY and re-prove the
    given obligation files (hand-written lemmas about nothing but the generated terms) in a private copy,
    so that a mutant run never touches the shared coq/Gen.  Returns dict(ok, report, edges, prefix_order,
    error, errors=[(file, message naming the lemma)], cycles, lockscan_rc).  The generation and each file
    are done once per check run; a failure already handed out is not reported a second time (error is ''
    then), so that check.py's call for EXTRA_OBLIGATION_FILES and a property module's own call do not
    produce two violations for one cause."""
    work = ctx.work + '/gen_private'
    st = _gen_cache.get(work)
    if st is None:
        shutil.rmtree(work, ignore_errors=True)
        os.makedirs(work + '/Gen'); os.makedirs(work + '/Proofs')
        ov = os.environ.get('VERIF_EXTRA_OVERLAY')
        rc, report = run_lockscan(work + '/Gen', ov)
        st = dict(rc=rc, report=report, compiled={}, reported=set(), gen_error='')
        _gen_cache[work] = st
        lg = work + '/Gen/LockGraph.v'
        if not os.path.exists(lg):
            st['gen_error'] = 'lockscan produced no output:\n' + report[-2000:]
        else:
            for fn in GEN_FILES:
                rc2, out, _ = vlib.sh(['coqc', '-Q', '.', 'Cloak', 'Gen/' + fn], cwd=work, timeout=600)
                if rc2 != 0:
                    st['gen_error'] = 'generated file Gen/%s does not compile:\n%s' % (fn, out[-1500:])
                    break
    rc, report = st['rc'], st['report']
    res = dict(ok=False, report=report, edges=[], prefix_order=False, error='', errors=[], lockscan_rc=rc, cycles=[])
    if st['gen_error']:
        res['error'] = st['gen_error'] if 'gen' not in st['reported'] else ''
        res['errors'] = [('tools/lockscan', st['gen_error'])] if res['error'] else []
        st['reported'].add('gen')
        return res
    txt = open(work + '/Gen/LockGraph.v').read()
    m = re.search(r'Definition server_lock_edges[^\n]*:= \[(.*?)\]\.', txt)
    edges = re.findall(r'\("([^"]+)", "([^"]+)"\)', m.group(1)) if m else []
    res['edges'] = edges
    res['prefix_order'] = ('userPanel.activeUsersM', 'userPanel.usageUpdateQueueM') in edges
    res['cycles'] = [ln for ln in report.splitlines() if ln.startswith('CYCLE')]
    failed = False
    for rel in files:
        closure = generated_closure(rel)
        if closure is None:
            msg = '%s.v depends on more than the generated files: it cannot be re-proved in a private copy' % rel
            st['compiled'].setdefault(rel, msg)
            closure = []
        for f in closure:
            if f in st['compiled']:
                continue
            os.makedirs(os.path.dirname('%s/%s.v' % (work, f)), exist_ok=True)
            shutil.copy('%s/%s.v' % (vlib.COQ, f), '%s/%s.v' % (work, f))
            rc2, out, _ = vlib.sh(['coqc', '-Q', '.', 'Cloak', f + '.v'], cwd=work, timeout=600)
            msg = ''
            if rc2 != 0:
                lm = re.search(r'File "[^"]*", line (\d+)', out)
                lemma = _lemma_at(f, int(lm.group(1))) if lm else None
                msg = 'generated obligation no longer provable: lemma %s of %s.v does not hold of the terms ' \
                      'tools/lockscan extracts from the source (coq/Gen/*.v re-generated%s):\n%s\n%s' % (
                          lemma or '?', f, ' with the overlay ' + os.environ['VERIF_EXTRA_OVERLAY']
                          if os.environ.get('VERIF_EXTRA_OVERLAY') else '', out[-1500:], '\n'.join(res['cycles']))
            st['compiled'][f] = msg
        bad = [f for f in (closure or [rel]) if st['compiled'].get(f)]
        if bad:
            failed = True
            f = bad[0]
            if f not in st['reported']:
                st['reported'].add(f)
                lm = re.match(r'generated obligation no longer provable: lemma (\w+) ', st['compiled'][f])
                res['errors'].append((f + '.v' + (': lemma ' + lm.group(1) if lm else ''), st['compiled'][f]))
    if rc != 0:
        failed = True
        if 'rc' not in st['reported']:
            st['reported'].add('rc')
            res['errors'].append(('tools/lockscan', 'lockscan reported constructs it does not understand:\n' + report[-2000:]))
    res['ok'] = not failed
    if res['errors']:
        res['error'] = res['errors'][0][1]
    return res


# ----------------------------------------------------------------------------------------
def run_go(ctx, lines, tag, test='TestVerifC17', files=('c17_test.go', 'c17_common_test.go'), race=False, timeout=600):
    inp = '%s/%s.in' % (ctx.work, tag)
    out = '%s/%s.go.out' % (ctx.work, tag)
    open(inp, 'w').write('\n'.join(lines) + '\n')
    if os.path.exists(out):
        os.remove(out)
    rc, log, dt = vlib.go_test(ctx, 'server', test, files=list(files), race=race, timeout=timeout,
                               env=dict(VERIF_IN=inp, VERIF_OUT=out, VERIF_DUMP=ctx.work))
    return rc, log, out, dt


def parse_go(path):
    """-> dict(cfg, obs{id:str}, replay{id:[cfg,now,users,steps...]}, ses{id:[(k,uid,closed,born,rd,wr,notice)]},
    orph{id:[k]}, blocked{id:[t]}, hang{id:path}, f5real{...})"""
    r = dict(cfg={}, obs={}, replay={}, ses={}, orph={}, blocked={}, hang={}, f5real=None, extra=[])
    if not os.path.exists(path):
        return r
    for ln in open(path):
        ln = ln.rstrip('\n')
        if not ln:
            continue
        f = ln.split(' ')
        if f[0] == '#cfg':
            r['cfg'] = dict(x.split('=') for x in f[1:])
        elif f[0] == '#replay':
            r['replay'][f[1]] = f[2:]
        elif f[0] == '#ses':
            r['ses'][f[1]] = [tuple(int(x) for x in e.split(':')) for e in f[2:] if e]
        elif f[0] == '#orph':
            r['orph'][f[1]] = [int(x) for x in f[2].split(',') if x]
        elif f[0] == '#orphat':
            r.setdefault('orphat', {})[f[1]] = [(int(e.split(':')[0]), [int(x) for x in e.split(':')[1].split(',') if x]) for e in f[2:] if e]
        elif f[0] == '#blocked':
            r['blocked'][f[1]] = [int(x) for x in f[2].split(',') if x]
        elif f[0] == '#hang':
            r['hang'][f[1]] = f[2]
        elif f[0] == '#f5real':
            r['f5real'] = dict(x.split('=', 1) for x in f[1:] if '=' in x)
        elif f[0].startswith('#'):
            r['extra'].append(ln)
        else:
            r['obs'][f[0]] = ' '.join(f[1:])
    return r


def model_lines(go, prefix_order):
    """Scenario lines for the extracted model: the steps as the implementation executed them
    (observed byte counts), the notice-frame sizes it measured, and the parameter bits."""
    patched = go['cfg'].get('patched', '0')
    lines = []
    for sid, rp in go['replay'].items():
        cfg, now, users, steps = rp[0], rp[1], rp[2], rp[3:]
        notices = ','.join('%d:%d' % (e[0], e[6]) for e in go['ses'].get(sid, []) if e[6] > 0) or '-'
        bits = ('1' if prefix_order else '0') + patched
        lines.append('%s %s %s %s %s %s' % (sid, bits, now, users, notices, ' '.join(steps)))
    return lines


def run_model(ctx, lines, tag, name='c17'):
    inp = '%s/%s.model.in' % (ctx.work, tag)
    out = '%s/%s.model.out' % (ctx.work, tag)
    open(inp, 'w').write('\n'.join(lines) + '\n')
    rc, err = vlib.run_model(name, inp, out)
    return rc, err, vlib.read_lines_by_id(out)


def split_obs(line):
    """'[a|b|c|d|e|f] [..]' -> list of 6-tuples"""
    res = []
    for tok in line.split(' '):
        if tok.startswith('[') and tok.endswith(']'):
            res.append(tuple(tok[1:-1].split('|')))
    return res
