"""Shared by c15.py / c16.py / c17.py: lockscan runner (generated obligations about the lock graph and
the guarded-by sets), scenario runner for the panel lock-step engine (harness/server/c17_*_test.go
vs the extracted model ocaml/c17_driver.ml), output parsing."""
import os, json, subprocess, shutil, hashlib, re
import vlib

LOCKSCAN_DIR = vlib.V + '/tools/lockscan'
LOCKSCAN_BIN = vlib.BUILD + '/lockscan_bin'
GEN = vlib.COQ + '/Gen'
LOCKSCAN_CMD = 'cd /verif/tools/lockscan && GOFLAGS=-mod=mod GOPROXY=off go run . -out /verif/coq/Gen /repo/internal/server /repo/internal/multiplex'


def _build_lockscan():
    srcs = [os.path.join(LOCKSCAN_DIR, f) for f in os.listdir(LOCKSCAN_DIR) if f.endswith('.go') or f == 'go.mod']
    if os.path.exists(LOCKSCAN_BIN) and all(os.path.getmtime(s) <= os.path.getmtime(LOCKSCAN_BIN) for s in srcs):
        return 0, ''
    rc, out, _ = vlib.sh(['go', 'build', '-o', LOCKSCAN_BIN, '.'], cwd=LOCKSCAN_DIR, env=vlib.goenv(), timeout=300)
    return rc, out


def run_lockscan(outdir, overlay=None):
    """Returns (rc, report).  rc 0 = no errors, 1 = lockscan did not understand something."""
    rc, out = _build_lockscan()
    if rc != 0:
        return 2, 'building lockscan failed:\n' + out
    os.makedirs(outdir, exist_ok=True)
    cmd = [LOCKSCAN_BIN, '-out', outdir]
    if overlay:
        cmd += ['-overlay', overlay]
    cmd += [vlib.REPO + '/internal/server', vlib.REPO + '/internal/multiplex']
    e = vlib.goenv()
    e.pop('VERIF_EXTRA_OVERLAY', None)
    rc, out, _ = vlib.sh(cmd, env=e, timeout=300)
    return rc, out


def refresh_gen():
    """Called at import time of the property modules (before the shared build): regenerate
    coq/Gen/LockGraph.v and Guards.v from /repo's working tree.  With VERIF_EXTRA_OVERLAY (mutant
    runs) the shared tree is left alone; the obligations are then checked in a private copy
    (check_generated_obligations)."""
    if os.environ.get('VERIF_EXTRA_OVERLAY'):
        return
    tmp = vlib.BUILD + '/work/lockscan_gen_%d' % os.getpid()
    rc, out = run_lockscan(tmp)
    try:
        for fn in ('LockGraph.v', 'Guards.v'):
            src = os.path.join(tmp, fn)
            if not os.path.exists(src):
                continue
            txt = open(src).read()
            dst = os.path.join(GEN, fn)
            if not os.path.exists(dst) or open(dst).read() != txt:
                os.makedirs(GEN, exist_ok=True)
                open(dst, 'w').write(txt)
    finally:
        shutil.rmtree(tmp, ignore_errors=True)


def check_generated_obligations(ctx):
    """Re-generate the lock graph / guards honouring VERIF_EXTRA_OVERLAY and re-prove
    Proofs/LockOrder.v about them in a private copy.  Returns dict(ok, report, edges, prefix_order, error)."""
    work = ctx.work + '/gen_private'
    shutil.rmtree(work, ignore_errors=True)
    os.makedirs(work + '/Gen'); os.makedirs(work + '/Proofs')
    ov = os.environ.get('VERIF_EXTRA_OVERLAY')
    rc, report = run_lockscan(work + '/Gen', ov)
    res = dict(ok=False, report=report, edges=[], prefix_order=False, error='', lockscan_rc=rc)
    lg = work + '/Gen/LockGraph.v'
    if not os.path.exists(lg):
        res['error'] = 'lockscan produced no output:\n' + report[-2000:]
        return res
    txt = open(lg).read()
    m = re.search(r'Definition server_lock_edges[^\n]*:= \[(.*?)\]\.', txt)
    edges = re.findall(r'\("([^"]+)", "([^"]+)"\)', m.group(1)) if m else []
    res['edges'] = edges
    res['prefix_order'] = ('userPanel.activeUsersM', 'userPanel.usageUpdateQueueM') in edges
    res['cycles'] = [ln for ln in report.splitlines() if ln.startswith('CYCLE')]
    shutil.copy(vlib.COQ + '/Proofs/LockOrder.v', work + '/Proofs/LockOrder.v')
    for f in ('Gen/LockGraph.v', 'Gen/Guards.v', 'Proofs/LockOrder.v'):
        rc2, out, _ = vlib.sh(['coqc', '-Q', '.', 'Cloak', f], cwd=work, timeout=300)
        if rc2 != 0:
            res['error'] = 'generated obligation no longer provable (%s):\n%s\n%s' % (
                f, out[-1500:], '\n'.join(res['cycles']))
            return res
    res['ok'] = rc == 0
    if rc != 0:
        res['error'] = 'lockscan reported constructs it does not understand:\n' + report[-2000:]
    return res


# ----------------------------------------------------------------------------------------
def run_go(ctx, lines, tag, test='TestVerifC17', files=('c17_test.go', 'c17_common_test.go'), race=False, timeout=600):
    inp = '%s/%s.in' % (ctx.work, tag)
    out = '%s/%s.go.out' % (ctx.work, tag)
    open(inp, 'w').write('\n'.join(lines) + '\n')
    if os.path.exists(out):
        os.remove(out)
    rc, log, dt = vlib.go_test(ctx, 'server', test, files=list(files), race=race, timeout=timeout,
                               env=dict(VERIF_IN=inp, VERIF_OUT=out, VERIF_DUMP=ctx.work))
    return rc, log, out, dt


def parse_go(path):
    """-> dict(cfg, obs{id:str}, replay{id:[cfg,now,users,steps...]}, ses{id:[(k,uid,closed,born,rd,wr,notice)]},
    orph{id:[k]}, blocked{id:[t]}, hang{id:path}, f5real{...})"""
    r = dict(cfg={}, obs={}, replay={}, ses={}, orph={}, blocked={}, hang={}, f5real=None, extra=[])
    if not os.path.exists(path):
        return r
    for ln in open(path):
        ln = ln.rstrip('\n')
        if not ln:
            continue
        f = ln.split(' ')
        if f[0] == '#cfg':
            r['cfg'] = dict(x.split('=') for x in f[1:])
        elif f[0] == '#replay':
            r['replay'][f[1]] = f[2:]
        elif f[0] == '#ses':
            r['ses'][f[1]] = [tuple(int(x) for x in e.split(':')) for e in f[2:] if e]
        elif f[0] == '#orph':
            r['orph'][f[1]] = [int(x) for x in f[2].split(',') if x]
        elif f[0] == '#blocked':
            r['blocked'][f[1]] = [int(x) for x in f[2].split(',') if x]
        elif f[0] == '#hang':
            r['hang'][f[1]] = f[2]
        elif f[0] == '#f5real':
            r['f5real'] = dict(x.split('=', 1) for x in f[1:] if '=' in x)
        elif f[0].startswith('#'):
            r['extra'].append(ln)
        else:
            r['obs'][f[0]] = ' '.join(f[1:])
    return r


def model_lines(go, prefix_order):
    """Scenario lines for the extracted model: the steps as the implementation executed them
    (observed byte counts), the notice-frame sizes it measured, and the parameter bits."""
    patched = go['cfg'].get('patched', '0')
    lines = []
    for sid, rp in go['replay'].items():
        cfg, now, users, steps = rp[0], rp[1], rp[2], rp[3:]
        notices = ','.join('%d:%d' % (e[0], e[6]) for e in go['ses'].get(sid, []) if e[6] > 0) or '-'
        bits = ('1' if prefix_order else '0') + patched
        lines.append('%s %s %s %s %s %s' % (sid, bits, now, users, notices, ' '.join(steps)))
    return lines


def run_model(ctx, lines, tag, name='c17'):
    inp = '%s/%s.model.in' % (ctx.work, tag)
    out = '%s/%s.model.out' % (ctx.work, tag)
    open(inp, 'w').write('\n'.join(lines) + '\n')
    rc, err = vlib.run_model(name, inp, out)
    return rc, err, vlib.read_lines_by_id(out)


def split_obs(line):
    """'[a|b|c|d|e|f] [..]' -> list of 6-tuples"""
    res = []
    for tok in line.split(' '):
        if tok.startswith('[') and tok.endswith(']'):
            res.append(tuple(tok[1:-1].split('|')))
    return res
