"""C12 - session-pair lock-step check (see muxlib.py and coq/Model/Mux.v)."""
import os
import muxlib, vlib

PROP_FILES = ['Properties/C12']
EXTRACT_FILES = ['Extract/Mux']
EXTRA_OBLIGATION_FILES = ['Proofs/AtomMux', 'Proofs/MuxGuards']

PROFILES = ['fault', 'fault', 'mixed', 'close', 'sendfail']
N_QUICK, N_THOROUGH = 300, 4000
RULE = 'seeded lock-step scenarios with connection failures (reset seen by both ends) at arbitrary frame boundaries, FINs, session Close by either side racing (at label granularity) with open/read/write/close and frames in flight, inactivity timers on a virtual clock; state dumps (Q) at quiescent moments; distinct = distinct concrete label sequences'
ORACLE = muxlib.oracle_c12
TRUSTED = ['atomic steps of the hand-written model as GENERATED obligations (Proofs/AtomMux.v, re-proved on every run about coq/Gen/Atomicity.v; in a private re-generated copy under VERIF_EXTRA_OVERLAY): tools/lockscan (go/ast, syntactic types) is trusted to list, per function of internal/{server,multiplex,common,client}, every field access / call / sync/atomic operation with the critical sections (Lock..Unlock / RLock..RUnlock / deferred unlock, mutex identity by name) it lies in, every sync.Pool.Put with the later mentions of the object, and every variable a go statement shares with its spawner (anything it cannot resolve is in atomicity_errors, which must be empty); it does not follow calls (a region is what one function writes between Lock and Unlock), does no alias analysis, treats callbacks as running with no lock held, and counts call sites, not executions (a loop around one call site is invisible); send-lock discipline (AtomMux: no mutex possibly held across the blocking conn.Write is acquired on the path from switchboard.deplex): the scanner supplies the in-package call graph over functions and their bool specialisations (interface receivers resolved to every in-package implementer; deferred calls, callbacks and function values count as calls, go statements do not; cross-package calls are not edges) and, per call, the locks possibly held - reachability to the conn.Write call and from deplex is computed inside Coq; who removes entries (AtomReplay/AtomPanel/AtomMux): the scanner distinguishes element stores (w), delete/clear (del), assignment of the whole field (set), address-of (addr) and the map being handed on as a value (val); a delete on a local map is recorded under the name of that local', 'Coq 8.16.1 kernel incl. vm_compute (no native_compute)', 'hand-written model coq/Model/Mux.v of Session/Stream/switchboard at the granularity "one harness label runs to quiescence"; re-sequencer = coq/Model/Reorder.v', 'frames are abstract (decoded) in this model: codec and record framing are the subject of C04/C05', 'correspondence: lock-step driver harness/multiplex/mux_test.go on two real Sessions over harness-owned in-memory connections under testing/synctest (virtual clock, quiescence barrier) vs extracted OCaml model (ExtrOcamlBasic only); connection picks of pickRandConn are read off the wire tap and fed to the model', 'goroutine interleavings INSIDE a label (e.g. preemption inside a critical section) are not enumerated: covered by the fine-grained sender LTS (C13), the race detector runs and the schedule-point hooks']
ASSUMPTIONS = ['connections are FIFO, deliver whole messages (C05) and a reset/EOF is seen by both ends', 'sequence numbers stay below 2^64-1, fewer than 2^32 streams per session']


def scenarios(ctx):
    rng = ctx.rng
    n = N_QUICK if ctx.quick() else N_THOROUGH
    scns = []
    for i in range(n):
        scns.append(muxlib.gen_scenario(rng, 's%d' % i, rng.choice(PROFILES)))
    return scns


def correspondence(ctx, verdict, pr):
    verdict.cov['rule'] = RULE
    return muxlib.check(ctx, verdict, 'C12', scenarios(ctx), ORACLE)


def replay(ctx, verdict):
    return muxlib.replay_scenario(ctx, verdict, 'C12', ORACLE)


def hooks(ctx, verdict):
    """races placed with schedule points: OpenStream vs session close; inactivity timer vs stream registration"""
    out = '%s/hooks.out' % ctx.work
    rc, log, dt = vlib.go_test(ctx, 'multiplex', 'TestVerifC12Hooks', files=['c12_hooks_test.go', 'c01_addconn_test.go'],
                               env=dict(VERIF_OUT=out), timeout=600)
    broken = []
    got = vlib.read_lines_by_id(out)
    if rc != 0 or not got:
        broken.append(('Go driver TestVerifC12Hooks failed rc=%d' % rc, log[-3000:]))
    for tid, v in got.items():
        if v in ('opened-read-blocked-forever',):
            verdict.oracle_failure('open-vs-close-blocked-read', 'C12 oracle: OpenStream overlapping session Close registered a stream on the closed session; its Read never returns',
                                   dict(trial=tid, schedule='goroutine 1 parked at schedule point OpenStream.checked; goroutine 2 runs Session.Close to completion; goroutine 1 released; Read on the returned stream',
                                        how='go test -tags verif -run TestVerifC12Hooks with harness/multiplex/c12_hooks_test.go'))
            break
    for tid, v in got.items():
        if v == 'closed-by-timer-with-registered-stream':
            verdict.oracle_failure('timer-vs-registration', 'C12 oracle: the inactivity check closed a multiplexed session while a peer-opened stream was registered in it',
                                   dict(trial=tid, schedule='deplex goroutine at schedule point recv.registered (stream stored in the table); checkTimeout runs now',
                                        how='go test -tags verif -run TestVerifC12Hooks with harness/multiplex/c12_hooks_test.go'))
            break
    verdict.cov['hook_trials'] = len(got)
    broken += close_race(ctx, verdict)
    return broken


def close_race(ctx, verdict):
    """simultaneous close of one stream from both ends with another stream open (harness/multiplex/c12_close_race_test.go)"""
    import winlib
    return winlib.c12_close_race(ctx, verdict)


_corr = correspondence


def correspondence(ctx, verdict, pr):
    res = _corr(ctx, verdict, pr)
    res['broken'] += hooks(ctx, verdict)
    return res


MANIFEST = {'technique': 'Coq invariant proofs over all label sequences (faults, closes, timers) of a session-pair model; model tied to multiplex.Session by lock-step differential execution under testing/synctest; schedule-point replays for the races inside a label', 'level_text': 'Theorems C12_teardown_complete, C12_nothing_left_blocked, C12_connections_closed, C12_closed_session_has_closed_its_connections (every closed session, however it was closed, has run closeAll and closed its end of every pooled connection), C12_fault_closes_sessions, C12_count_equals_open_streams (at every quiescent moment of a live session activeStreamCount = number of open streams, mod 2^32), C12_timer_only_when_idle / C12_timer_closes_only_without_open_streams and the invariant C12_wellformed_always are proved in Coq for EVERY sequence of labels (open/write/read/accept/close stream/close session/deliver on any connection/FIN/reset seen by both ends/connection broken but not yet noticed/one read loop noticing/timer tick, both sides, any number of connections, any connection picks) of the hand-written session-pair model coq/Model/Mux.v by induction with explicit invariants. The model is tied to the code on every run: seeded scenarios are executed label by label on two real Sessions over harness-owned in-memory connections (virtual clock, quiescence barrier) and on the extracted model, every observable (frames on the wire, failed sends, return values, blocked calls returning, connection closes, counters, per-side blocked calls) is compared; an independent oracle checks prefix delivery, count = open streams and closed-session-has-closed-connections at every quiescent moment, no call left blocked, new streams refused. The races inside a label (OpenStream vs Close, inactivity check vs stream registration, simultaneous close of one stream from both ends) are replayed with schedule points / parked goroutines.', 'level_note': "Granularity: one label runs to quiescence; goroutine interleavings inside a label are covered only by the schedule-point replays, the parked-goroutine window drivers, the race detector, the generated atomicity obligations (Proofs/AtomMux.v over coq/Gen/Atomicity.v) and C13's fine-grained model. The count theorem assumes fresh stream ids at the opener (fresh_opens). Connections are FIFO. Trusted: Coq kernel, extraction, synctest, the lockscan translator.", 'design_ref': 'DESIGN.md section 6, C12'}


# ---- concurrency windows (tools/props/winlib.py): simultaneous close from both ends
TRUSTED = TRUSTED + ['schedule control of the window drivers: a goroutine is parked inside a call through a seam the harness owns (the replaceable sync.Locker of the stream\'s pipe; virtual clock of testing/synctest for the inactivity timer); "the other goroutine has returned or is blocked on a lock" is read off runtime.Stack wait states; outcomes are judged by the property predicate only']
_replay_before_windows = replay


def replay(ctx, verdict):
    if ctx.replay.get('kind') == 'window':
        import winlib
        return winlib.replay(ctx, verdict)
    return _replay_before_windows(ctx, verdict)


def search(ctx, verdict, problems):
    import winlib
    return winlib.search(ctx, verdict, problems)


# ---- connections attached to a session that has already been torn down (harness/multiplex/c12_late_conn_test.go)
def late_conn(ctx, verdict):
    cases = []
    k = 0
    for teardown in ('close', 'eof', 'reset'):
        for late_end in ('eof', 'reset'):
            for nlate in (1, 3):
                cases.append('lc%d LATE %s %s %d' % (k, teardown, late_end, nlate)); k += 1
    for teardown in ('close', 'eof', 'reset'):
        cases.append('lc%d LATE %s eof 1 closeerr' % (k, teardown)); k += 1
    inp, out = '%s/late.in' % ctx.work, '%s/late.out' % ctx.work
    open(inp, 'w').write('\n'.join(cases) + '\n')
    rc, log, dt = vlib.go_test(ctx, 'multiplex', 'TestVerifC12LateConn', files=['c12_late_conn_test.go'], env=dict(VERIF_IN=inp, VERIF_OUT=out), timeout=300)
    got = vlib.read_lines_by_id(out)
    broken = []
    if rc != 0 or len(got) < len(cases):
        broken.append(('Go driver TestVerifC12LateConn failed rc=%d' % rc, log[-3000:]))
    bad = []
    for c in cases:
        g = got.get(c.split()[0])
        if g is None:
            continue
        d = dict(x.split('=') for x in g.split())
        a, b = d['closed'].split('/')
        e0, e1 = d['early'].split('/')
        if a != b or e0 != e1 or d['sessionclosed'] != 'true':
            bad.append((c, g))
    if bad:
        c, g = bad[0]
        f = c.split()
        verdict.oracle_failure('late-connection-left-open', 'C12 oracle: after the session was torn down (%s%s) %s connection(s) were attached to it and then ended by the peer (%s): %s - every connection of a closed session must end up closed at this end (early = connections of the pool closed by the teardown itself)' % (f[2], ', every Close of a pooled connection reporting an error' if len(f) > 5 else '', f[4], f[3], g),
                               dict(kind='late-conn', case=c, observed=g, failing_cases=len(bad), how='go test -run TestVerifC12LateConn with harness/multiplex/c12_late_conn_test.go (VERIF_IN = the case line)'))
    verdict.cov['late_connection_cases'] = dict(cases=len(cases), failures=len(bad))
    return broken


_corr_before_late = correspondence
_replay_before_late = replay


def correspondence(ctx, verdict, pr):
    res = _corr_before_late(ctx, verdict, pr)
    res['broken'] += late_conn(ctx, verdict)
    return res


def replay(ctx, verdict):
    if ctx.replay.get('kind') == 'late-conn':
        inp, out = '%s/late.in' % ctx.work, '%s/late.out' % ctx.work
        open(inp, 'w').write(ctx.replay['case'] + '\n')
        rc, log, dt = vlib.go_test(ctx, 'multiplex', 'TestVerifC12LateConn', files=['c12_late_conn_test.go'], env=dict(VERIF_IN=inp, VERIF_OUT=out), timeout=300)
        print(open(out).read() if os.path.exists(out) else log[-1500:])
        return 0
    return _replay_before_late(ctx, verdict)
MANIFEST = dict(MANIFEST, level_note=MANIFEST.get('level_note', '') + ' Connections attached to a session AFTER its teardown (outside the fixed connection set of the model) are exercised by harness/multiplex/c12_late_conn_test.go: each must be closed by its own receive loop once the peer ends it.')
