"""C01 - session-pair lock-step check (see muxlib.py and coq/Model/Mux.v)."""
import muxlib, vlib

PROP_FILES = ['Properties/C01']
EXTRA_OBLIGATION_FILES = ['Proofs/AtomMux', 'Proofs/AtomClient', 'Proofs/AtomPanel', 'Proofs/AtomWire']
EXTRACT_FILES = ['Extract/Mux']
PROFILES = ['data', 'data', 'data', 'big', 'mixed']
N_QUICK, N_THOROUGH = 260, 4000
RULE = 'seeded lock-step scenarios on a session pair: 1..8 connections (singleplex included), 4 encryption methods, 1..40 streams, write sizes 1 byte..3 frames in both directions, arbitrary cross-connection delivery order (E labels pick among connections with pending data), reads of any size incl. blocking ones; distinct = distinct concrete label sequences (after resolving delivery choices and connection picks)'
ORACLE = muxlib.oracle_c01
TRUSTED = ['atomic steps of the hand-written model as GENERATED obligations (Proofs/AtomMux.v + Proofs/AtomClient.v, re-proved on every run about coq/Gen/Atomicity.v; in a private re-generated copy under VERIF_EXTRA_OVERLAY): tools/lockscan (go/ast, syntactic types) is trusted to list, per function of internal/{server,multiplex,common,client}, every field access / call / sync/atomic operation with the critical sections (Lock..Unlock / RLock..RUnlock / deferred unlock, mutex identity by name) it lies in, every sync.Pool.Put with the later mentions of the object, and every variable a go statement shares with its spawner (anything it cannot resolve is in atomicity_errors, which must be empty); it does not follow calls (a region is what one function writes between Lock and Unlock), does no alias analysis, treats callbacks as running with no lock held, and counts call sites, not executions (a loop around one call site is invisible); send-lock discipline (AtomMux: no mutex possibly held across the blocking conn.Write is acquired on the path from switchboard.deplex): the scanner supplies the in-package call graph over functions and their bool specialisations (interface receivers resolved to every in-package implementer; deferred calls, callbacks and function values count as calls, go statements do not; cross-package calls are not edges) and, per call, the locks possibly held - reachability to the conn.Write call and from deplex is computed inside Coq', 'Coq 8.16.1 kernel incl. vm_compute (no native_compute)', 'hand-written model coq/Model/Mux.v of Session/Stream/switchboard at the granularity "one harness label runs to quiescence"; re-sequencer = coq/Model/Reorder.v', 'frames are abstract (decoded) in this model: codec and record framing are the subject of C04/C05', 'correspondence: lock-step driver harness/multiplex/mux_test.go on two real Sessions over harness-owned in-memory connections under testing/synctest (virtual clock, quiescence barrier) vs extracted OCaml model (ExtrOcamlBasic only); connection picks of pickRandConn are read off the wire tap and fed to the model', 'goroutine interleavings INSIDE a label (e.g. preemption inside a critical section) are not enumerated: covered by the fine-grained sender LTS (C13), the race detector runs and the schedule-point hooks']
ASSUMPTIONS = ['connections are FIFO, deliver whole messages (C05) and a reset/EOF is seen by both ends', 'sequence numbers stay below 2^64-1, fewer than 2^32 streams per session']


def scenarios(ctx):
    rng = ctx.rng
    n = N_QUICK if ctx.quick() else N_THOROUGH
    scns = []
    for i in range(n):
        scns.append(muxlib.gen_scenario(rng, 's%d' % i, rng.choice(PROFILES)))
    return scns


def correspondence(ctx, verdict, pr):
    verdict.cov['rule'] = RULE
    return muxlib.check(ctx, verdict, 'C01', scenarios(ctx), ORACLE)


def replay(ctx, verdict):
    return muxlib.replay_scenario(ctx, verdict, 'C01', ORACLE)


def addconn(ctx, verdict):
    """the add-vs-send window, placed deterministically with the schedule point addConn.stored"""
    out = '%s/addconn.out' % ctx.work
    rc, log, dt = vlib.go_test(ctx, 'multiplex', 'TestVerifC01AddConn', files=['c01_addconn_test.go'],
                               env=dict(VERIF_OUT=out), timeout=600)
    broken = []
    got = vlib.read_lines_by_id(out)
    if rc != 0 or not got:
        broken.append(('Go driver TestVerifC01AddConn failed rc=%d' % rc, log[-3000:]))
    bad = []
    for tid, rest in got.items():
        pre, frac, closed = rest.split()
        a, b = frac.split('/')
        if a != b or closed != 'closed=0':
            bad.append('%s %s' % (tid, rest))
    if bad:
        verdict.oracle_failure('addconn-send-race', 'C01 oracle: a send issued while a connection was being added failed or tore the healthy session down: ' + bad[0],
                               dict(trials=bad, schedule='goroutine 1 parked at schedule point addConn.stored inside switchboard.addConn; goroutine 2 calls Stream.Write 64 times; then goroutine 1 is released',
                                    how='go test -tags verif -run TestVerifC01AddConn with harness/multiplex/c01_addconn_test.go'))
    verdict.cov['addconn_trials'] = len(got)
    return broken


_corr = correspondence


def correspondence(ctx, verdict, pr):
    res = _corr(ctx, verdict, pr)
    res['broken'] += addconn(ctx, verdict)
    return res


MANIFEST = {'technique': 'Coq invariant proof over all label sequences of a session-pair model (per-direction data invariant composed with the re-sequencer invariant of C02); model tied to multiplex.Session by lock-step differential execution under testing/synctest; schedule-point replay of the add-vs-send window', 'level_text': "Proved in Coq for EVERY label sequence (any number of connections/streams, any write sizes, any cross-connection arrival order, both directions, faults/closes/timers included): C01_reads_prefix_of_written (what a reader was given is a prefix of what the writes on that same stream accepted) and the invariant C01_data_invariant behind it (frames numbered in emission order, every frame in flight genuine and at most once, receiver buffer = arrived set, read ++ pipe = first k data frames). Proved for every HEALTHY label sequence (k>=1 connections, multiplexed; opens, writes, reads, accepts, stream closes, deliveries in any order with any connection picks, inactivity ticks while streams are open; no connection failure, no session close): C01_nothing_lost (once no frame of a direction is in flight, bytes read ++ bytes in the reader's pipe = EXACTLY the bytes the writes accepted), C01_session_with_open_streams_stays_up (no session or connection is ever closed), C01_write_accepted_whole. The model is tied to the code on every run by the lock-step correspondence (model = code on every observable) plus an independent oracle over seeded scenarios (1-8 connections incl. singleplex, 4 ciphers, up to 40 streams, writes of 1 byte..3 frames), and by the schedule-point replay of the addConn publish window.", 'level_note': 'Granularity: one harness label runs to quiescence; goroutine interleavings inside a label are covered by schedule-point replays, the race detector and (C13) the concurrent stress driver, not by the theorems. Hypotheses of the theorems: stream ids returned by OpenStream are fresh at the opener (fresh_run; in Cloak only the client opens streams), fewer than 2^64-2 frames per stream direction. Frames are abstract (decoded) in this model: codec = C04, record framing = C05. Trusted: Coq kernel, extraction (ExtrOcamlBasic), testing/synctest barrier, in-memory FIFO connections.', 'design_ref': 'DESIGN.md section 6, C01'}


# ---- concurrency windows (tools/props/winlib.py): client.RouteTCP with two local connections, one parked
import winlib

TRUSTED = TRUSTED + ['schedule control of the window drivers: a goroutine is parked inside a call through a seam the harness owns (the net.Listener and the local net.Conn handed to client.RouteTCP); "the other goroutine has returned or is blocked on a lock" is read off runtime.Stack wait states; outcomes are judged by the property predicate only']
MANIFEST = dict(MANIFEST, level_note=MANIFEST['level_note'] + ' Relay level: two local connections through client.RouteTCP into a real Session pair with one of them parked at each of its calls on the local connection, under the race detector (harness/client/c01_route_test.go).')
_corr_before_windows = correspondence
_replay_before_windows = replay


def correspondence(ctx, verdict, pr):
    res = _corr_before_windows(ctx, verdict, pr)
    res['broken'] += winlib.c01_windows(ctx, verdict)
    return res


def replay(ctx, verdict):
    if ctx.replay.get('kind') == 'window':
        return winlib.replay(ctx, verdict)
    return _replay_before_windows(ctx, verdict)


def search(ctx, verdict, problems):
    return winlib.search(ctx, verdict, problems)


# ---- relay level: Model/Copy.v (common.Copy, the uplink of client.RouteTCP) vs the real code (tools/props/relaylib.py)
import relaylib

EXTRACT_FILES = EXTRACT_FILES + ['Extract/Relay']
TRUSTED = TRUSTED + ['relay level: hand-written model coq/Model/Copy.v of common.Copy (generic loop, the two delegations, the deferred closes) and of the uplink of client.RouteTCP (ReadAtLeast + Stream.Write + Stream.ReadFrom); the behaviour of the connections (what each Read / Write call returns) is an input of the model and is scripted by the harness (harness/common/relay_copy_test.go: every call recorded, with a copy of each slice taken at the call); the far end of a relayed stream and the session pair in between are the real multiplex.Session objects']
MANIFEST = dict(MANIFEST,
                level_text=MANIFEST['level_text'] + ' Relay level (Model/Copy.v): for EVERY script of Read results and Write results, C01_copy_forwards_exactly (what common.Copy hands to dst.Write is byte for byte what the consumed src.Read calls returned), C01_copy_complete (a source ending in EOF into a sink that takes everything arrives complete, err = nil, written = bytes forwarded), C01_copy_closes_both, C01_copy_nil_only_after_eof, C01_relay_uplink_prefix (RouteTCP uplink) and the composition C01_relay_end_to_end with the session-pair theorem: what the far connection is handed is a prefix of what the local peer sent, over every label sequence and every behaviour of the three connections.',
                level_note=MANIFEST['level_note'] + ' The relay model is compared with the real common.Copy on scripted connections (every call, count and error class) and with the real client.RouteTCP feeding a real Session pair from a scripted local connection.')
_corr_before_relay = correspondence
_replay_before_relay = replay


def correspondence(ctx, verdict, pr):
    res = _corr_before_relay(ctx, verdict, pr)
    res['broken'] += relaylib.run(ctx, verdict, 'C01')
    return res


def replay(ctx, verdict):
    if str(ctx.replay.get('kind', '')).startswith('relay'):
        return relaylib.replay(ctx, verdict, 'C01')
    return _replay_before_relay(ctx, verdict)


# Proofs/AtomPanel.v is listed because the session-pair model takes "the k connections belong to ONE session at each end"
# as given: on the server that is ActiveUser.GetSession's look-up-or-create being one critical section (C15's obligation)
TRUSTED = TRUSTED + ['all connections of one session id are attached to one Session object at the server: generated obligation GetSession_lookup_authorise_create_one_step (Proofs/AtomPanel.v), C15']


# ---- one stream with a large unread backlog must not stall the others (harness/multiplex/c01_backlog_test.go)
def backlog(ctx, verdict):
    q = ctx.quick()
    cases = ['bl0 BACKLOG 0 2 %d 22' % (8 if q else 96), 'bl1 BACKLOG 3 1 %d 1' % (5 if q else 40), 'bl2 BACKLOG 1 3 %d 300' % (6 if q else 40)]
    inp, out = '%s/backlog.in' % ctx.work, '%s/backlog.out' % ctx.work
    open(inp, 'w').write('\n'.join(cases) + '\n')
    rc, log, dt = vlib.go_test(ctx, 'multiplex', 'TestVerifC01Backlog', files=['c01_backlog_test.go'], env=dict(VERIF_IN=inp, VERIF_OUT=out), timeout=900)
    got = vlib.read_lines_by_id(out)
    broken = []
    if rc != 0 or len(got) < len(cases):
        broken.append(('Go driver TestVerifC01Backlog failed rc=%d' % rc, log[-3000:]))
    for c in cases:
        g = got.get(c.split()[0])
        if g is None:
            continue
        f = c.split()
        if ' b=ok a=ok closed=0' not in g or not g.startswith('wroteA=%d ' % (int(f[4]) << 20)):
            verdict.oracle_failure('backlog-stalls-session', 'C01 oracle: %s MiB written to one stream and not yet read by its receiver, then %s bytes written to ANOTHER stream of the same healthy session (%s connections, method %s): %s - every stream must keep working, every byte must arrive' % (f[4], f[5], f[3], f[2], g),
                                   dict(kind='backlog', case=c, observed=g, how='go test -run TestVerifC01Backlog with harness/multiplex/c01_backlog_test.go (VERIF_IN = the case line)'))
            break
    verdict.cov['unread_backlog_cases'] = dict(cases=cases, results=[got.get(c.split()[0]) for c in cases], go_seconds=round(dt, 1))
    return broken


_corr_before_backlog = correspondence
_replay_before_backlog = replay
ASSUMPTIONS = ASSUMPTIONS + ['the unread bytes buffered for one stream stay below recvBufferSizeLimit (2^31-1: beyond it the code parks the receive loop by design); the model\'s pipes are unbounded']


def correspondence(ctx, verdict, pr):
    res = _corr_before_backlog(ctx, verdict, pr)
    res['broken'] += backlog(ctx, verdict)
    return res


def replay(ctx, verdict):
    if ctx.replay.get('kind') == 'backlog':
        inp, out = '%s/backlog.in' % ctx.work, '%s/backlog.out' % ctx.work
        open(inp, 'w').write(ctx.replay['case'] + '\n')
        rc, log, dt = vlib.go_test(ctx, 'multiplex', 'TestVerifC01Backlog', files=['c01_backlog_test.go'], env=dict(VERIF_IN=inp, VERIF_OUT=out), timeout=900)
        import os
        print(open(out).read() if os.path.exists(out) else log[-1500:])
        return 0
    return _replay_before_backlog(ctx, verdict)

TRUSTED = TRUSTED + ['the connections under a session deliver whole messages in order (C05): its generated obligations Proofs/AtomWire.v (one exclusive section around WebSocketConn.WriteMessage, one underlying Write per TLSConn.Write, no pooled buffer used after Put) are listed here too, because a session hands frames of several streams to one connection at once']
