"""C19 - a limited user's throughput never exceeds the configured rates."""
import os, json, threading
import vlib
from props import c19_backlog as bl

PROP_FILES = ['Properties/C19']
EXTRA_OBLIGATION_FILES = ['Proofs/AtomPanel', 'Proofs/AtomValve']
TRUSTED = [
    'atomic steps of the hand-written model as GENERATED obligations (Proofs/AtomPanel.v, re-proved on every run about coq/Gen/Atomicity.v; in a private re-generated copy under VERIF_EXTRA_OVERLAY): tools/lockscan (go/ast, syntactic types) is trusted to list, per function of internal/{server,multiplex,common,client}, every field access / call / sync/atomic operation with the critical sections (Lock..Unlock / RLock..RUnlock / deferred unlock, mutex identity by name) it lies in, every sync.Pool.Put with the later mentions of the object, and every variable a go statement shares with its spawner (anything it cannot resolve is in atomicity_errors, which must be empty); it does not follow calls (a region is what one function writes between Lock and Unlock), does no alias analysis, treats callbacks as running with no lock held, and counts call sites, not executions (a loop around one call site is invisible); who removes entries (AtomReplay/AtomPanel/AtomMux): the scanner distinguishes element stores (w), delete/clear (del), assignment of the whole field (set), address-of (addr) and the map being handed on as a value (val); a delete on a local map is recorded under the name of that local',
    'Coq 8.16.1 kernel incl. vm_compute (no native_compute); theorems of Properties/C19.v: Closed under the global context',
    'hand-written model coq/Model/Bucket.v of juju/ratelimit v1.0.2 (take / adjustavailableTokens / currentTick in integer ticks, unbounded Z instead of int64: the values driven stay below 2^62), Wait = ideal sleep of the returned duration, MakeValve: capacity = rate',
    'NewBucketWithRate computes fillInterval and its 1 % test in float64; the model reproduces the search in integers (exact while 1e9*quantum < 2^53) and its RESULT (quantum, fillInterval, capacity) is compared with the library for every rate used and ~150 more on every run',
    'correspondence (a): ratelimit.Bucket with an injected fake Clock vs the extracted model on seeded op sequences (Take / TakeMaxDuration / Available / clock advances); NewBucketWithRate (real clock, as Cloak uses it) and NewBucketWithRateAndClock checked to build the same bucket',
    'correspondence (b): real Sessions (MakeSession, switchboard.send / deplex) with the real LimitedValve from MakeValve on an in-memory message-preserving network under the virtual clock of testing/synctest (Go 1.24.2): every message leaving the sender is time-stamped at conn.Write; for rx the time at which the data has been processed (Read returns on the receiving stream); deterministic single-writer configurations are compared with the model to the nanosecond, the others against the proved bound over EVERY pair of events',
    'real timers oversleep: only the upper bound is a statement about the deployed system; C19_not_starved_partial is about ideal sleeps (model; checked under virtual time only)',
    'one valve per user: C19_shared_valve is about a four-line model of GetSession; the driver harness/server/c19_test.go asserts pointer identity of Session.Valve across sessions obtained from the real userPanel.GetUser / ActiveUser.GetSession (real local manager on a temporary bolt db) and that rx/tx capacities are UpRate/DownRate',
    'F5 (a session created in a terminated user record keeps the old record\'s valve) is outside this check: see C17',
    'WHICH call of the bucket API the model stands for: LimitedValve.rxWait(n) / txWait(n) = Bucket.Wait(n) and only that - take with NO maximum wait (the library\'s infinityDuration) followed by a sleep of the returned duration; the tokens are taken whatever the wait (C19_never_released_early, C19_backlog_wait, C19_wait_unbounded: the wait has no upper limit in the model). The library\'s other entry points are NOT what the theorems are about: WaitMaxDuration / TakeMaxDuration take nothing and return at once when the wait would exceed the maximum (modelled as take_max (Some m), compared with the library on every run, and refuted as a valve: C19_refuted_capped_wait), TakeAvailable never waits, Take does not sleep. That the source makes exactly this call is the GENERATED obligation Proofs/AtomValve.v (rxWait/txWait each make one call, a method named Wait, on their bucket field; no other function of the scanned packages calls anything of the ratelimit package or of the two bucket fields except NewBucketWithRate in MakeValve; switchboard.send calls txWait once ahead of every Conn.Write, deplex calls rxWait once between Conn.Read and recvDataFromRemote) - by call-site NAME as tools/lockscan prints it, so a wrapper function around the bucket or a bucket reached through another field would need the lemma updated; what the call DOES is the correspondence\'s business: long-backlog families (tools/props/c19_backlog.py) drive the real valve, directly and under real sessions in both directions, to 1 s .. 1 h of queued demand',
    'overlapped admissions (harness/server/c19_overlap_test.go): a test UserManager parks AuthenticateUser calls of first connections of one user; lock-out is read off runtime.Stack goroutine states inside the synctest bubble (polling with runtime.Gosched, the virtual clock does not move during admission); only the server->client direction (DownRate) is time-stamped there (the rx tap needs multiplex internals)',
]
ASSUMPTIONS = [
    'request times are non-decreasing (one clock) and every Wait is for a positive count (Wait(0) is a no-op: lemma take_nonpos)',
    'the upper bound is proved with the largest single message as a parameter; in rate terms it is the property\'s bound exactly when every message is at most one second\'s worth (capacity); below that the literal bound is false (F14, known finding)',
    'bytes are counted as the valve counts them: the obfuscated frame handed to conn.Write (tx) / returned by conn.Read (rx), without the 5-byte TLS record header added underneath',
]

S = 10**9
MAXUNIT = 16371        # mux_default_maxStreamUnitWrite (checked against Gen/Consts in correspondence)


def literal_bound(rate, q, dt):
    """the property text: rate x t plus one second's worth, within the limiter's 1 % (and 2 quanta of granularity)"""
    return (101 * rate * dt) // (100 * S) + rate + 2 * q + 1


def proved_bound_rate(rate, q, dt, cmax):
    return (101 * rate * dt) // (100 * S) + max(rate, cmax) + 2 * q + 1


def proved_bound_ticks(q, F, cap, s, e, cmax):
    return q * (e // F - s // F + 1) + max(cap, cmax)


# ---------------------------------------------------------------------------------------------
def gen_cases(ctx):
    rng = ctx.rng
    q = ctx.quick()
    lines, meta = [], {}
    fixed_rates = [1, 2, 3, 7, 10, 99, 100, 101, 999, 1000, 1001, 1024, 5000, 12345, 50000, 65535, 65536, 10**6, 1234567,
                   10**7, 98765432, 10**8, 999999937, 10**9, 10**9 + 1, 2 * 10**9, 3333333333, 10**10, 123456789012]
    rates = list(fixed_rates) + [int(10 ** rng.uniform(0, 10.5)) + 1 for _ in range(120 if q else 3000)]
    for i, r in enumerate(rates):
        cap = r if i % 3 else rng.randrange(1, 10**6)
        cid = 'R%d' % i
        lines.append('R %s %d %d' % (cid, r, cap)); meta[cid] = dict(kind='R', rate=r, cap=cap)
    for i, (rx, tx) in enumerate([(1000, 5000), (5000, 1000), (50000, 10**6), (10**6, 50000), (7, 10**9)]):
        cid = 'V%d' % i
        lines.append('V %s %d %d' % (cid, rx, tx)); meta[cid] = dict(kind='V', rx=rx, tx=tx)
    # fixed cases: the values the Coq development computes by vm_compute (C19_bound_inhabited, C19_refuted_small_rate)
    # must be what the library computes: ties the in-Coq evaluation (not only the extraction) to the code
    for cid, l, exp in [('Bfix0', 'B Bfix0 1000 1000 T:600 T:600 A:5 T:1000', 'w0 w200000000 - w1199999995'),
                        ('Bfix1', 'B Bfix1 1000 1000 T:16401', 'w15401000000')]:
        lines.append(l); meta[cid] = dict(kind='B', rate=1000, cap=1000, nops=len(l.split()) - 4, expect=exp)
    # bucket op sequences
    nb = 2000 if q else 40000
    for i in range(nb):
        rate = rng.choice([1, 10, 100, 1000, 5000, 50000, 10**6, 10**7, 10**9, rng.randrange(1, 10**7), int(10 ** rng.uniform(0, 10)) + 1])
        cap = rate if rng.random() < 0.6 else rng.choice([1, 10, rate * 10, rng.randrange(1, 100000)])
        fill = max(1, S // rate)
        ops = []
        for _ in range(rng.randrange(5, 40)):
            r = rng.random()
            if r < 0.35:
                d = rng.choice([0, 1, fill - 1, fill, fill + 1, rng.randrange(10 * fill + 1), rng.randrange(S), rng.randrange(5 * S), S, 20 * S])
                ops.append('A:%d' % d)
            elif r < 0.7:
                c = rng.choice([1, 2, rng.randrange(1, 20001), rng.randrange(1, 20001), cap, cap + 1, max(1, cap - 1), 16401, 0, -3])
                ops.append('T:%d' % c)
            elif r < 0.9:
                c = rng.choice([1, rng.randrange(1, 20001), cap, cap * 2 + 1, 0])
                m = rng.choice([0, 1, fill, rng.randrange(S), rng.randrange(30 * S), 10**12])
                ops.append('M:%d:%d' % (c, m))
            else:
                ops.append('V')
        cid = 'B%d' % i
        lines.append('B %s %d %d %s' % (cid, rate, cap, ' '.join(ops))); meta[cid] = dict(kind='B', rate=rate, cap=cap, nops=len(ops))
    # session scenarios
    sc = []

    def scen(dirn, rate, nsess, nconn, writers, tag):
        other = rate * 7 + 13
        rx, tx = (other, rate) if dirn == 'tx' else (rate, other)
        cid = 'S%d' % len(sc)
        toks = ['W:%d:%d:%d:%d:%d' % w for w in writers]
        line = 'S %s %s %d %d %d %d %s' % (cid, dirn, rx, tx, nsess, nconn, ' '.join(toks))
        sc.append(cid)
        lines.append(line)
        meta[cid] = dict(kind='S', dir=dirn, rate=rate, rx=rx, tx=tx, nsess=nsess, nconn=nconn, writers=writers, tag=tag, line=line)

    for rate in [1000, 5000, 50000, 10**6]:
        small = max(40, min(1400, rate // 4))
        for dirn in ('tx', 'rx'):
            scen(dirn, rate, 1, 1, [(0, small, 30, 0, 0)], 'backlog-small')
            scen(dirn, rate, 1, 1, [(0, 40000, 3, 0, 0)], 'backlog-split')
            scen(dirn, rate, 1, 1, [(0, small, 15, 3 * S // 10, 0)], 'paced')
            scen(dirn, rate, 1, 1, [(0, min(16000, max(50, rate // 2)), 6, 0, 3 * S)], 'idle-then-burst')
            scen(dirn, rate, 2, 1, [(0, small, 12, 0, 0), (1, small * 2, 8, 0, 0), (0, 50, 20, S // 10, S // 2), (1, small, 5, S, 0)], 'two-sessions')
            scen(dirn, rate, 3, 2, [(0, small, 10, 0, 0), (1, small, 10, 0, 0), (2, small, 10, 0, 0), (1, 3 * small, 4, S // 5, 2 * S)], 'three-sessions-two-conns')
            scen(dirn, rate, 1, 2, [(0, small, 10, 0, 0), (0, 2 * small, 6, S // 20, 0), (0, 20, 25, 0, S)], 'one-session-three-streams')
            scen(dirn, rate, 1, 1, [(0, MAXUNIT, 3, 0, 0)], 'max-frames')
    bl.session_scens(scen, rng, q)          # long-backlog families (1 s .. 1 h of queued demand on one valve)
    if not q:
        for k in range(300):
            rate = rng.choice([1000, 5000, 50000, 10**6, rng.randrange(500, 200000)])
            nsess = rng.randrange(1, 4)
            writers = [(rng.randrange(nsess), rng.choice([20, 100, 1000, max(30, rate // 3), 16000, 40000]), rng.randrange(1, 12),
                        rng.choice([0, 0, S // 10, S]), rng.choice([0, S // 2, 3 * S])) for _ in range(rng.randrange(1, 6))]
            # keep virtual durations and event counts moderate
            writers = [(s, min(sz, max(30, rate * 4)), c, g, d) for (s, sz, c, g, d) in writers]
            scen(rng.choice(['tx', 'rx']), rate, nsess, rng.randrange(1, 3), writers, 'random')
    for cid, line, m in bl.bucket_lines(rng, q) + bl.valve_lines(rng, q):
        lines.append(line); meta[cid] = m
    return lines, meta


# ---------------------------------------------------------------------------------------------
def parse_S(out):
    """'rx=.. tx=.. t0=.. shared=. | events | wire' -> dict"""
    head, ev, wire = (out.split('|') + ['', ''])[:3]
    d = {}
    for tok in head.split():
        k, _, v = tok.partition('=')
        d[k] = v
    d['events'] = [tuple(int(x) for x in e.split(':')) for e in ev.split()]
    d['wire'] = {w.split('=')[0]: [int(x) for x in w.split('=')[1].split(',')] for w in wire.split()}
    return d


def oracle_S(m, d, model_valve):
    """property text on what the implementation did.  Returns list of (signature, message, detail)."""
    res = []
    rate = m['rate']
    q, F, cap = model_valve       # what MakeValve must have built for the configured rate of this direction
    t0 = int(d['t0'])
    ev = d['events']
    if not ev:
        return res
    cmax = max(e[1] for e in ev)
    ts = [e[0] - t0 for e in ev]
    pre = [0]
    for e in ev:
        pre.append(pre[-1] + e[1])
    worst_new, worst_known = None, None
    n = len(ev)
    for i in range(n):
        if i and ts[i] == ts[i - 1]:
            continue                      # same start instant: the earlier index gives the larger sum
        for j in range(i, n):
            if j + 1 < n and ts[j + 1] == ts[j]:
                continue                  # extend to the last event of that instant
            b = pre[j + 1] - pre[i]
            dt = ts[j] - ts[i]
            lim_new = min(proved_bound_rate(rate, q, dt, cmax), proved_bound_ticks(q, F, cap, ts[i], ts[j], cmax))
            if b > lim_new:
                ex = b - lim_new
                if worst_new is None or ex > worst_new[0]:
                    worst_new = (ex, i, j, b, dt, lim_new)
            elif b > literal_bound(rate, q, dt):
                ex = b - literal_bound(rate, q, dt)
                if worst_known is None or ex > worst_known[0]:
                    worst_known = (ex, i, j, b, dt, literal_bound(rate, q, dt))
    fs = bl.from_start_excess(q, F, cap, ts, pre)
    if fs and (worst_new is None or fs[0] >= worst_new[0]):
        # C19_bound_from_start: for intervals that begin when the valve is made the literal bound is a theorem
        # (no allowance for the largest message), so this is never F14
        ex, j, b, lim = fs
        worst_new = None
        res.append(('rate-exceeded:%s' % m['dir'],
                    '%s direction, rate %d B/s, %d session(s): %d bytes were released in the first %d ns after the valve was made; the bucket held %d bytes and had been refilled with %d by then: proved bound %d (C19_bound_from_start; largest message %d)'
                    % (m['dir'], rate, m['nsess'], b, ts[j], cap, lim - cap, lim, cmax),
                    dict(first_event=ev[0], last_event=ev[j], bytes=b, interval_ns=ts[j], interval='from the creation of the valve', bound=lim, largest_message=cmax)))
    if worst_new:
        ex, i, j, b, dt, lim = worst_new
        res.append(('rate-exceeded:%s' % m['dir'],
                    '%s direction, rate %d B/s, %d session(s): %d bytes were released between t=%d ns and t=%d ns after the valve was made (interval of %d ns); proved bound %d (largest message %d)'
                    % (m['dir'], rate, m['nsess'], b, ts[i], ts[j], dt, lim, cmax),
                    dict(first_event=ev[i], last_event=ev[j], bytes=b, interval_ns=dt, bound=lim, largest_message=cmax)))
    if worst_known:
        ex, i, j, b, dt, lim = worst_known
        res.append(('burst-exceeds-one-second-when-rate<message:rate=%d:msg=%d' % (rate, cmax),
                    '%d bytes in %d ns at rate %d (literal bound %d); largest message %d > one second\'s worth' % (b, dt, rate, lim, cmax),
                    dict(first_event=ev[i], last_event=ev[j], bytes=b, interval_ns=dt, literal_bound=lim, largest_message=cmax)))
    return res


def frames_of(size):
    out = []
    while size > MAXUNIT:
        out.append(MAXUNIT); size -= MAXUNIT
    out.append(size)
    return out


def model_line_S(cid, m, d, model_valve):
    """G line for the deterministic configurations (one session, one connection, one writer); None otherwise"""
    if m['nsess'] != 1 or m['nconn'] != 1 or len(m['writers']) != 1:
        return None
    (s, size, count, gap, delay) = m['writers'][0]
    if m['dir'] == 'rx' and gap != 0:
        return None
    q, F, cap = model_valve
    sizes = [e[1] for e in d['events']]
    per_write = len(frames_of(size))
    if len(sizes) != per_write * count:
        return 'BAD'
    toks = []
    for i, c in enumerate(sizes):
        if i == 0:
            g = delay
        elif i % per_write == 0:
            g = gap if m['dir'] == 'tx' else 0
        else:
            g = 0
        toks.append('%d:%d' % (g, c))
    return 'G %s %d %d %d %s' % (cid, q, F, cap, ' '.join(toks))


def run_go(ctx, lines, tag):
    inp = '%s/%s.in' % (ctx.work, tag)
    out = '%s/%s.go.out' % (ctx.work, tag)
    open(inp, 'w').write('\n'.join(lines) + '\n')
    if os.path.exists(out):
        os.remove(out)
    rc, log, dt = vlib.go_test(ctx, 'multiplex', 'TestVerifC19', files=['c19_test.go'], synctest=True,
                               env=dict(VERIF_IN=inp, VERIF_OUT=out), timeout=900)
    res = vlib.read_lines_by_id(out)
    done = '#' in res and res.pop('#') == 'done'
    return rc, log, res, done


def run_model_lines(ctx, lines, tag):
    inp = '%s/%s.model.in' % (ctx.work, tag)
    out = '%s/%s.model.out' % (ctx.work, tag)
    open(inp, 'w').write('\n'.join(lines) + '\n')
    rc, err = vlib.run_model('c19', inp, out)
    return rc, err, vlib.read_lines_by_id(out)


def run_shared(ctx):
    out = '%s/shared.out' % ctx.work
    if os.path.exists(out):
        os.remove(out)
    rc, log, dt = vlib.go_test(ctx, 'server', 'TestVerifC19Shared', files=['c19_test.go'], env=dict(VERIF_OUT=out), timeout=600)
    txt = open(out).read() if os.path.exists(out) else ''
    return rc, log, txt


def check_shared(txt):
    """-> list of (signature, message)"""
    bad = []
    if '# done' not in txt:
        return [('driver', 'TestVerifC19Shared did not finish')]
    for ln in txt.splitlines():
        f = ln.split()
        if not f or f[0] == '#':
            continue
        kv = dict(x.split('=') for x in f if '=' in x)
        if f[0] in ('shared', 'again') and kv.get('same') != '1':
            bad.append(('valve-not-shared', 'sessions of one user obtained from GetUser/GetSession do not hold one valve: ' + ln))
        if f[0] == 'users' and kv.get('distinct') != '1':
            bad.append(('valve-shared-across-users', ln))
        if f[0] == 'rates' and (kv['rxcap'] != kv['up'] or kv['txcap'] != kv['down']):
            bad.append(('rates-misassigned', 'valve capacities do not match the user record (rx=UpRate, tx=DownRate): ' + ln))
    return bad


# ---------------------------------------------------------------------------------------------
# overlapped admissions (harness/server/c19_overlap_test.go): first connections of one user held inside
# Manager.AuthenticateUser, then all sessions backlogged; one valve, and the bound for the user as a whole

def gen_overlap(rng, quick, dense=False):
    """-> [(id, line, meta)]"""
    import itertools
    out = []

    def add(tag, up, down, sched, writers):
        cid = 'O%d' % len(out)
        line = 'O %s %d %d %s %s' % (cid, up, down, ','.join(sched), ' '.join('W:%d:%d:%d:%d:%d' % w for w in writers))
        out.append((cid, line, dict(kind='O', dir='tx', rate=down, rx=up, tx=down, nsess=len(set(w[0] for w in writers)), tag=tag,
                                    schedule=sched, writers=writers, line=line)))
    back2 = [(0, 5000, 30, 0, 0), (1, 5000, 30, 0, 0)]
    # exhaustive: two first connections, the first held in the user database; every order of releasing them,
    # the second held too or not; + the sequential baseline
    for second in ('s1a', 's1'):
        for rel in itertools.permutations(('r0', 'r1')):
            add('two-first-connections', 50000, 100000, ['s0a', second] + list(rel), back2)
    add('sequential-baseline', 50000, 100000, ['s0', 's1'], back2)
    add('first-released-before-second-arrives', 50000, 100000, ['s0a', 'r0', 's1a', 'r1'], back2)
    # three first connections: every release order
    for rel in itertools.permutations(('r0', 'r1', 'r2')):
        add('three-first-connections', 50000, 200000, ['s0a', 's1a', 's2a'] + list(rel),
            [(0, 1400, 60, 0, 0), (1, 1400, 60, 0, 0), (2, 1400, 60, 0, S // 2)])
    # seeded: rates x number of connections x release orders x writers
    for _ in range((6 if quick else 60) * (4 if dense else 1)):
        n = rng.choice([2, 2, 3, 4])
        down = rng.choice([20000, 100000, 10**6])
        sched = ['s%d%s' % (i, 'a' if (i == 0 or rng.random() < 0.7) else '') for i in range(n)]
        rel = ['r%d' % i for i in range(n)]
        rng.shuffle(rel)
        # a release may come before a later connection arrives
        cut = rng.randrange(1, n + 1)
        sched = sched[:cut] + rel[:1] + sched[cut:] + rel[1:]
        small = max(40, min(5000, down // 20))
        writers = [(i, rng.choice([small, small * 2, 1400]), rng.randrange(10, 40), rng.choice([0, 0, S // 100]), rng.choice([0, 0, S // 3])) for i in range(n)]
        add('seeded', rng.choice([5000, 50000]), down, sched, writers)
    return out


def run_overlap(ctx, cases, tag='overlap'):
    inp = '%s/%s.in' % (ctx.work, tag)
    out = '%s/%s.go.out' % (ctx.work, tag)
    open(inp, 'w').write('\n'.join(l for _, l, _ in cases) + '\n')
    if os.path.exists(out):
        os.remove(out)
    rc, log, dt = vlib.go_test(ctx, 'server', 'TestVerifC19Overlap', files=['c19_overlap_test.go'], synctest=True,
                               env=dict(VERIF_IN=inp, VERIF_OUT=out), timeout=600)
    res = vlib.read_lines_by_id(out)
    done = '#' in res and res.pop('#') == 'done'
    return rc, log, res, done


def parse_O(out):
    head, _, ev = out.partition('|')
    d = dict(tok.partition('=')[::2] for tok in head.split())
    d['events'] = [tuple(int(x) for x in e.split(':')) for e in ev.split()]
    return d


def describe_schedule(sched):
    res = []
    for tok in sched:
        i = tok[1:].rstrip('a')
        if tok[0] == 's':
            res.append('connection %s of the user (session id %d) calls GetUser then GetSession%s' % (
                i, int(i) + 1, ' - held inside Manager.AuthenticateUser' if tok.endswith('a') else ''))
        else:
            res.append('connection %s is released (if it is held)' % i)
    res.append('everything still held is released; every session is then backlogged by its writer(s)')
    return res


def eval_O(ctx, m, out, vcache):
    """-> (oracle failures [(sig, msg, detail)], mismatch text or None, parsed)"""
    d = parse_O(out)
    if d.get('err', '-') != '-':
        return [], 'overlap driver: ' + d['err'], d
    orc = []
    if d.get('valves') != '1' or d.get('records') != '1':
        orc.append(('valve-not-shared:overlapped-admissions',
                    'after the schedule %s the %d sessions of ONE user hold %s different valves (%s ActiveUser records): each session draws on its own token buckets; goroutine states after each schedule step (P held in the user database, L waiting for a lock, F finished): %s'
                    % (','.join(m['schedule']), m['nsess'], d.get('valves'), d.get('records'), d.get('states')), dict(states=d.get('states'))))
    mv = valve_of(None, m['rx'], m['tx'], vcache, ctx)
    mism = None
    if mv is None or d.get('tx') != ','.join(map(str, mv[1])):
        mism = 'valve of the admitted user (DownRate %d): implementation tx=%s, model %s' % (m['tx'], d.get('tx'), mv and mv[1])
    elif d['events']:
        orc += oracle_S(m, d, mv[1])
    return orc, mism, d


def check_overlap(ctx, verdict, cases, res, tag='overlap'):
    """runs the overlapped admissions, reports oracle failures (shortest schedule first); -> (n oracle failures new, stats)"""
    rc, log, impl, done = run_overlap(ctx, cases, tag)
    if rc != 0 or not done:
        res['broken'].append(('Go driver TestVerifC19Overlap failed to build or run (rc=%d, finished=%s)' % (rc, done), log[-3000:]))
    vcache = {}
    fails, mism = [], []
    nev = nint = 0
    states = {}
    for cid, line, m in cases:
        if cid not in impl:
            continue
        orc, vm, d = eval_O(ctx, m, impl[cid], vcache)
        nev += len(d['events']); nint += len(d['events']) * (len(d['events']) + 1) // 2
        for st in (d.get('states') or '').split('/'):
            states[st] = states.get(st, 0) + 1
        if vm:
            mism.append((line, vm))
        for sig, what, det in orc:
            fails.append((len(m['schedule']) + len(m['writers']), cid, sig, what, det, line, m, impl[cid]))
    new = 0
    seen = {}
    for _, cid, sig, what, det, line, m, io in sorted(fails, key=lambda x: (x[0], x[1])):
        key = sig.split(':')[0]
        seen[key] = seen.get(key, 0) + 1
        if seen[key] > 1 and not sig.startswith('burst-exceeds'):
            continue
        r = verdict.oracle_failure(sig, 'C19 oracle (overlapped first connections of one user): ' + what,
                                   dict(overlap_line=line, schedule=describe_schedule(m['schedule']), detail=det, implementation=io[:1500],
                                        how='python3 tools/check.py C19 --replay <this file>'))
        if r == 'new':
            new += 1
    if mism and rc == 0:
        res['broken'].append(('MakeValve for the admitted user vs model: %d overlap scenarios differ' % len(mism), '%s\n%s' % mism[0]))
    return new, dict(scenarios=len(impl), events=nev, intervals_checked=nint, goroutine_state_patterns=states, oracle_failures=len(fails))


def search(ctx, verdict, problems):
    """A proof obligation (e.g. the generated atomicity obligation about GetUser) or the correspondence broke and no
    rate violation was seen: run the overlapped admissions densely."""
    res = dict(broken=[])
    new, stats = check_overlap(ctx, verdict, gen_overlap(ctx.rng, ctx.quick(), dense=True), res, tag='search')
    ctx.notes.append('search over overlapped admissions: %s' % stats)
    return new > 0


def valve_of(model, rx, tx, cache, ctx):
    key = (rx, tx)
    if key not in cache:
        rc, err, out = run_model_lines(ctx, ['V v %d %d' % (rx, tx)], 'valve')
        o = out.get('v', 'none')
        if o == 'none':
            cache[key] = None
        else:
            a, b = o.split()
            cache[key] = (tuple(int(x) for x in a[3:].split(',')), tuple(int(x) for x in b[3:].split(',')))
    return cache[key]


def eval_S(ctx, cid, m, out, vcache):
    """-> (oracle results, mismatch text or None, model line or None, parsed)"""
    d = parse_S(out)
    mv = valve_of(None, m['rx'], m['tx'], vcache, ctx)
    mism = None
    impl_rx = tuple(int(x) for x in d['rx'].split(','))
    impl_tx = tuple(int(x) for x in d['tx'].split(','))
    if mv is None or (impl_rx, impl_tx) != mv:
        mism = 'MakeValve(%d,%d): implementation rx=%s tx=%s, model %s' % (m['rx'], m['tx'], impl_rx, impl_tx, mv)
    params = mv[1] if m['dir'] == 'tx' else mv[0]
    if mism is None and m['dir'] == 'rx' and m['nsess'] == 1 and m['nconn'] == 1 and len(m['writers']) == 1 and [e[1] for e in d['events']] != d['wire'].get('c0.0', []):
        mism = 'rx tap sizes differ from what the peer wrote'
    orc = oracle_S(m, d, params)
    if d.get('shared') != '1':
        orc.append(('valve-not-shared', 'a session built with the valve does not use it in its switchboard', {}))
    return orc, mism, model_line_S(cid, m, d, params), d, params


def starvation(m, d, params):
    """C19_not_starved_partial on a backlogged single sender (ideal sleeps = virtual time)"""
    if m['nsess'] != 1 or m['nconn'] != 1 or len(m['writers']) != 1 or m['dir'] != 'tx':
        return None
    (s, size, count, gap, delay) = m['writers'][0]
    if gap or delay:
        return None
    q, F, cap = params
    rate = m['rate']
    if q > rate:
        return None
    t0 = int(d['t0'])
    K = 0
    for (t, n, _) in d['events']:
        K += n
        r = t - t0
        if r != 0 and not (99 * rate * r < 100 * S * (K - rate + q)):
            return 'backlogged sender: the message completing %d bytes left at %d ns, later than (K - rate + q)/(0.99 rate) = %d ns' % (K, r, 100 * S * (K - rate + q) // (99 * rate))
    return None


def correspondence(ctx, verdict, pr):
    res = dict(broken=[])
    lines, meta = gen_cases(ctx)
    sh = {}
    th = threading.Thread(target=lambda: sh.update(r=run_shared(ctx)))
    th.start()
    ovcases = gen_overlap(ctx.rng, ctx.quick()) + bl.overlap_cases()
    rc, log, impl, done = run_go(ctx, lines, 'cases')
    if rc != 0 or not done:
        res['broken'].append(('Go driver TestVerifC19 failed to build or run (rc=%d, finished=%s)' % (rc, done), log[-3000:]))
    # model: R, V, B lines as they are
    mrc, merr, model = run_model_lines(ctx, [l for l in lines if l[0] in 'RVB'], 'cases')
    if mrc != 0:
        res['broken'].append(('extracted model c19 failed', (merr or '')[-2000:]))
    mism = []
    counts = dict(R=0, V=0, B=0, S=0, L=0)
    for l in lines:
        f = l.split()
        cid = f[1]
        k = meta[cid]['kind']
        if cid not in impl:
            continue
        counts[k] += 1
        if k == 'R':
            a, _, b = impl[cid].partition(' | ')
            if a != b:
                mism.append((l, 'NewBucketWithRate vs NewBucketWithRateAndClock: %s | %s' % (a, b), model.get(cid)))
            elif model.get(cid) != a:
                mism.append((l, a, model.get(cid)))
        elif k in 'VB':
            if model.get(cid) != impl[cid]:
                mism.append((l, impl[cid], model.get(cid)))
            elif meta[cid].get('expect') not in (None, impl[cid]):
                mism.append((l, impl[cid], 'Coq vm_compute (Properties/C19.v): ' + meta[cid]['expect']))
    # scenarios
    vcache = {}
    glines, gexp = [], {}
    orc_new, known, nevents, nint = 0, 0, 0, 0
    tags = []
    qlines, qexp = [], {}
    rep_L = rep_S = 0
    lstats = dict(valve_call_scenarios=0, calls=0, compared_with_model=0, longest_wait_s=0, by_threshold_crossed={})
    for l in lines:                      # the real valve called directly (long-backlog families)
        cid = l.split()[1]
        m = meta[cid]
        if m['kind'] != 'L' or cid not in impl:
            continue
        orc, vm, d, params = eval_L(ctx, cid, m, impl[cid], vcache)
        lstats['valve_call_scenarios'] += 1; lstats['calls'] += len(d['calls'])
        nevents += len(d['events']); nint += len(d['events']) * (len(d['events']) + 1) // 2
        if d['calls']:
            lstats['longest_wait_s'] = max(lstats['longest_wait_s'], max(c[1] - c[0] for c in d['calls']) // S)
        bl.tally(lstats, 'valve', m['dir'], m['tag'], m['demand_s'], [o for o in orc if not o[0].startswith('burst-exceeds')])
        if vm:
            mism.append((l, vm, ''))
        elif params:
            ql, exp = bl.model_line_L(cid, d, params)
            qlines.append(ql); qexp[cid] = (l, bl.parse_q_out(exp))
        for sig, what, det in orc:
            small = l
            if not sig.startswith('burst-exceeds'):
                if rep_L >= 1:            # one report from the valve alone; the next come from real sessions
                    orc_new += 1
                    continue
                rep_L += 1
                small = shrink_L(ctx, l, sig)
            r = verdict.oracle_failure(sig, 'C19 oracle (LimitedValve.%sWait called directly by %d goroutine(s)): %s' % (m['dir'], len(m['callers']), what),
                                       dict(line=small, original_line=l if small != l else None, detail=det, implementation=impl[cid][:2000],
                                            how='python3 tools/check.py C19 --replay <this file>'))
            if r == 'known':
                known += 1
            else:
                orc_new += 1
    for l in lines:
        f = l.split()
        cid = f[1]
        m = meta[cid]
        if m['kind'] != 'S' or cid not in impl:
            continue
        tags.append('%s/%s/rate=%d' % (m['dir'], m['tag'], m['rate']))
        orc, vm, gl, d, params = eval_S(ctx, cid, m, impl[cid], vcache)
        nevents += len(d['events'])
        nint += len(d['events']) * (len(d['events']) + 1) // 2
        if vm:
            mism.append((l, vm, ''))
        if gl == 'BAD':
            mism.append((l, 'number of frames on the wire differs from ceil(size/%d) per write' % MAXUNIT, ''))
        elif gl:
            glines.append(gl)
            gexp[cid] = ' '.join('%d:%d' % (e[0] - int(d['t0']), e[1]) for e in d['events'])
        ql = bl.model_line_Q(cid, m, d, params) if not vm else None
        if ql == 'BAD':
            mism.append((l, 'frame sizes on the wire are not payload + %d + padding (0..%d)' % (bl.OVH, bl.PADMAX), ''))
        elif ql:
            qlines.append(ql[0]); qexp[cid] = (l, ql[1])
        bl.tally(lstats, 'sessions', m['dir'], m['tag'], sum(w[1] * w[2] for w in m['writers']) / float(m['rate']),
                 [o for o in orc if not o[0].startswith('burst-exceeds')])
        st = starvation(m, d, params)
        if st:
            orc.append(('starved', st, {}))
        for sig, what, det in orc:
            small = l
            if not sig.startswith('burst-exceeds'):
                if rep_S >= 2:            # report a couple, count the rest
                    orc_new += 1
                    continue
                rep_S += 1
                small = shrink(ctx, l, m, sig)
            r = verdict.oracle_failure(sig, 'C19 oracle: ' + what, dict(line=small, original_line=l if small != l else None, detail=det,
                                       implementation=impl[cid][:2000], how='python3 tools/check.py C19 --replay <this file>'))
            if r == 'known':
                known += 1
            else:
                orc_new += 1
    if glines:
        grc, gerr, gm = run_model_lines(ctx, glines, 'seq')
        for cid, exp in gexp.items():
            if gm.get(cid) != exp:
                mism.append((meta[cid]['line'], 'release times ' + str(exp)[:600], 'model ' + str(gm.get(cid))[:600]))
    if qlines:
        qrc, qerr, qm = run_model_lines(ctx, qlines, 'conc')
        for cid, (l, exp) in qexp.items():
            got = bl.parse_q_out(qm.get(cid))
            if got != exp:
                mism.append((l, 'release times (ns since the valve was made : bytes) ' + str(exp)[:600], 'model ' + str(got)[:600]))
        lstats['compared_with_model'] = len(qexp)
    th.join()
    ov_new, ov_stats = check_overlap(ctx, verdict, ovcases, res)
    orc_new += ov_new
    src, slog, stxt = sh.get('r', (1, 'not run', ''))
    if src != 0:
        res['broken'].append(('Go driver TestVerifC19Shared failed (rc=%d)' % src, slog[-3000:]))
    for sig, what in check_shared(stxt)[:2]:
        verdict.oracle_failure(sig, 'C19 oracle (one valve per user): ' + what,
                               dict(driver='harness/server/c19_test.go TestVerifC19Shared', output=stxt))
        orc_new += 1
    if mism and rc == 0 and mrc == 0:
        l, io, mo = min(mism, key=lambda x: len(x[0]))
        res['broken'].append(('model Bucket.v vs juju/ratelimit / MakeValve / switchboard: %d cases differ' % len(mism),
                              'smallest differing case: %s\nimplementation: %s\nmodel:          %s' % (l[:2000], str(io)[:1500], str(mo)[:1500])))
    verdict.cov.update(
        evaluations=sum(counts.values()), distinct_nontrivial=len(set(l.split(' ', 2)[2] for l in lines if l.split()[1] in impl)),
        rule='R: quantum search for fixed + seeded rates (1 .. 1e10.5); B: seeded op sequences on one bucket with a fake clock (Take counts 1..20000 and <= 0, TakeMaxDuration, Available, advances 0..20 s incl. +-1 ns around the fill interval); S: session scenarios rates {1000,5000,50000,1e6} x tx/rx x 1-3 sessions sharing one valve x 1-2 conns x write sizes / pacing, EVERY pair of events checked against the proved bound; long-backlog families (c19_backlog.py) on B (incl. Wait / WaitMaxDuration on the injected clock), L (the real LimitedValve.rxWait/txWait called directly by 1-451 goroutines) and S (rates 4 .. 16030 B/s, up to 9 sessions): queued demand of 1 s, 10 s, 30 s, 31 s, 60 s, 10 min, 1 h. distinct = distinct case bodies',
        samples=[lines[0], [l for l in lines if l[0] == 'B'][0][:300], [l for l in lines if l[0] == 'S'][0], [l for l in lines if l[0] == 'S'][5]],
        traces_validated_against_impl=len(impl), mismatches=len(mism), oracle_failures=orc_new, known_finding_hits=known,
        input_distribution=dict(kinds=counts, scenarios=vlib.summarize_dist([t.rsplit('/', 1)[0] for t in tags])),
        scenario_events=nevents, intervals_checked=nint, deterministic_scenarios_compared_with_model=len(gexp),
        shared_valve_driver=stxt.splitlines()[:12], exhaustive=False,
        long_backlog=dict(lstats, thresholds_s=bl.THRESHOLDS, what='queued demand on ONE valve of 1 s .. 1 h of the configured rate: message/rate ratios, N concurrently blocked senders (streams, connections, sessions), small messages behind big ones; B: library bucket with injected clock incl. Wait/WaitMaxDuration; L: the real valve called directly; S: real sessions, both directions; O: sessions admitted through the userPanel. by_threshold_crossed counts scenarios per driver and direction by the largest threshold (s) their total demand reaches; families counts them by family; scenarios with pairwise distinct request instants are compared with the model to the nanosecond'),
        overlapped_admissions=dict(ov_stats, what='first connections of one limited user held inside Manager.AuthenticateUser (UserManager seam) in every release order for 2 and 3 connections + seeded schedules; then all sessions backlogged under virtual time; oracle: one valve / one record, every interval of the merged event stream within the bound for the user as a whole'))
    return res


def eval_L(ctx, cid, m, out, vcache):
    """the valve called directly: -> (oracle results, mismatch text or None, parsed, valve parameters of the direction)"""
    d = bl.parse_L(out)
    mv = valve_of(None, m['rx'], m['tx'], vcache, ctx)
    mism = None
    impl_rx = tuple(int(x) for x in d['rx'].split(','))
    impl_tx = tuple(int(x) for x in d['tx'].split(','))
    if mv is None or (impl_rx, impl_tx) != mv:
        return [], 'MakeValve(%d,%d): implementation rx=%s tx=%s, model %s' % (m['rx'], m['tx'], impl_rx, impl_tx, mv), d, None
    params = mv[1] if m['dir'] == 'tx' else mv[0]
    want = sum(c[2] for c in m['callers'])
    if len(d['calls']) != want:
        mism = '%d of %d calls of %sWait returned' % (len(d['calls']), want, m['dir'])
    return oracle_S(m, d, params), mism, d, params


def meta_of_L(line):
    f = line.split()
    dirn, rx, tx = f[2], int(f[3]), int(f[4])
    callers = [tuple(int(x) for x in c.split(':')[1:]) for c in f[5:]]
    rate = tx if dirn == 'tx' else rx
    return dict(kind='L', dir=dirn, rate=rate, rx=rx, tx=tx, callers=callers, nsess=len(callers), tag='replay',
                demand_s=sum(c[1] * c[2] for c in callers) / float(rate), line=line)


def fails_L(ctx, line, sig):
    rc, log, impl, done = run_go(ctx, [line], 'shrink')
    cid = line.split()[1]
    if cid not in impl:
        return False
    orc, vm, d, params = eval_L(ctx, cid, meta_of_L(line), impl[cid], {})
    return any(s.split(':')[0] == sig.split(':')[0] for s, _, _ in orc)


def shrink_L(ctx, line, sig, budget=6):
    """fewer callers, then fewer calls per caller, while the same kind of failure remains"""
    f = line.split()
    head, cs = f[:5], f[5:]
    n = 0
    while len(cs) > 1 and n < budget:          # halves first (451 callers), then single callers
        half = cs[:(len(cs) + 1) // 2]
        n += 1
        if fails_L(ctx, ' '.join(head + half), sig):
            cs = half
        else:
            break
    i = 0
    while i < len(cs) and len(cs) > 1 and n < budget:
        cand = cs[:i] + cs[i + 1:]
        n += 1
        if fails_L(ctx, ' '.join(head + cand), sig):
            cs = cand
        else:
            i += 1
    return ' '.join(head + cs)


def shrink(ctx, line, m, sig, budget=5):
    """drop writers while the same kind of failure remains"""
    f = line.split()
    head, ws = f[:7], f[7:]
    n = 0
    changed = True
    while changed and len(ws) > 1 and n < budget:
        changed = False
        for i in range(len(ws)):
            cand = ws[:i] + ws[i + 1:]
            n += 1
            if fails(ctx, ' '.join(head + cand), sig):
                ws = cand; changed = True
                break
            if n >= budget:
                break
    return ' '.join(head + ws)


def meta_of_line(line):
    f = line.split()
    dirn, rx, tx, nsess, nconn = f[2], int(f[3]), int(f[4]), int(f[5]), int(f[6])
    writers = [tuple(int(x) for x in w.split(':')[1:]) for w in f[7:]]
    return dict(kind='S', dir=dirn, rate=tx if dirn == 'tx' else rx, rx=rx, tx=tx, nsess=nsess, nconn=nconn, writers=writers, tag='replay', line=line)


def fails(ctx, line, sig):
    rc, log, impl, done = run_go(ctx, [line], 'shrink')
    cid = line.split()[1]
    if cid not in impl:
        return False
    orc, vm, gl, d, params = eval_S(ctx, cid, meta_of_line(line), impl[cid], {})
    return any(s.split(':')[0] == sig.split(':')[0] for s, _, _ in orc)


def replay(ctx, verdict):
    r = ctx.replay
    if r.get('overlap_line'):
        line = r['overlap_line']
        f = line.split()
        sched = f[4].split(',')
        writers = [tuple(int(x) for x in wtok.split(':')[1:]) for wtok in f[5:]]
        m = dict(kind='O', dir='tx', rate=int(f[3]), rx=int(f[2]), tx=int(f[3]), nsess=len(set(wr[0] for wr in writers)), schedule=sched, writers=writers, line=line)
        rc, log, impl, done = run_overlap(ctx, [(f[1], line, m)], 'replay')
        print('scenario:', line)
        for ln in describe_schedule(sched):
            print('   ', ln)
        if f[1] not in impl:
            print(log[-2000:]); return 1
        print('implementation:', impl[f[1]][:1500])
        orc, vm, d = eval_O(ctx, m, impl[f[1]], {})
        for sig, what, det in orc:
            print('oracle:', sig, what)
        return 1 if [o for o in orc if not o[0].startswith('burst-exceeds')] else 0
    line = r.get('line')
    if not line:
        print(json.dumps(r, indent=1)); return 0
    rc, log, impl, done = run_go(ctx, [line], 'replay')
    cid = line.split()[1]
    print('scenario:', line)
    print('implementation:', impl.get(cid, '')[:3000])
    if cid not in impl:
        print(log[-2000:]); return 1
    if line.startswith('L '):
        print('   (LimitedValve.%sWait called directly; C:<delay ns>:<bytes>:<calls>:<pause ns> per goroutine; output <call>:<return>:<bytes>:<goroutine>)' % line.split()[2])
        orc, vm, d, params = eval_L(ctx, cid, meta_of_L(line), impl[cid], {})
        if params:
            ql, exp = bl.model_line_L(cid, d, params)
            qrc, qerr, qm = run_model_lines(ctx, [ql], 'replay')
            print('model (Wait = take the tokens, sleep until they are there), release times since the valve was made:', qm.get(cid))
            print('implementation, same order:                                                                      ', exp)
        for sig, what, det in orc:
            print('oracle:', sig, what)
        return 1 if vm or [o for o in orc if not o[0].startswith('burst-exceeds')] else 0
    orc, vm, gl, d, params = eval_S(ctx, cid, meta_of_line(line), impl[cid], {})
    print('valve parameters expected (model):', params, ' mismatch:', vm)
    for sig, what, det in orc:
        print('oracle:', sig, what)
    bad = [o for o in orc if not o[0].startswith('burst-exceeds')]
    return 1 if bad else 0


MANIFEST = dict(
    technique='Coq proof by induction over all request sequences of a model of juju/ratelimit\'s token bucket (accounting lemma + monotone release ticks), in tick and in rate form; model tied to the library by differential execution with an injected clock and to Cloak\'s use of it by real Sessions with a real LimitedValve under virtual time (testing/synctest), every interval between events checked',
    level_text='C19_bound: for EVERY request sequence with non-decreasing times and EVERY interval [s,e], bytes released <= quantum*(ticks touched) + max(capacity, largest request) (proved: release ticks are monotone; a block of requests released inside a tick window is paid for by the bucket content at its first arrival plus the refill). C19_partial: for MakeValve\'s buckets and messages <= one second\'s worth this is 1.01*rate*t + rate + 2 quanta. C19_refuted: the literal property (all message sizes) is FALSE - at 1000 B/s a 16401-byte frame is released whole (F14, known finding, reproduced on the real sessions). C19_shared: all sessions of a user draw from one bucket, so the bound holds for their sum. C19_not_starved_partial (model, ideal sleeps): a backlogged sender gets at least 0.99*rate. C19_never_released_early / C19_backlog_wait / C19_wait_unbounded: the wait is unbounded in the backlog - the request completing the first K requested bytes is released no earlier than tick (K - capacity)/quantum, for every sequence and message size; C19_bound_from_start: counted from the creation of the valve the literal bound holds for all message sizes; C19_refuted_capped_wait: a valve using WaitMaxDuration(30 s) releases unpaid messages. Generated obligation Proofs/AtomValve.v: the valve calls Bucket.Wait (or Take + time.Sleep) and nothing else of the bucket API, once, before the write / between read and processing. Every run: ~150 rates through the real quantum search, 2000 op sequences on the real bucket with a fake clock, 114 session scenarios under virtual time with every pair of events checked against the bound (and every prefix against the bound from the start), 95 scenarios calling the real valve directly, long-backlog families with 1 s .. 1 h of queued demand on one valve (message/rate ratios, 2-451 concurrently blocked senders over streams / connections / sessions, small messages behind big ones, both directions), deterministic scenarios (single writer, or concurrent senders with distinct request instants) compared with the model to the nanosecond, pointer identity of the valve across sessions from the real userPanel.',
    level_note='Upper bound only for the deployed system (timers oversleep). F14: burst of one message exceeds one second\'s worth when rate < message size (known finding). Trusted: Coq kernel, extraction, synctest, float64 quantum search validated by comparison, bolt.',
    design_ref='DESIGN.md section 6, C19; finding F14')
