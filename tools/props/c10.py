"""C10 - everything on the wire in direct mode is a well-formed TLS record stream."""
import os, json, re, itertools
import vlib
from props.c06 import pairwise, hx

PROP_FILES = ['Properties/C10']
EXTRA_OBLIGATION_FILES = ['Proofs/AtomWire', 'Proofs/AtomFront']
TRUSTED = [
    'atomic steps of the hand-written model as GENERATED obligations (Proofs/AtomWire.v, re-proved on every run about coq/Gen/Atomicity.v; in a private re-generated copy under VERIF_EXTRA_OVERLAY): tools/lockscan (go/ast, syntactic types) is trusted to list, per function of internal/{server,multiplex,common,client}, every field access / call / sync/atomic operation with the critical sections (Lock..Unlock / RLock..RUnlock / deferred unlock, mutex identity by name) it lies in, every sync.Pool.Put with the later mentions of the object, and every variable a go statement shares with its spawner (anything it cannot resolve is in atomicity_errors, which must be empty); it does not follow calls (a region is what one function writes between Lock and Unlock), does no alias analysis, treats callbacks as running with no lock held, and counts call sites, not executions (a loop around one call site is invisible)',
    'Coq 8.16.1 kernel incl. vm_compute (no native_compute); every C10 theorem is Closed under the global context',
    'uTLS (BuildHandshakeState) is a BLACK BOX: "structurally valid ClientHello" is exactly as strong as the grammar wf_client_hello of '
    'coq/Model/HelloGrammar.v (one record type 22 version 0x0301, handshake type 1 with consistent uint24 length, legacy_version 0x0303, 32-byte '
    'random, 32-byte session id, even non-empty cipher-suite list, non-empty compression list, extension block whose lengths nest exactly, no '
    'duplicate extension type, server_name with exactly the expected host name, key_share with nesting entries whose first x25519 entry has 32 '
    'bytes, supported_versions offering 0x0304) - not a full TLS 1.3 validator; that REAL hellos satisfy it is established by the correspondence only',
    'hand-written models: coq/Model/HelloGrammar.v (independent grammar written from RFC 8446, also the composer) and the writers in '
    'coq/Model/Auth.v (compose_reply = composeServerHello/composeReply/addRecordLayer byte for byte; tlsconn_write = TLSConn.Write)',
    'the frame-size facts about the multiplexer are stated over the generated constants of coq/Gen/Consts.v (frameHeaderLength 14, maxExtraLen 255, '
    'appDataMaxLength 16401 both ends, measured TLSConn limit 16640, measured maxStreamUnitWrite 16132); that obfuscate emits '
    '14+payload+extra bytes with extra <= maxExtraLen is C04\'s theorem (worker codec) and is re-observed here on the wire',
    'correspondence: in-package Go driver harness/server/c10_test.go + c06_rig_test.go (real client.MakeSession against real dispatchConnection / '
    'serveSession with an echo proxy, passive tap on both directions of every connection) vs extracted OCaml grammar (ocaml/c10_driver.ml) '
    'and vs the same grammar coded independently in Python (this file) on the raw tap bytes',
]
ASSUMPTIONS = [
    'direct (TLS-mimicking) transport only; session id of the ClientHello is 32 bytes (the client always writes 32)',
    'certificate payload of the reply 1..16384 bytes (the code draws 27..68)',
    'messages handed to TLSConn.Write have 0 < length <= 16640 (from the frame-size bound; longer ones are refused and nothing is written)',
    'rejected connections: the redirect target of the harness is a decoy that answers a ClientHello with a hand-composed TLS 1.3 flight '
    '(ServerHello echoing the legacy session id, ChangeCipherSpec, two application-data records); with a target that does not speak TLS the '
    'relayed bytes are whatever it sends (C09: byte-exact relay)',
]

MOD = 'c10'
TLDS = 'com net org it fr me ru cn es tr top xyz info'.split()
RANDOM_NAME = re.compile(rb'[a-z]{3,12}\.(' + '|'.join(TLDS).encode() + rb')')
MAXREC = 2**14 + 256


# ------------------------------------------------------------------------------------------------
# the same grammar, coded independently in Python on raw bytes (RFC 8446 4.1.2, 4.1.3, 4.2, 5.1)
class Bad(Exception):
    pass


def records(b):
    out, p = [], 0
    while p < len(b):
        if p + 5 > len(b):
            raise Bad('truncated record header at %d' % p)
        t, ver, ln = b[p], int.from_bytes(b[p + 1:p + 3], 'big'), int.from_bytes(b[p + 3:p + 5], 'big')
        if p + 5 + ln > len(b):
            raise Bad('record at %d claims %d bytes, only %d left' % (p, ln, len(b) - p - 5))
        out.append((t, ver, b[p + 5:p + 5 + ln]))
        p += 5 + ln
    return out


def tlvs(b):
    out, p = [], 0
    while p < len(b):
        if p + 4 > len(b):
            raise Bad('truncated extension header')
        t, ln = int.from_bytes(b[p:p + 2], 'big'), int.from_bytes(b[p + 2:p + 4], 'big')
        if p + 4 + ln > len(b):
            raise Bad('extension overruns its block')
        out.append((t, b[p + 4:p + 4 + ln]))
        p += 4 + ln
    return out


def client_hello(rec, name):
    t, ver, body = rec
    if t != 22 or ver != 0x0301:
        raise Bad('first client record is type %d version %04x' % (t, ver))
    if len(body) < 4 or body[0] != 1 or int.from_bytes(body[1:4], 'big') != len(body) - 4:
        raise Bad('not a ClientHello handshake message with consistent length')
    h = body[4:]
    if len(h) < 35 or h[0:2] != b'\x03\x03':
        raise Bad('legacy_version')
    rnd = h[2:34]
    sl = h[34]
    p = 35
    sid = h[p:p + sl]; p += sl
    if sl != 32 or len(sid) != 32:
        raise Bad('session id length %d' % sl)
    if p + 2 > len(h):
        raise Bad('truncated')
    cl = int.from_bytes(h[p:p + 2], 'big'); p += 2
    if cl < 2 or cl % 2 or p + cl > len(h):
        raise Bad('cipher suites')
    p += cl
    if p + 1 > len(h):
        raise Bad('truncated')
    ml = h[p]; p += 1
    if ml < 1 or p + ml > len(h):
        raise Bad('compression methods')
    p += ml
    if p + 2 > len(h) or int.from_bytes(h[p:p + 2], 'big') != len(h) - p - 2:
        raise Bad('extensions length')
    exts = tlvs(h[p + 2:])
    types = [t for t, _ in exts]
    if len(set(types)) != len(types):
        raise Bad('duplicate extension')
    d = dict(exts)
    if 0 not in d or 51 not in d or 43 not in d:
        raise Bad('missing server_name / key_share / supported_versions')
    sn = d[0]
    if len(sn) < 5 or int.from_bytes(sn[0:2], 'big') != len(sn) - 2 or sn[2] != 0 or int.from_bytes(sn[3:5], 'big') != len(sn) - 5 or len(sn) == 5:
        raise Bad('server_name framing')
    host = sn[5:]
    if name is None:
        if not RANDOM_NAME.fullmatch(host):
            raise Bad('server name %r is not what randomServerName can produce' % host)
    elif host != name:
        raise Bad('server name %r, configured %r' % (host, name))
    ks = d[51]
    if len(ks) < 2 or int.from_bytes(ks[0:2], 'big') != len(ks) - 2:
        raise Bad('key_share framing')
    share = None
    for g, k in tlvs(ks[2:]):
        if g == 29:
            share = k
            break
    if share is None or len(share) != 32:
        raise Bad('x25519 share')
    sv = d[43]
    if len(sv) < 3 or sv[0] != len(sv) - 1 or (len(sv) - 1) % 2 or b'\x03\x04' not in [sv[i:i + 2] for i in range(1, len(sv), 2)]:
        raise Bad('supported_versions')
    return host, rnd, sid, share


def appdata(recs):
    for t, ver, body in recs:
        if t != 23 or ver != 0x0303:
            raise Bad('record type %d version %04x after the handshake' % (t, ver))
        if len(body) == 0:
            raise Bad('zero-length application-data record')
        if len(body) > MAXREC:
            raise Bad('record of %d bytes exceeds 2^14+256' % len(body))
    return [len(b) for _, _, b in recs]


def server_flight(recs):
    if len(recs) < 3:
        raise Bad('server wrote %d records' % len(recs))
    (t1, v1, sh), (t2, v2, ccs), app = recs[0], recs[1], recs[2]
    if (t1, v1) != (22, 0x0303):
        raise Bad('ServerHello record type %d version %04x' % (t1, v1))
    if (t2, v2, ccs) != (20, 0x0303, b'\x01'):
        raise Bad('ChangeCipherSpec record')
    appdata([app])
    if len(sh) != 122 or sh[0] != 2 or int.from_bytes(sh[1:4], 'big') != 118:
        raise Bad('ServerHello length')
    h = sh[4:]
    if h[0:2] != b'\x03\x03' or h[34] != 32:
        raise Bad('ServerHello version / session id length')
    rnd, sid = h[2:34], h[35:67]
    if h[67:70] != b'\x13\x02\x00' or int.from_bytes(h[70:72], 'big') != len(h) - 72:
        raise Bad('suite / compression / extensions length')
    exts = tlvs(h[72:])
    if sorted(t for t, _ in exts) != [43, 51]:
        raise Bad('ServerHello extensions %r' % [t for t, _ in exts])
    d = dict(exts)
    if d[43] != b'\x03\x04' or d[51][0:4] != b'\x00\x1d\x00\x20' or len(d[51]) != 36:
        raise Bad('ServerHello key_share / supported_versions')
    return rnd, sid, d[51][4:], len(app[2])


def lens_str(ls):
    return ','.join(str(x) for x in ls) if ls else '-'


def py_client(c2s, name):
    try:
        recs = records(c2s)
        if not recs:
            raise Bad('client wrote nothing')
        host, rnd, sid, share = client_hello(recs[0], name)
        ls = appdata(recs[1:])
        return 'ok %s %s %s %s %s' % (hx(host), hx(rnd), hx(sid), hx(share), lens_str(ls)), None
    except Bad as e:
        return 'fail', str(e)


def py_server(s2c):
    try:
        recs = records(s2c)
        rnd, sid, share, cl = server_flight(recs)
        ls = appdata(recs[3:])
        return 'ok %s %s %s %d %s' % (hx(rnd), hx(sid), hx(share), cl, lens_str(ls)), None
    except Bad as e:
        return 'fail', str(e)


# ------------------------------------------------------------------------------------------------
def gen_cases(ctx):
    rng = ctx.rng
    names = ['www.example.com', 'random', 'RANDOM', 'a.b', 'xn--bcher-kva.example', 'cdn-' + 'x' * 40 + '.example.org']
    dims = [['chrome', 'firefox', 'safari'], ['plain', 'aes-gcm', 'aes-128-gcm', 'chacha20-poly1305'], [0, 1], names,
            [1, 2], ['small', 'multi', 'sclose', 'seshclose', 'srvclose', 'idle']]
    rows = pairwise(rng, dims, extra_random=0 if ctx.quick() else 200)
    cases = []
    for k, (br, enc, un, name, nc, pat) in enumerate(rows):
        line = 'r%d RUN %s %s %d %s %d %s c%d-%d' % (k, br, enc, un, hx(name.encode()), nc, pat, ctx.seed, k)
        cases.append(['r%d' % k, line, dict(browser=br, enc=enc, unordered=un, name=name, numconn=nc, pattern=pat)])
    # connections of real clients the server rejects (unknown proxy method, unknown UID, wrong server key, stale clock)
    # are relayed to a TLS-speaking decoy: the wire must carry that one conversation and nothing else
    k = 0
    for br in ['chrome', 'firefox', 'safari']:
        for reason in ['badmethod', 'baduid', 'wrongkey', 'late'] + (['none'] if br == 'firefox' else []):
            line = 'd%d RDR %s %s c%d-d%d' % (k, br, reason, ctx.seed, k)
            cases.append(['d%d' % k, line, dict(browser=br, enc='aes-gcm', unordered=0, name='www.example.com', numconn=1,
                                                pattern='rejected:' + reason)])
            k += 1
    return cases


def kv(line):
    d = {}
    for tok in line.split(' '):
        if '=' in tok:
            k, v = tok.split('=', 1)
            d[k] = v
    return d


def unhex(s):
    return b'' if s in ('-', '') else bytes.fromhex(s)


def run_impl(ctx, lines, tag):
    inp = '%s/%s.in' % (ctx.work, tag)
    out = '%s/%s.go.out' % (ctx.work, tag)
    open(inp, 'w').write('\n'.join(lines) + '\n')
    rc, log, dt = vlib.go_test(ctx, 'server', 'TestVerifC10', files=['c10_test.go', 'c06_rig_test.go'],
                               env=dict(VERIF_IN=inp, VERIF_OUT=out), timeout=1500)
    return rc, log, vlib.read_lines_by_id(out), dt


def run_model(ctx, lines, tag):
    inp = '%s/%s.model.in' % (ctx.work, tag)
    out = '%s/%s.model.out' % (ctx.work, tag)
    open(inp, 'w').write('\n'.join(lines) + '\n')
    rc, err = vlib.run_model(MOD, inp, out)
    return rc, err, vlib.read_lines_by_id(out)


def evaluate(ctx, cases, tag):
    """returns rc, log, per-case results: list of dict(cid, line, meta, conns=[...], problems=[...], diffs=[...])"""
    rc, log, impl, dt = run_impl(ctx, [c[1] for c in cases], tag)
    mlines = []
    per = []
    for cid, line, meta in cases:
        io = impl.get(cid)
        if io is None:
            per.append(dict(cid=cid, line=line, meta=meta, missing=True, problems=[], diffs=[]))
            continue
        g = kv(io)
        r = dict(cid=cid, line=line, meta=meta, missing=False, g=g, problems=[], diffs=[], conns=[])
        if 'panic' in g or 'cfgerr' in g or g.get('ok') != '1':
            r['diffs'].append('driver: ' + io[:300])
            per.append(r)
            continue
        if g.get('est') == '0':
            r['diffs'].append('the real client could not establish a session with the real server (first packet not accepted or handshake not finished)')
        elif g.get('done') != '1':
            r['diffs'].append('traffic pattern %s did not complete on the real code (the model says every frame it needs is admissible)' % meta['pattern'])
        name = None if meta['name'].lower() == 'random' else meta['name'].encode()
        for i in range(int(g['nconn'])):
            c2s, s2c = unhex(g['c2s%d' % i]), unhex(g['s2c%d' % i])
            pc, whyc = py_client(c2s, name)
            ps, whys = py_server(s2c)
            conn = dict(i=i, pc=pc, ps=ps, c2s_len=len(c2s), s2c_len=len(s2c))
            if whyc:
                r['problems'].append(('client-stream', 'connection %d, client to server: %s' % (i, whyc)))
            if whys:
                r['problems'].append(('server-stream', 'connection %d, server to client: %s' % (i, whys)))
            if not whyc and not whys and pc.split()[3] != ps.split()[2]:
                r['problems'].append(('sid-echo', 'connection %d: ServerHello session id %s, ClientHello session id %s' % (i, ps.split()[2], pc.split()[3])))
            mlines.append('%s.c%d C %s %s' % (cid, i, '?' if name is None else hx(name), hx(c2s)))
            mlines.append('%s.s%d S %s' % (cid, i, hx(s2c)))
            if g.get('rdr') == '1':
                # exactly one of {relayed to the decoy verbatim, answered as a Cloak session}; the bytes the client gets are
                # then exclusively those of that outcome (the decoy's reply / one Cloak server flight)
                dials, dout, din = int(g['dials']), unhex(g['dout']), unhex(g['din'])
                conn.update(dials=dials)
                if dials > 1:
                    r['problems'].append(('relayed-twice', 'connection handed to the redirect target %d times' % dials))
                elif dials == 1 and s2c != dout:
                    k = next((j for j in range(min(len(s2c), len(dout))) if s2c[j] != dout[j]), min(len(s2c), len(dout)))
                    r['problems'].append(('mixed-stream', 'connection %d was relayed to the redirect target, but the %d bytes the server sent the client are not '
                                          'the %d bytes the target sent (first difference at offset %d: wire %s.., target %s..): two conversations share one connection'
                                          % (i, len(s2c), len(dout), k, s2c[k:k + 12].hex() or '-', dout[k:k + 12].hex() or '-')))
                elif dials == 1 and din != c2s:
                    r['problems'].append(('mixed-stream', 'connection %d: the redirect target received %d bytes, the client sent %d' % (i, len(din), len(c2s))))
                elif dials == 0 and meta['pattern'] != 'rejected:none':
                    r['diffs'].append('a client the server must reject (%s) was not relayed to the redirect target' % meta['pattern'])
                r['conns'].append(conn)
                continue
            for side, key, stream in (('sw', 'w%d' % i, s2c), ('cw', 'cw%d' % i, c2s)):
                ws = [] if g[key] == '-' else [int(x) for x in g[key].split(',')]
                if ws:
                    mlines.append('%s.%s%d W %s %s' % (cid, side, i, hx(stream[ws[0]:]), lens_str(ws[1:])))
                    conn[side] = len(ws) - 1
            r['conns'].append(conn)
        per.append(r)
    mrc, merr, model = run_model(ctx, mlines, tag)
    for r in per:
        if r['missing'] or 'conns' not in r:
            continue
        for conn in r['conns']:
            i = conn['i']
            mc = model.get('%s.c%d' % (r['cid'], i)); ms = model.get('%s.s%d' % (r['cid'], i))
            if mc is None or ms is None:
                if mrc == 0:
                    r['diffs'].append('model printed nothing for connection %d' % i)
                continue
            mcn = 'fail' if mc.startswith('fail') else mc
            if mcn != conn['pc']:
                r['diffs'].append('connection %d client stream: Coq grammar says %s, Python grammar says %s' % (i, mc[:200], conn['pc'][:200]))
            if ms != conn['ps']:
                r['diffs'].append('connection %d server stream: Coq grammar says %s, Python grammar says %s' % (i, ms[:200], conn['ps'][:200]))
            for side in ('sw', 'cw'):
                if side in conn:
                    mw = model.get('%s.%s%d' % (r['cid'], side, i))
                    if mw is not None and mw != '%d %d' % (conn[side], conn[side]):
                        r['diffs'].append('connection %d: %s raw writes after the first, only %s are exactly what tlsconn_write emits for their body' %
                                          (i, conn[side], mw.split()[0]))
    return rc, log, mrc, merr, per, dt



def vm_sample(ctx, per):
    """Thorough tier: a few real first flights evaluated by the grammar INSIDE Coq (vm_compute)."""
    from props.c06 import coq_bytes
    src = ['From Coq Require Import NArith List.', 'From Cloak Require Import Model.HelloGrammar.', 'Import ListNotations.']
    n = 0
    seen = set()
    for r in per:
        if r.get('missing') or not r.get('conns') or r['problems'] or r['diffs'] or r['meta']['browser'] in seen:
            continue
        seen.add(r['meta']['browser'])
        g = r['g']
        c2s, s2c = unhex(g['c2s0']), unhex(g['s2c0'])
        hello = c2s[:5 + int.from_bytes(c2s[3:5], 'big')]
        ws = [int(x) for x in g['w0'].split(',')]
        flight = s2c[:ws[0]]
        name = bytes.fromhex(r['conns'][0]['pc'].split()[1])
        src.append('Definition a%d := Eval vm_compute in wf_client_hello %s %s.' % (n, coq_bytes(name.hex()), coq_bytes(hello.hex())))
        src.append('Definition b%d := Eval vm_compute in match parse_server_flight %s with Some f => g_bytes_eqb (sf_sid f) %s | None => false end.' %
                   (n, coq_bytes(flight.hex()), coq_bytes(r['conns'][0]['pc'].split()[3])))
        src.append('Print a%d. Print b%d.' % (n, n))
        n += 1
        if n >= 3:
            break
    if n == 0:
        return []
    path = '%s/vmsample.v' % ctx.work
    open(path, 'w').write('\n'.join(src) + '\n')
    rc, out, dt = vlib.sh(['coqc', '-Q', vlib.COQ, 'Cloak', '-o', path + 'o', path], cwd=ctx.work, timeout=900)
    if rc != 0:
        return [('vm_compute sample of the C10 grammar failed to evaluate', out[-1500:])]
    if out.count('= true') != 2 * n:
        return [('vm_compute sample: the grammar inside Coq rejects a real first flight the extracted grammar accepts', out[-1500:])]
    ctx.notes.append('vm_compute sample: %d real ClientHellos and server flights accepted by the grammar inside Coq in %.0f s' % (n, dt))
    return []


def correspondence(ctx, verdict, pr):
    res = dict(broken=[])
    cases = []
    cdir = vlib.V + '/corpus/C10'
    if os.path.isdir(cdir):
        for fn in sorted(os.listdir(cdir)):
            c = json.load(open(os.path.join(cdir, fn)))
            cases.append([c['id'], c['line'], c['meta']])
    ncorpus = len(cases)
    cases += gen_cases(ctx)
    rc, log, mrc, merr, per, dt = evaluate(ctx, cases, 'cases')
    if rc != 0:
        res['broken'].append(('Go driver TestVerifC10 failed to build or run', log[-3000:]))
    if mrc != 0:
        res['broken'].append(('extracted model c10 failed', merr[-2000:]))
    # The C10 rig observes real sessions with wall-clock waits: on a starved machine a tap can be cut short or a pattern not
    # finish.  Every case with a complaint is therefore run again ALONE in a fresh driver process, up to three times, and
    # the complaint stands only if it comes back every time; otherwise: "not reproduced in isolation (load)".
    nload = 0
    for r in per:
        if r['missing'] or not (r['problems'] or r['diffs']):
            continue
        kinds0 = (sorted(set(k for k, _ in r['problems'])), bool(r['diffs']))
        same = True
        for i in range(3):
            rc1, log1, mrc1, merr1, per1, _ = evaluate(ctx, [[r['cid'], r['line'], r['meta']]], 'iso%d' % i)
            r1 = per1[0] if per1 else None
            if r1 is None or r1['missing'] or (sorted(set(k for k, _ in r1['problems'])), bool(r1['diffs'])) != kinds0:
                same = False
                break
        if not same:
            nload += 1
            ctx.notes.append('case %s (%s): %s not reproduced in isolation (load)' % (
                r['cid'], r['line'][:80], '; '.join([w for _, w in r['problems']][:1] + r['diffs'][:1])[:200]))
            r['problems'], r['diffs'] = [], []
    nprob, ndiff, nconn, nrec, maxrec = 0, 0, 0, 0, 0
    kinds, distinct = [], set()
    missing = 0
    firstdiff = None
    for r in per:
        if r['missing']:
            missing += 1
            continue
        m = r['meta']
        kinds.append('%s/%s/%s' % (m['browser'], m['pattern'], 'unordered' if m['unordered'] else 'ordered'))
        for conn in r.get('conns', []):
            nconn += 1
            for s in (conn['pc'], conn['ps']):
                if s.startswith('ok'):
                    ls = s.split()[-1]
                    if ls != '-':
                        v = [int(x) for x in ls.split(',')]
                        nrec += len(v); maxrec = max(maxrec, max(v))
        if not r['problems'] and not r['diffs'] and r.get('conns'):
            distinct.add((m['browser'], m['enc'], m['unordered'], m['name'], m['numconn'], m['pattern']))
        for kind, what in r['problems'][:1]:
            nprob += 1
            if nprob <= 2:
                verdict.oracle_failure('C10:%s' % kind, 'C10 oracle (independent grammar on the raw tap): ' + what,
                                       dict(case=r['line'], meta=m, what_failed=[w for _, w in r['problems']],
                                            how='python3 tools/check.py C10 --replay <this file>  (re-runs the session on the real code and re-parses the tap)'))
        if r['diffs']:
            ndiff += 1
            if firstdiff is None or len(r['line']) < len(firstdiff['line']):
                firstdiff = r
    if missing and rc == 0:
        res['broken'].append(('Go driver produced no output for %d cases' % missing, ''))
    if not ctx.quick() and rc == 0 and mrc == 0:
        res['broken'] += vm_sample(ctx, per)
    if firstdiff is not None and rc == 0:
        res['broken'].append(('grammar HelloGrammar.v / writers Auth.v vs the wire image of the real code: %d of %d cases differ' % (ndiff, len(cases)),
                              'smallest differing case: %s\n%s' % (firstdiff['line'], '\n'.join(firstdiff['diffs'][:6]))))
    verdict.cov.update(
        evaluations=len(cases), distinct_nontrivial=len(distinct),
        rule='pairwise cover of 3 browser signatures x 4 encryption methods x ordered/unordered x 6 server names (incl. random) x 1..2 connections '
             'x 6 traffic patterns (small writes, multi-frame writes up to 70000 bytes, stream close, client session close, server session close, idle); '
             'plus 3 browser signatures x 4 rejected real clients (unknown proxy method, unknown UID, wrong server key, stale clock) relayed to a '
             'TLS-speaking decoy (the client must see exactly the decoy\'s flight, the decoy exactly the client\'s hello); '
             'every byte of every connection in both directions parsed by the extracted Coq grammar and by the Python grammar. distinct_nontrivial = '
             'distinct configurations whose pattern completed and whose taps both grammars accept identically',
        samples=[c[1] for c in cases[ncorpus:ncorpus + 3]],
        traces_validated_against_impl=nconn, connections=nconn, appdata_records_seen=nrec, largest_record=maxrec,
        mismatches=ndiff, oracle_failures=nprob, not_reproduced_in_isolation=nload, input_distribution=vlib.summarize_dist(kinds), corpus_cases=ncorpus,
        go_seconds=round(dt, 1), exhaustive=False)
    return res


def replay(ctx, verdict):
    r = ctx.replay
    line = r.get('case')
    if not line:
        print(json.dumps(r, indent=1)); return 0
    rc, log, mrc, merr, per, dt = evaluate(ctx, [[line.split()[0], line, r['meta']]], 'replay')
    bad = 0
    for p in per:
        if p['missing']:
            print('no output:', log[-2000:]); bad = 1; continue
        for conn in p.get('conns', []):
            print('connection %d client: %s' % (conn['i'], conn['pc'][:300])); print('connection %d server: %s' % (conn['i'], conn['ps'][:300]))
        for _, what in p['problems']:
            print('oracle:', what); bad = 1
        for d in p['diffs']:
            print('model vs implementation:', d)
    return bad


MANIFEST = dict(
    technique='Coq proofs over all inputs about an independent TLS record/handshake grammar and the hand-written models of the two writers '
              '(hand-composed server flight, TLSConn.Write); grammar and writers tied to the code by a passive tap on real client/server sessions parsed '
              'by the extracted grammar and by an independent Python grammar',
    level_text='C10_server_flight (every 32-byte session id, nonce, key, filler, certificate of 1..16384 bytes), C10_appdata_records / C10_stream_parses / '
               'C10_server_stream / C10_client_stream (every list of messages of admissible size) and C10_wf_hello_fields / C10_composer_fields are proved in '
               'Coq without bounds; the frame-size facts are proved about the generated constants. uTLS is a black box: that real ClientHellos are well-formed '
               'is shown on every run for 3 browser signatures x server names (incl. random) by parsing the tapped bytes with the Coq grammar and a Python grammar.',
    level_note='Trusted: Coq kernel; extraction; the grammar is a structural validator, not a full TLS 1.3 validator; schedules are sampled (passive tap), not enumerated; '
               'C04 (codec worker) for |frame| = 14 + payload + extra.',
    design_ref='DESIGN.md section 6, C10')


# ---- concurrency windows (tools/props/winlib.py): pooled record buffer under concurrent writers
import winlib

TRUSTED = TRUSTED + ['pooled record buffer: no seam exists between sync.Pool.Put and the following statements of TLSConn.Write, so "no use after Put" is decided by the generated obligation (Proofs/AtomWire) and, independently, by the race detector used as a happens-before checker on a run in which buffers migrate between goroutines by construction (harness/common/c10_pool_test.go, mode hb); the stress run that looks for an actually malformed buffer is statistical (measured: see evidence pool_runs)']
MANIFEST = dict(MANIFEST, level_note=MANIFEST['level_note'] + ' Concurrent writers on one TLSConn: every buffer handed to the underlying connection is checked to be exactly one well-formed record of its writer, N goroutines x M writes with GOMAXPROCS varied (statistical), plus a deterministic happens-before run under the race detector for the pooled buffer.')
_corr_before_windows = correspondence
_replay_before_windows = replay


def correspondence(ctx, verdict, pr):
    res = _corr_before_windows(ctx, verdict, pr)
    res['broken'] += winlib.c10_windows(ctx, verdict)
    return res


def replay(ctx, verdict):
    if ctx.replay.get('kind') == 'window':
        return winlib.replay(ctx, verdict)
    return _replay_before_windows(ctx, verdict)


def search(ctx, verdict, problems):
    return winlib.search(ctx, verdict, problems)


# generated obligation of the front door (Proofs/AtomFront.v): every connection's first packet, parsed hello and reply are
# values of that connection alone - no byte buffer at package level, no pooled object (or a view of it) used after its
# Put, no goroutine sharing a buffer with its spawner
TRUSTED = list(TRUSTED) + ['generated obligations Proofs/AtomFront.v about coq/Gen/Atomicity.v (tools/lockscan, go/ast: package-level variables with the kind of their type, sync.Pool.Put sites with the later mentions of the object or of a local view of its memory - slicings, dereferences, appends, local function literals that mention it, results handed out by a function whose Put is deferred -, variables shared by go statements); re-proved on every run, in a private re-generated copy under VERIF_EXTRA_OVERLAY']
MANIFEST = dict(MANIFEST, level_note=MANIFEST.get('level_note', '') + ' Generated obligation Proofs/AtomFront.v (re-proved about the source on every run): in the front-door code no byte buffer lives at package level, no pooled object or local view of it is used after its Put, no goroutine shares a buffer with its spawner - what lets the models treat a connection\'s first packet, parsed hello and reply as values of that connection alone.')


# ---- nothing but application-data records after the handshake also means: the READ side never writes (an oversize record
# is an error for the caller, not an alert on the wire) - harness/common/relay_copy_test.go, TestVerifRelayDeadlines
_corr_before_readside = correspondence


def correspondence(ctx, verdict, pr):
    res = _corr_before_readside(ctx, verdict, pr)
    import relaylib
    res['broken'] += relaylib.run_deadlines(ctx, verdict, 'C10')
    return res
