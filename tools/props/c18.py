"""C18 - user database and admin API act as a keyed store and never crash the server."""
import base64, json, os, re
import vlib

PROP_FILES = ['Properties/C18']
TRUSTED = [
    'Coq 8.16.1 kernel incl. vm_compute (witness theorems only); all C18_* theorems: Closed under the global context',
    'hand-written model coq/Model/UserDB.v of localmanager.go / api_router.go / userpanel.go GetUser / activeuser.go GetSession / qos.go MakeValve',
    'bbolt is modelled as a map of maps with atomic transactions; durability (close + reopen returns the same map) is TRUSTED in the model (reopen = identity) and exercised on the real file by the correspondence check',
    'encoding/json, encoding/base64, gorilla/mux, net/http are black boxes: requests reach the model classified (path decodes/does not, body decodes to UserInfo/does not); the classification is made by the case generator by construction',
    'juju/ratelimit: NewBucketWithRate panics iff capacity <= 0 (read from the library source; sampled by the V ops and by every connect: positive rates up to 2^63-1 never panic); the quantum search for positive rates is not modelled here (C19)',
    'correspondence: in-package Go drivers harness/usermanager/c18_test.go and harness/server/c18_test.go (httptest on the real router, real bolt temp files, real userPanel) vs extracted OCaml model (ExtrOcamlBasic only), ocaml/c18_driver.ml',
]
ASSUMPTIONS = [
    'UIDs shorter than bbolt MaxKeySize (32768 bytes)',
    'one admin request at a time (the API is served over one session; bolt serialises write transactions)',
    'integer values of a decoded body lie in the int32 / int64 ranges (encoding/json rejects others: sampled)',
    'listing order is not part of the property (bolt: key order; model: creation order; both canonicalised by sorting)',
]

FIELDS = ['SessionsCap', 'UpRate', 'DownRate', 'UpCredit', 'DownCredit', 'ExpiryTime']
I64MAX, I64MIN = 2**63 - 1, -2**63
I32MAX, I32MIN = 2**31 - 1, -2**31
SIG_F8 = 'makevalve-panic-nonpositive-rate'   # F8, repaired in /repo by 638655d: a fresh VIOLATION if it comes back


def hx(b):
    return b.hex() if b else '-'


def wrap64(z):
    z &= (1 << 64) - 1
    return z - (1 << 64) if z >= (1 << 63) else z


# ----------------------------------------------------------------------------------------
# case generation
UID_POOL = [
    bytes(range(16)),
    bytes([0xfb, 0xef, 0xbe] * 5 + [0xff]),          # base64 full of '+' (std) / '-' (url)
    bytes([0xff] * 16),                               # '/' (std) / '_' (url)
    bytes([0] * 16),
    bytes([7]),                                       # short: padded base64 "Bw=="
    bytes([1, 2]),
    bytes(range(100, 120)),                           # longer than 16
    bytes([0xde, 0xad, 0xbe, 0xef] * 4),
]
BAD_SEGMENTS = ['!!!!', 'abc', '++++', 'AA', 'AAAAA', '%3D%3D%3D%3D', 'AAA%20']


def seg_of(uid, rng):
    s = base64.urlsafe_b64encode(uid).decode()
    r = rng.random()
    if r < 0.08:
        s += '%0A'                 # the decoder skips newlines
    elif r < 0.12:
        s = s.replace('=', '%3D')
    return s


def val_for(field, rng):
    if field == 'SessionsCap':
        return rng.choice([0, 1, -1, I32MAX, I32MIN, 5, rng.randrange(I32MIN, I32MAX + 1)])
    return rng.choice([0, 1, -1, I64MAX, I64MIN, 2**31, -2**31 - 1, 1000, 10**12,
                       rng.randrange(I64MIN, I64MAX + 1), rng.randrange(-5, 100000)])


def render_json(uid, fields, rng, with_uid=True):
    """JSON text of a UserInfo: key order, spelling, nulls, unknown keys, whitespace, trailing data vary."""
    items = []
    if with_uid:
        items.append(('UID', json.dumps(base64.b64encode(uid).decode())))
    for f in FIELDS:
        if f in fields:
            items.append((f, str(fields[f])))
        elif rng.random() < 0.15:
            items.append((f, 'null'))
    if rng.random() < 0.15:
        items.append(('Bogus', rng.choice(['1', '"x"', '[1,2]', '{"UpRate":3}'])))
    if rng.random() < 0.5:
        rng.shuffle(items)
    sp = rng.choice(['', '', ' ', '\n '])
    def key(k):
        r = rng.random()
        if r < 0.1:
            return k.lower()
        if r < 0.15:
            return k.upper()
        return k
    txt = '{' + (',' + sp).join('%s:%s%s' % (json.dumps(key(k)), sp, v) for k, v in items) + '}'
    if rng.random() < 0.1:
        txt += rng.choice([' trailing', '\n{"UID":"AAAA"}', ' ]'])
    return txt


def bad_json(uid, rng):
    b64 = base64.b64encode(uid).decode()
    return rng.choice([
        '', '{', 'not json', '[1]', '"str"', '{"UID":"%s","UpRate":"5"}' % b64, '{"UID":"%s","UpRate":1.5}' % b64,
        '{"UID":"%s","DownRate":1e3}' % b64, '{"UID":"%s","SessionsCap":2147483648}' % b64,
        '{"UID":"%s","SessionsCap":-2147483649}' % b64, '{"UID":"%s","UpCredit":9223372036854775808}' % b64,
        '{"UID":"%s","ExpiryTime":-9223372036854775809}' % b64, '{"UID":"!!!","UpRate":1}', '{"UID":5}',
        '{"UID":"%s","UpRate":true}' % b64, '{"UID":"%s",}' % b64, '{"UID":"%s" "UpRate":1}' % b64,
    ])


def bclass(uid, fields):
    return 'j:%s:%s' % (hx(uid), ','.join(str(fields[f]) if f in fields else '_' for f in FIELDS))


def mk_post(seg, pclass, body, bcl):
    return 'P|%s|%s|%s|%s' % (hx(seg.encode()), pclass, hx(body.encode()), bcl)


def gen_post(uids, rng, subset_idx=None, pool=None):
    """returns (token, intent)"""
    uid = rng.choice(uids)
    r = rng.random()
    if subset_idx is None:
        subset_idx = rng.randrange(64)
    fields = {f: val_for(f, rng) for i, f in enumerate(FIELDS) if subset_idx >> i & 1}
    if r < 0.62:
        return mk_post(seg_of(uid, rng), 'u:' + hx(uid), render_json(uid, fields, rng), bclass(uid, fields)), \
            ['P', 'valid', hx(uid), fields]
    if r < 0.74:    # UID mismatch: body names another user (or none)
        other = rng.choice([u for u in (pool or UID_POOL) if u != uid])
        if rng.random() < 0.25:
            return mk_post(seg_of(uid, rng), 'u:' + hx(uid), render_json(b'', fields, rng, with_uid=False), bclass(b'', fields)), \
                ['P', 'mismatch', hx(uid), '-']
        return mk_post(seg_of(uid, rng), 'u:' + hx(uid), render_json(other, fields, rng), bclass(other, fields)), \
            ['P', 'mismatch', hx(uid), hx(other)]
    if r < 0.86:
        return mk_post(seg_of(uid, rng), 'u:' + hx(uid), bad_json(uid, rng), 'bad'), ['P', 'badjson', hx(uid)]
    if r < 0.94:
        seg = rng.choice(BAD_SEGMENTS)
        if rng.random() < 0.7:     # the path is checked first: the body does not matter
            body, bcl = render_json(uid, fields, rng), bclass(uid, fields)
        else:
            body, bcl = bad_json(uid, rng), 'bad'
        return mk_post(seg, 'bad', body, bcl), ['P', 'badpath']
    # empty UID through a newline segment
    if rng.random() < 0.5:
        return mk_post('%0A', 'u:-', render_json(b'', fields, rng), bclass(b'', fields)), ['P', 'emptyuid']
    return mk_post('%0A', 'u:-', render_json(b'', fields, rng, with_uid=False), bclass(b'', fields)), ['P', 'emptyuid']


def gen_history(k, ctx, rng):
    uids = rng.sample(UID_POOL, 3)
    now = rng.choice([0, 100, 1700000000, -5, I64MAX])
    n = rng.choice([6, 10, 14, 20, 30])
    toks, intents = [], []
    caps = {}
    def add(tok, intent):
        toks.append(tok); intents.append(intent)
        if intent[0] == 'P' and intent[1] == 'valid' and 'SessionsCap' in intent[3]:
            caps[intent[2]] = intent[3]['SessionsCap']
    # the first post of history k uses field subset k mod 64: all 64 subsets are created and read
    first = True
    for i in range(n):
        r = rng.random()
        if r < 0.40 or first:
            t, it = gen_post(uids, rng, subset_idx=(k % 64) if first else None)
            first = False
            add(t, it)
            if it[1] in ('mismatch',) and rng.random() < 0.5 and it[3] != '-':
                o = bytes.fromhex(it[3])
                add('G|%s|u:%s' % (hx(seg_of(o, rng).encode()), hx(o)), ['G', hx(o)])
        elif r < 0.55:
            u = rng.choice(uids + [rng.choice(UID_POOL)])
            if rng.random() < 0.1:
                s = rng.choice(BAD_SEGMENTS); add('G|%s|bad' % hx(s.encode()), ['G', 'badpath'])
            elif rng.random() < 0.05:
                add('G|%s|u:-' % hx(b'%0A'), ['G', '-'])
            else:
                add('G|%s|u:%s' % (hx(seg_of(u, rng).encode()), hx(u)), ['G', hx(u)])
        elif r < 0.63:
            add('L', ['L'])
        elif r < 0.73:
            u = rng.choice(uids + [rng.choice(UID_POOL)])
            if rng.random() < 0.1:
                s = rng.choice(BAD_SEGMENTS); add('D|%s|bad' % hx(s.encode()), ['D', 'badpath'])
            elif rng.random() < 0.05:
                add('D|%s|u:-' % hx(b'%0A'), ['D', '-'])
            else:
                add('D|%s|u:%s' % (hx(seg_of(u, rng).encode()), hx(u)), ['D', hx(u)])
        elif r < 0.80:
            add('R', ['R'])
        elif r < 0.87:
            ups = []
            for _ in range(rng.choice([0, 1, 1, 2, 3])):
                u = rng.choice(uids)
                ups.append((hx(u), rng.choice([0, 1, 1000, 2**40, I64MAX, I64MIN, -1, rng.randrange(0, 10**6)]),
                            rng.choice([0, 1, 1000, 2**40, I64MAX, rng.randrange(0, 10**6)])))
            add('U|' + ';'.join('%s,%d,%d' % u for u in ups), ['U', [list(u) for u in ups]])
        elif r < 0.93:
            u = rng.choice(uids)
            add('A|%s' % hx(u), ['A', hx(u)])
        elif r < 0.98:
            u = rng.choice(uids)
            cap = caps.get(hx(u), 0) % 2**32       # the cap as AuthoriseNewSession reads it (unsigned)
            add('S|%s|%d' % (hx(u), rng.choice([0, 1, cap, max(cap - 1, 0), cap + 1, 4000000000])), ['S', hx(u)])
        else:
            add('E', ['E'])
    add('L', ['L'])
    return '%s %d %s' % ('h%d' % k, now, ' '.join(toks)), dict(kind='history', pkg='usermanager', now=now, intents=intents)


SRV_UIDS = [bytes(range(16)), bytes([0xfb, 0xef, 0xbe] * 5 + [0xff]), bytes([0xde, 0xad, 0xbe, 0xef] * 4), bytes([0x80] * 16)]


def gen_server_case(k, ctx, rng):
    now = rng.choice([100, 1700000000])
    uids = rng.sample(SRV_UIDS, rng.choice([1, 2, 3]))
    toks, intents = [], []
    def add(tok, intent):
        toks.append(tok); intents.append(intent)
    for u in uids:
        fields = {}
        def maybe(f, choices, p_absent):
            if rng.random() >= p_absent:
                fields[f] = rng.choice(choices)
        maybe('SessionsCap', [0, 1, 5, -1, I32MAX, I32MIN], 0.15)
        # a positive DownRate stays >= 1000: Session.Close sends a closing frame of up to 270 bytes through
        # the tx bucket and would sleep for minutes at 1 B/s (the boundary rate 1 is covered by the V ops)
        maybe('UpRate', [0, -1, 1, 1000, 2**31, I64MAX, I64MIN, rng.randrange(1, 10**9)], 0.15)
        maybe('DownRate', [0, -1, 1000, 2**31, I64MAX, I64MIN, rng.randrange(1000, 10**9)], 0.15)
        credits = [0, 1, 1000, 10**12, I64MAX, -1]
        maybe('UpCredit', credits, 0.1)
        maybe('DownCredit', credits, 0.1)
        maybe('ExpiryTime', [0, now - 1, now, now + 1000, I64MAX], 0.1)
        if k % 3 == 0:     # a healthy share of fully valid users
            fields.update(SessionsCap=rng.choice([0, 1, 5, -1]), UpRate=rng.choice([1, 1000, 10**9, I64MAX]), DownRate=rng.choice([1000, 10**6, I64MAX]),
                          UpCredit=rng.choice([1000, 10**12]), DownCredit=rng.choice([1000, 10**12]), ExpiryTime=now + 1000)
        add(mk_post(seg_of(u, rng), 'u:' + hx(u), render_json(u, fields, rng), bclass(u, fields)), ['P', 'valid', hx(u), fields])
        if rng.random() < 0.3:    # a later partial update
            f2 = {f: val_for(f, rng) for f in rng.sample([x for x in FIELDS if x != 'DownRate'], rng.choice([1, 2]))}
            add(mk_post(seg_of(u, rng), 'u:' + hx(u), render_json(u, f2, rng), bclass(u, f2)), ['P', 'valid', hx(u), f2])
    add('L', ['L'])
    if k % 4 == 0:    # MakeValve's precondition directly, boundary values included
        a, b = rng.choice([1, 0, -1, I64MAX, I64MIN, 2, 2**53 + 1]), rng.choice([1, 0, -1, I64MAX, I64MIN, 3, 1000])
        add('V|%d|%d' % (a, b), ['V', a, b])
    order = list(uids) + [rng.choice(uids)]
    rng.shuffle(order)
    for u in order:
        rx = rng.choice([0, 1, 999, 1000, 1001, 2**40])
        tx = rng.choice([0, 1, 999, 1000, 1001, 2**40])
        add('C|%s|%d|%d' % (hx(u), rx, tx), ['C', hx(u), rx, tx])
        if rng.random() < 0.5:
            add('G|%s|u:%s' % (hx(seg_of(u, rng).encode()), hx(u)), ['G', hx(u)])
    add('L', ['L'])
    return '%s %d %s' % ('c%d' % k, now, ' '.join(toks)), dict(kind='server', pkg='server', now=now, intents=intents)


# ----------------------------------------------------------------------------------------
# the oracle: an independent reference map, written from the property text
def status_ok(tok):
    """did the implementation accept the request?"""
    if tok.startswith('u:') or tok.startswith('l:'):
        return True
    m = re.fullmatch(r's(\d+)', tok)
    return bool(m) and 200 <= int(m.group(1)) < 300


def show_rec(rec):
    return ','.join(str(rec[f]) for f in FIELDS)


def oracle(meta, obs_tokens):
    """Returns None or (signature, message, index of the failing op).  The reference: a dict
    uid -> six integers; fields not mentioned keep their value (0 if never set), a request that
    is not accepted changes nothing, a deleted user is gone, reopen changes nothing; no panic."""
    ref = {}
    now = meta['now']
    for i, (intent, tok) in enumerate(zip(meta['intents'], obs_tokens)):
        kind = intent[0]
        if kind == 'V':
            # MakeValve called directly: a panic for a non-positive rate is the library's documented precondition
            if tok.startswith('VPANIC') and intent[1] > 0 and intent[2] > 0:
                return ('panic:makevalve-positive-rates:' + tok, 'MakeValve(%d, %d) panicked: %s' % (intent[1], intent[2], tok), i)
            continue
        if tok.startswith('PANIC'):
            if kind == 'C':
                rec = ref.get(intent[1])
                if 'token_bucket' in tok and rec is not None and (rec['UpRate'] <= 0 or rec['DownRate'] <= 0):
                    return (SIG_F8, 'owner of record {SessionsCap,UpRate,DownRate,UpCredit,DownCredit,ExpiryTime = %s} connects at time %d: %s (a rate that is not positive reached MakeValve)' % (show_rec(rec), now, tok), i)
                return ('panic:connect:' + tok, 'panic when the owner connects / has usage uploaded: %s' % tok, i)
            return ('panic:%s:%s' % (kind, tok), 'panic in operation %s: %s' % (kind, tok), i)
        if tok in ('BADREQ', 'BADOP') or tok.endswith('badjson') or '?' in tok:
            return ('unexpected:' + tok, 'unexpected observation %s for %s' % (tok, intent), i)
        if kind == 'P':
            ok = status_ok(tok)
            if intent[1] == 'valid':
                if not ok:
                    return ('valid-update-refused', 'valid create/update answered %s' % tok, i)
                rec = ref.setdefault(intent[2], {f: 0 for f in FIELDS})
                rec.update(intent[3])
            elif ok:
                return ('bad-request-accepted:' + intent[1], '%s request answered %s' % (intent[1], tok), i)
        elif kind == 'G':
            rec = ref.get(intent[1])
            if rec is None:
                if status_ok(tok):
                    return ('read-of-absent-user', 'GET of a user that does not exist answered %s' % tok, i)
            else:
                exp = 'u:%s:%s' % (intent[1], show_rec(rec))
                if tok != exp:
                    return ('read-differs', 'GET returned %s, the history implies %s' % (tok, exp), i)
        elif kind == 'L':
            exp = 'l:' + ';'.join(sorted('%s=%s' % (u, show_rec(r)) for u, r in ref.items()))
            if tok != exp:
                return ('list-differs', 'list returned %s, the history implies %s' % (tok, exp), i)
        elif kind == 'D':
            if intent[1] in ref:
                if not status_ok(tok):
                    return ('valid-delete-refused', 'delete of an existing user answered %s' % tok, i)
                del ref[intent[1]]
            # deleting an absent user / a bad path: any answer, nothing may change
        elif kind == 'R':
            if tok != 'r':
                return ('reopen-failed', 'close + reopen: %s' % tok, i)
        elif kind == 'U':
            if not tok.startswith('p:') or tok == 'p:ERR':
                return ('upload-failed', 'UploadStatus: %s' % tok, i)
            for u, up, down in intent[1]:
                if u in ref:
                    ref[u]['UpCredit'] = wrap64(ref[u]['UpCredit'] - up)
                    ref[u]['DownCredit'] = wrap64(ref[u]['DownCredit'] - down)
        elif kind == 'A':
            if intent[1] not in ref and tok.startswith('a:ok'):
                return ('absent-user-authenticated', 'AuthenticateUser of an absent user: %s' % tok, i)
        elif kind == 'S':
            if intent[1] not in ref and len(intent[1]) == 32 and tok == 'n:ok':
                return ('absent-user-authorised', 'AuthoriseNewSession of an absent user: %s' % tok, i)
        elif kind == 'C':
            rec = ref.get(intent[1])
            if tok.startswith('c:ok:'):
                if rec is None:
                    return ('absent-user-connected', 'connect of an absent user: %s' % tok, i)
                rec['UpCredit'] = wrap64(rec['UpCredit'] - intent[2])
                rec['DownCredit'] = wrap64(rec['DownCredit'] - intent[3])
            elif not (tok.startswith('c:autherr:') or tok.startswith('c:sesserr:')):
                return ('connect-odd:' + tok, 'connect: %s' % tok, i)
        elif kind == 'E':
            if status_ok(tok):
                return ('empty-uid-accepted', 'request without UID answered %s' % tok, i)
    return None


# ----------------------------------------------------------------------------------------
def norm(tok):
    return 'PANIC' if tok.startswith('PANIC') or tok.startswith('VPANIC') else tok


def run_impl(ctx, pkg, lines, tag):
    inp = '%s/%s_%s.in' % (ctx.work, tag, pkg)
    out = '%s/%s_%s.go.out' % (ctx.work, tag, pkg)
    open(inp, 'w').write('\n'.join(lines) + '\n')
    if os.path.exists(out):
        os.remove(out)
    rc, log, dt = vlib.go_test(ctx, pkg, 'TestVerifC18', files=['c18_test.go'], env=dict(VERIF_IN=inp, VERIF_OUT=out, TMPDIR=_tmpdir()), util=False)
    return rc, log, vlib.read_lines_by_id(out), inp, dt


def _tmpdir():
    return '/dev/shm' if os.path.isdir('/dev/shm') and os.access('/dev/shm', os.W_OK) else '/tmp'


def run_model(ctx, inp, tag, prefix=False):
    out = '%s/%s.model%s.out' % (ctx.work, tag, '_prefix' if prefix else '')
    binp = '%s/ocaml/bin/c18' % vlib.V
    if not os.path.exists(binp):
        return 127, 'model binary missing', {}
    import subprocess
    with open(inp) as fi, open(out, 'w') as fo:
        p = subprocess.run([binp] + (['prefix'] if prefix else []), stdin=fi, stdout=fo, stderr=subprocess.PIPE, text=True, timeout=1800)
    return p.returncode, p.stderr, vlib.read_lines_by_id(out)


def shrink(ctx, pkg, line, meta, sig):
    """delta-debug the op list of a failing history against the real code (same signature class)."""
    parts = line.split()
    head, ops = parts[:2], parts[2:]
    pairs = list(zip(ops, meta['intents']))
    cls = sig.split(':')[0]
    budget = [25]
    def fails(cand):
        if budget[0] <= 0:
            return False
        budget[0] -= 1
        l = ' '.join(head + [c[0] for c in cand])
        rc, log, impl, inp, _ = run_impl(ctx, pkg, [l], 'shrink')
        toks = (impl.get(head[0]) or '').split()
        r = oracle(dict(meta, intents=[c[1] for c in cand]), toks)
        return r is not None and r[0].split(':')[0] == cls
    small = vlib.ddmin(pairs, fails, max_tests=25)
    if len(small) < len(pairs):
        return ' '.join(head + [c[0] for c in small]), dict(meta, intents=[c[1] for c in small])
    return line, meta


def readable(line, meta):
    """the history in words (for the replay file)"""
    out = []
    for tok, intent in zip(line.split()[2:], meta['intents']):
        p = tok.split('|')
        if p[0] in ('G', 'D', 'P'):
            d = dict(op={'G': 'GET', 'D': 'DELETE', 'P': 'POST'}[p[0]], path='/admin/users/' + bytes.fromhex(p[1]).decode('latin1') if p[1] != '-' else '')
            if p[0] == 'P':
                d['body'] = bytes.fromhex(p[3]).decode('latin1') if p[3] != '-' else ''
            d['intent'] = intent
            out.append(d)
        else:
            out.append(dict(op=tok, intent=intent))
    return out


def correspondence(ctx, verdict, pr):
    res = dict(broken=[])
    rng = ctx.rng
    cases = {'usermanager': [], 'server': []}
    cdir = vlib.V + '/corpus/C18'
    ncorpus = 0
    if os.path.isdir(cdir):
        for fn in sorted(os.listdir(cdir)):
            c = json.load(open(os.path.join(cdir, fn)))
            cases[c['meta']['pkg']].append((c['line'].split()[0], c['line'], c['meta']))
            ncorpus += 1
    nh = 600 if ctx.quick() else 8000
    ns = 250 if ctx.quick() else 3000
    for k in range(nh):
        line, meta = gen_history(k, ctx, rng)
        cases['usermanager'].append((line.split()[0], line, meta))
    for k in range(ns):
        line, meta = gen_server_case(k, ctx, rng)
        cases['server'].append((line.split()[0], line, meta))

    stats = dict(ops={}, post_intents={}, subsets=set(), statuses={}, connect={}, panics=0, reopen=0, hist_len=[])
    total_ops = 0
    mism_all = []
    orc_fail = 0
    prefix_detected = False
    distinct = set()
    impl_count = 0
    times = {}
    for pkg in ('usermanager', 'server'):
        cs = cases[pkg]
        rc, log, impl, inp, dt = run_impl(ctx, pkg, [c[1] for c in cs], 'cases')
        times[pkg] = round(dt, 1)
        if rc != 0:
            res['broken'].append(('Go driver TestVerifC18 (%s) failed to build or run' % pkg, log[-3000:]))
        mrc, merr, model = run_model(ctx, inp, 'cases_' + pkg)
        if mrc != 0:
            res['broken'].append(('extracted model c18 failed', (merr or '')[-2000:]))
        if any('!SPEC-DIFFERS' in v for v in model.values()):
            res['broken'].append(('extracted concrete run and abstract specification disagree (C18_refines_map at extraction level)',
                                  [v for v in model.values() if '!SPEC-DIFFERS' in v][0][:1000]))
        mism = []
        for cid, line, meta in cs:
            io = impl.get(cid)
            mo = model.get(cid)
            if io is None:
                continue
            impl_count += 1
            toks = io.split()
            distinct.add(line.split(' ', 1)[1])
            total_ops += len(toks)
            stats['hist_len'].append(len(meta['intents']))
            for intent, tok in zip(meta['intents'], toks):
                stats['ops'][intent[0]] = stats['ops'].get(intent[0], 0) + 1
                if intent[0] == 'P':
                    stats['post_intents'][intent[1]] = stats['post_intents'].get(intent[1], 0) + 1
                    if intent[1] == 'valid':
                        stats['subsets'].add(sum(1 << i for i, f in enumerate(FIELDS) if f in intent[3]))
                if intent[0] == 'C':
                    key = norm(tok) if not tok.startswith('c:ok') else 'c:ok'
                    stats['connect'][key] = stats['connect'].get(key, 0) + 1
                if tok.startswith('s'):
                    stats['statuses'][tok] = stats['statuses'].get(tok, 0) + 1
                if tok.startswith('PANIC'):
                    stats['panics'] += 1
            r = oracle(meta, toks)
            if r:
                sig, msg, idx = r
                orc_fail += 1
                if orc_fail <= 2:
                    sline, smeta = shrink(ctx, pkg, line, meta, sig)
                    rc2, _, impl2, _, _ = run_impl(ctx, pkg, [sline], 'shrunk')
                    sio = impl2.get(sline.split()[0], io)
                    r2 = oracle(smeta, sio.split()) or r
                    verdict.oracle_failure(r2[0], 'C18 oracle: ' + r2[1],
                                           dict(case=sline, meta=smeta, implementation=sio, history=readable(sline, smeta),
                                                failing_op_index=r2[2], original_case=line,
                                                how='python3 tools/check.py C18 --replay <this file>'))
            if mo is not None and [norm(t) for t in toks] != mo.split():
                mism.append((cid, line, io, mo))
        prefix_note = ''
        if mism and rc == 0 and mrc == 0 and pkg == 'server':
            # the same cases on the model variant before commit 638655d (no rate guard in GetUser)
            grc, gerr, gmodel = run_model(ctx, inp, 'cases_' + pkg, prefix=True)
            if grc == 0 and all([norm(t) for t in impl[c[0]].split()] == gmodel.get(c[0], '').split() for c in cs if c[0] in impl):
                prefix_detected = True
                prefix_note = ' (every case matches the model variant WITHOUT the rate guard of commit 638655d: finding F8 is back)'
        if mism and rc == 0 and mrc == 0:
            cid, line, io, mo = min(mism, key=lambda m: len(m[1]))
            k = next((i for i, (a, b) in enumerate(zip([norm(t) for t in io.split()], mo.split())) if a != b), None)
            res['broken'].append(('model UserDB.v vs %s: %d of %d cases differ%s' % (pkg, len(mism), len(cs), prefix_note),
                                  'smallest differing case: %s\nfirst differing op index: %s\nimplementation: %s\nmodel:          %s' % (line, k, io, mo)))
        mism_all += mism
    hl = stats['hist_len'] or [0]
    verdict.cov.update(
        evaluations=total_ops, distinct_nontrivial=len(distinct),
        rule='distinct = distinct op lists (every history has >= 1 request and ends with a listing); evaluations = operations executed on the real code and compared with the model',
        samples=[cases['usermanager'][ncorpus if ncorpus < len(cases['usermanager']) else 0][1][:600], cases['server'][0][1][:600]],
        traces_validated_against_impl=impl_count, mismatches=len(mism_all), oracle_failures=orc_fail,
        input_distribution=dict(histories=len(cases['usermanager']), server_cases=len(cases['server']), ops_by_kind=stats['ops'],
                                post_by_intent=stats['post_intents'], field_subsets_created='%d of 64' % len(stats['subsets']),
                                status_codes=stats['statuses'], connect_outcomes=stats['connect'], panics_seen=stats['panics'],
                                history_len=dict(min=min(hl), max=max(hl), mean=round(sum(hl) / len(hl), 1)), go_seconds=times),
        corpus_cases=ncorpus, exhaustive=False, matches_prefix_F8_variant=prefix_detected)
    ctx.notes.append('observation (not part of the property): DELETE of an absent user answers 500 where api.yaml documents 404; '
                     'the [b64UID == ""] branches of the handlers are unreachable (no route matches an empty segment: 405), '
                     'an empty UID is reachable only through the segment %0A and is refused by bolt (500, nothing written)')
    ctx.notes.append('observation O5: a negative SessionsCap is shown signed by the API and enforced unsigned (Example C18_O5_negative_cap)')
    return res


def replay(ctx, verdict):
    r = ctx.replay
    line, meta = r.get('case'), r.get('meta')
    if not line:
        print(json.dumps(r, indent=1)); return 0
    pkg = meta['pkg']
    rc, log, impl, inp, _ = run_impl(ctx, pkg, [line], 'replay')
    mrc, merr, model = run_model(ctx, inp, 'replay')
    cid = line.split()[0]
    print('history:')
    for h in readable(line, meta):
        print('  ', json.dumps(h))
    print('implementation:', impl.get(cid)); print('model:         ', model.get(cid))
    res = oracle(meta, (impl.get(cid) or '').split())
    print('oracle:', res)
    return 1 if res else 0


MANIFEST = dict(
    technique='Coq proofs over all operation sequences (simulation: abstraction function + per-step commutation + induction) of a hand-written model of the bolt-backed user manager and its HTTP router; model tied to the code by differential execution of seeded histories (real router via httptest on real bolt files with close/reopen, real userPanel for connect/upload) against the extracted model; independent Python reference map as oracle',
    level_text='C18_codec, C18_refines_map (every history of create/update with any field subset and any int32/int64 values, read, list, delete, rejected requests, reopen, usage upload, from any well-formed store: responses and final store equal those of a finite map uid -> six integers), C18_spec_is_map, C18_persist, C18_no_panic (every store: no reader, no history, no connect of any owner and no usage upload panics - the code as it is now) and C18_no_panic_on_connect are proved in Coq without axioms; C18_badrate_exact says exactly which records the rate guard refuses. The two repaired defects are kept as refuted variants of the model: C18_refuted_prefix_nil (F7, decoder before cd5140b) and C18_refuted_prefix_makevalve (F8, GetUser before 638655d) with the exact panic condition C18_prefix_makevalve_exact.',
    level_note='Trusted: Coq kernel; extraction; bbolt durability and transaction atomicity (exercised, not modelled); encoding/json, base64, gorilla/mux classification of requests (by construction in the generator, sampled); ratelimit panics iff capacity <= 0 (read from source, sampled).',
    design_ref='DESIGN.md section 6, C18; section 7 F6 F7 F8 O5')
