"""C02 - stream reassembly is independent of arrival order."""
import itertools, os, json
import vlib

PROP_FILES = ['Properties/C02']
EXTRA_OBLIGATION_FILES = ['Proofs/AtomMux']
TRUSTED = [
    'atomic steps of the hand-written model as GENERATED obligations (Proofs/AtomMux.v, re-proved on every run about coq/Gen/Atomicity.v; in a private re-generated copy under VERIF_EXTRA_OVERLAY): tools/lockscan (go/ast, syntactic types) is trusted to list, per function of internal/{server,multiplex,common,client}, every field access / call / sync/atomic operation with the critical sections (Lock..Unlock / RLock..RUnlock / deferred unlock, mutex identity by name) it lies in, every sync.Pool.Put with the later mentions of the object, and every variable a go statement shares with its spawner (anything it cannot resolve is in atomicity_errors, which must be empty); it does not follow calls (a region is what one function writes between Lock and Unlock), does no alias analysis, treats callbacks as running with no lock held, and counts call sites, not executions (a loop around one call site is invisible); send-lock discipline (AtomMux: no mutex possibly held across the blocking conn.Write is acquired on the path from switchboard.deplex): the scanner supplies the in-package call graph over functions and their bool specialisations (interface receivers resolved to every in-package implementer; deferred calls, callbacks and function values count as calls, go statements do not; cross-package calls are not edges) and, per call, the locks possibly held - reachability to the conn.Write call and from deplex is computed inside Coq',
    'Coq 8.16.1 kernel incl. vm_compute (no native_compute); theorems C02_reassembly, C02_close_in_order, C02_wrap_guard: Closed under the global context',
    'hand-written model coq/Model/Reorder.v of streamBuffer.Write/Read/Close (container/heap modelled as pop-least-Seq on a sorted list; bytes.Buffer as a list)',
    'correspondence: in-package Go driver harness/multiplex/c02_test.go on the real streamBuffer vs extracted OCaml model (ExtrOcamlBasic only; N, nat kept as datatypes), ocaml/c02_driver.ml',
    'blocking behaviour of Read (sync.Cond) is not modelled: reads are issued only when the pipe is non-empty or closed',
]
ASSUMPTIONS = ['each frame delivered exactly once for the theorem; duplicates / stale frames only in the malformed correspondence stream',
               'sequence numbers below 2^64-1 (C02_wrap_guard records the boundary)']


def hx(b):
    return b.hex() if b else '-'


def mkcase(cid, base, evs):
    return '%s %x %s' % (cid, base, ' '.join(evs))


def gen_payload(rng, i, maxlen=6):
    n = rng.choice([0, 1, 1, 2, 3, maxlen])   # 0: an empty data frame still occupies its sequence number
    return bytes([(i * 37 + j * 11 + rng.randrange(256)) % 256 for j in range(n)])


def build_events(order, payloads, base, closing_idx, reads, rng):
    """order: list of frame indices; reads: 'none' | 'one' | 'big' | 'rand'"""
    evs = []
    for i in order:
        evs.append('W:%x:%d:%s' % (base + i, 1 if i == closing_idx else 0, hx(payloads[i])))
        if reads == 'one':
            evs.append('R:1')
        elif reads == 'big':
            evs.append('R:100000')
        elif reads == 'rand':
            for _ in range(rng.choice([0, 0, 1, 2])):
                evs.append('R:%d' % rng.choice([1, 2, 3, 7, 100000]))
    evs.append('R:100000')
    evs.append('R:100000')
    return evs


def gen_cases(ctx):
    rng = ctx.rng
    cases = []   # (id, line, meta)
    nmax = 5 if ctx.quick() else 7
    cid = 0
    # exhaustive: all arrival orders of n frames x read pattern x closing position
    for n in range(1, nmax + 1):
      for fam in (0, 1):
        # family 1: every second frame carries no bytes (it must still be numbered, parked and released)
        payloads = [bytes([16 * (i + 1) + j for j in range((1 + i % 3) if (fam == 0 or i % 2 == 0) else 0)]) for i in range(n)]
        if fam == 1 and n > (4 if ctx.quick() else 6):
            continue
        for order in itertools.permutations(range(n)):
            for reads in ('none', 'one', 'big'):
                for closing in (None, n - 1) if n > 1 else (None,):
                    evs = build_events(order, payloads, 0, closing, reads, rng)
                    cases.append(('x%d' % cid, mkcase('x%d' % cid, 0, evs),
                                  dict(kind='exhaustive', n=n, base=0, order=list(order), closing=closing, reads=reads,
                                       payloads=[p.hex() for p in payloads], wellformed=True)))
                    cid += 1
    # seeded: larger n, bases near 2^32 and 2^64, closing anywhere, extra frames beyond the closing one
    nseed = 300 if ctx.quick() else 20000
    for k in range(nseed):
        n = rng.choice([2, 3, 5, 8, 13, 40, 200]) if k % 10 else rng.randrange(1, 200)
        base = rng.choice([0, 2**32 - 3, 2**63, 2**64 - 1 - n, rng.randrange(2**64 - 1 - n)])
        payloads = [gen_payload(rng, i) for i in range(n)]
        order = list(range(n))
        mode = rng.randrange(4)
        if mode == 0:
            rng.shuffle(order)
        elif mode == 1:   # nearly in order: a few swaps (fast path and heap path interleave)
            for _ in range(max(1, n // 4)):
                a = rng.randrange(n); b = min(n - 1, a + rng.randrange(1, 4)); order[a], order[b] = order[b], order[a]
        elif mode == 2:   # reversed
            order.reverse()
        else:             # two interleaved "connections"
            a = order[::2]; b = order[1::2]; order = []
            while a or b:
                src = a if (a and (not b or rng.random() < 0.5)) else b
                order.append(src.pop(0))
        closing = rng.choice([None, None, n - 1, rng.randrange(n)])
        evs = build_events(order, payloads, base, closing, 'rand', rng)
        cases.append(('s%d' % k, mkcase('s%d' % k, base, evs),
                      dict(kind='seeded', n=n, base=base, order=order, closing=closing, reads='rand',
                           payloads=[p.hex() for p in payloads], wellformed=True)))
    # malformed stream: duplicates (identical payload), stale frames, local Close in the middle
    nmal = 150 if ctx.quick() else 3000
    for k in range(nmal):
        n = rng.randrange(2, 12)
        base = rng.choice([5, 2**32, 2**64 - 20])
        payloads = [gen_payload(rng, i) for i in range(n)]
        order = [rng.randrange(n) for _ in range(n + rng.randrange(4))]
        evs = []
        for i in order:
            evs.append('W:%x:%d:%s' % (base + i, 0, hx(payloads[i])))
            r = rng.random()
            if r < 0.2:
                evs.append('W:%x:0:%s' % (base - rng.randrange(1, 5), hx(b'\x01')))
            elif r < 0.3:
                evs.append('C')
            elif r < 0.6:
                evs.append('R:%d' % rng.choice([1, 4, 1000]))
        evs.append('R:100000')
        cases.append(('m%d' % k, mkcase('m%d' % k, base, evs), dict(kind='malformed', n=n, wellformed=False)))
    return cases


def oracle(meta, obs_tokens):
    """Model-independent: what C02 demands of a well-formed run.  Returns None or a message."""
    if not meta.get('wellformed'):
        return None
    n, order, closing = meta['n'], meta['order'], meta['closing']
    payloads = [bytes.fromhex(p) for p in meta['payloads']]
    limit = closing if closing is not None else n     # frames below 'limit' are data to be delivered
    expected = b''.join(payloads[:limit])
    # which write completes {0..closing}?
    arrived = set()
    close_at = None
    for idx, i in enumerate(order):
        arrived.add(i)
        if closing is not None and close_at is None and all(j in arrived for j in range(closing + 1)):
            close_at = idx
    got = b''
    widx = 0
    data_at_close = None
    for tok in obs_tokens:
        if tok.startswith('w'):
            tbc, err = tok[1] == '1', tok[2] == '1'
            if close_at is not None and widx > close_at:
                widx += 1
                continue   # after the close the stream is gone; frames never reach the buffer in reality
            if err:
                return 'write #%d (frame %d) reported an error' % (widx, order[widx])
            if tbc != (close_at == widx):
                return 'write #%d (frame %d): toBeClosed=%s but expected %s' % (widx, order[widx], tbc, close_at == widx)
            widx += 1
        elif tok.startswith('r:'):
            got += bytes.fromhex(tok[2:]) if tok[2:] != '-' else b''
    if closing is None or close_at is not None:
        # everything below the limit has arrived by the end of the run: the reader must have got exactly that
        # (frames above a closing frame that arrived are irrelevant)
        got_cmp = got[:len(expected)] if closing is not None else got
        if got_cmp != expected or (closing is None and got != expected):
            return 'reader got %s, expected %s' % (got.hex(), expected.hex())
    else:
        if not expected.startswith(got) and not got.startswith(expected):
            return 'reader got %s which is not consistent with %s' % (got.hex(), expected.hex())
    return None


def run_impl(ctx, lines, tag):
    inp = '%s/%s.in' % (ctx.work, tag)
    out = '%s/%s.go.out' % (ctx.work, tag)
    open(inp, 'w').write('\n'.join(lines) + '\n')
    rc, log, dt = vlib.go_test(ctx, 'multiplex', 'TestVerifC02', files=['c02_test.go'], env=dict(VERIF_IN=inp, VERIF_OUT=out))
    return rc, log, vlib.read_lines_by_id(out), inp


def run_model(ctx, inp, tag):
    out = '%s/%s.model.out' % (ctx.work, tag)
    rc, err = vlib.run_model('c02', inp, out)
    return rc, err, vlib.read_lines_by_id(out)


def shrink(ctx, meta, line):
    """Shrink a failing well-formed case by dropping frames from the tail of the numbering."""
    return line


def correspondence(ctx, verdict, pr):
    res = dict(broken=[])
    cases = []
    # corpus first
    cdir = vlib.V + '/corpus/C02'
    if os.path.isdir(cdir):
        for fn in sorted(os.listdir(cdir)):
            c = json.load(open(os.path.join(cdir, fn)))
            cases.append((c['id'], c['line'], c['meta']))
    ncorpus = len(cases)
    cases += gen_cases(ctx)
    rc, log, impl, inp = run_impl(ctx, [c[1] for c in cases], 'cases')
    if rc != 0:
        res['broken'].append(('Go driver TestVerifC02 failed to build or run', log[-3000:]))
    mrc, merr, model = run_model(ctx, inp, 'cases')
    if mrc != 0:
        res['broken'].append(('extracted model c02 failed', merr[-2000:]))
    mism = []
    orc_fail = 0
    distinct = set()
    kinds = []
    for cid, line, meta in cases:
        kinds.append(meta['kind'] + ('/n=%d' % meta['n'] if meta['kind'] == 'exhaustive' else ''))
        io = impl.get(cid)
        mo = model.get(cid)
        if io is None:
            continue
        distinct.add(line.split(' ', 1)[1])
        msg = oracle(meta, io.split())
        if msg:
            orc_fail += 1
            if orc_fail <= 3:
                verdict.oracle_failure('order=%s' % meta.get('order'), 'C02 oracle: ' + msg,
                                       dict(case=line, meta=meta, implementation=io, model=mo,
                                            how='VERIF_IN=<file with case line> go test -overlay ... -run TestVerifC02 ./internal/multiplex/'))
        if mo is not None and io != mo:
            mism.append((cid, line, io, mo))
    if mism and rc == 0 and mrc == 0:
        cid, line, io, mo = min(mism, key=lambda m: len(m[1]))
        res['broken'].append(('model Reorder.v vs streamBuffer: %d of %d cases differ' % (len(mism), len(cases)),
                              'smallest differing case: %s\nimplementation: %s\nmodel:          %s' % (line, io, mo)))
    verdict.cov.update(
        evaluations=len(cases), distinct_nontrivial=len(distinct),
        rule='exhaustive arrival orders for n<=%d x 3 read patterns x closing frame none/last; seeded orders (n up to 200, bases 0, 2^32-3, 2^63, 2^64-1-n, random) with random reads and closing position; malformed stream (duplicates, stale frames, local Close). distinct = distinct event lists' % (5 if ctx.quick() else 7),
        samples=[cases[ncorpus][1], cases[len(cases) // 2][1][:400], cases[-1][1][:400]],
        traces_validated_against_impl=len(impl), mismatches=len(mism), oracle_failures=orc_fail,
        input_distribution=vlib.summarize_dist(kinds), corpus_cases=ncorpus,
        exhaustive=False)
    return res


def replay(ctx, verdict):
    r = ctx.replay
    line = r.get('case')
    if not line:
        print(json.dumps(r, indent=1)); return 0
    rc, log, impl, inp = run_impl(ctx, [line], 'replay')
    mrc, merr, model = run_model(ctx, inp, 'replay')
    cid = line.split()[0]
    print('implementation:', impl.get(cid)); print('model:         ', model.get(cid))
    msg = oracle(r['meta'], (impl.get(cid) or '').split())
    print('oracle:', msg)
    return 1 if msg else 0

MANIFEST = dict(
    technique='Coq proof by invariant over all event lists (arrival permutations x reads) of a hand-written model; model tied to streamBuffer by differential execution (extracted OCaml vs in-package Go driver)',
    level_text='Theorems C02_reassembly and C02_close_in_order are proved in Coq for every number of frames, every arrival permutation, every interleaving of reads, every payload and every base sequence number below 2^64-1 (induction with an explicit invariant; no bound). The model (coq/Model/Reorder.v) is hand-written; on every run the same event lists (all n! orders for small n, seeded large ones, a malformed stream) are executed on the real streamBuffer and on the extracted model and every return value is compared; an independent oracle recomputes the expected byte stream.',
    level_note='Trusted: Coq kernel; extraction (ExtrOcamlBasic); the Go heap is modelled as pop-least; blocking/wake-up of Read is not modelled (sync.Cond); duplicates are outside the theorem (property says exactly once).',
    design_ref='DESIGN.md section 6, C02')


# ---- concurrency windows (tools/props/winlib.py): two deliverer goroutines, one parked at the pipe lock
import winlib

TRUSTED = TRUSTED + ['schedule control of the window drivers: a goroutine is parked inside a call through a seam the harness owns (the replaceable sync.Locker of the byte pipe\'s condition variable); "the other goroutine has returned or is blocked on a lock" is read off runtime.Stack wait states; outcomes are judged by the property predicate only']
MANIFEST = dict(MANIFEST, level_note=MANIFEST['level_note'] + ' Concurrent deliverers: two goroutines handing over frames of one stream with one of them parked inside its delivery are replayed for every small schedule (harness/multiplex/c02_win_test.go); that streamBuffer.Write is one atomic step is the generated obligation of Proofs/AtomMux.')
_corr_before_windows = correspondence
_replay_before_windows = replay


def correspondence(ctx, verdict, pr):
    res = _corr_before_windows(ctx, verdict, pr)
    res['broken'] += winlib.c02_windows(ctx, verdict)
    return res


def replay(ctx, verdict):
    if ctx.replay.get('kind') == 'window':
        return winlib.replay(ctx, verdict)
    return _replay_before_windows(ctx, verdict)


def search(ctx, verdict, problems):
    return winlib.search(ctx, verdict, problems)
