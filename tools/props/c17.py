"""C17 - user bookkeeping never deadlocks and never loses track of a live session."""
import os, json, re
import vlib
from props import panellib
from props import overlap

panellib.refresh_gen()     # coq/Gen/LockGraph.v, Guards.v from /repo's working tree, before the build

PROP_FILES = ['Properties/C17']
EXTRA_OBLIGATION_FILES = ['Proofs/AtomPanel', 'Proofs/LockOrder', 'Proofs/PanelLocks', 'Proofs/PanelWF', 'Proofs/PanelOwn',
                          'Proofs/PanelRefute', 'Extract/C17']
TRUSTED = [
    'atomic steps of the hand-written model as GENERATED obligations (Proofs/AtomPanel.v, re-proved on every run about coq/Gen/Atomicity.v; in a private re-generated copy under VERIF_EXTRA_OVERLAY): tools/lockscan (go/ast, syntactic types) is trusted to list, per function of internal/{server,multiplex,common,client}, every field access / call / sync/atomic operation with the critical sections (Lock..Unlock / RLock..RUnlock / deferred unlock, mutex identity by name) it lies in, every sync.Pool.Put with the later mentions of the object, and every variable a go statement shares with its spawner (anything it cannot resolve is in atomicity_errors, which must be empty); it does not follow calls (a region is what one function writes between Lock and Unlock), does no alias analysis, treats callbacks as running with no lock held, and counts call sites, not executions (a loop around one call site is invisible); who removes entries (AtomReplay/AtomPanel/AtomMux): the scanner distinguishes element stores (w), delete/clear (del), assignment of the whole field (set), address-of (addr) and the map being handed on as a value (val); a delete on a local map is recorded under the name of that local',
    'Coq 8.16.1 kernel incl. vm_compute (no native_compute); all C17 theorems: Closed under the global context',
    'hand-written LTS coq/Model/Panel.v of userpanel.go / activeuser.go / the user-resolution part of dispatcher.go / localmanager.go at critical-section granularity (reductions listed in its header: Nullify one step, the updateUsageQueue loop one step, queue values read at the end of commitUpdate\'s critical section, no RWMutex writer preference)',
    'tools/lockscan (go/ast walker, ~2700 lines): lock identity by name, cross-package calls not followed, function values conservative; its output is re-generated on every run and the acyclicity / order / guarded-by theorems are re-proved about it',
    'correspondence: lock-step engine harness/server/c17_common_test.go on the real userPanel + localManager(bolt) + API router + mux.Session/LimitedValve vs the extracted model (ocaml/c17_driver.ml, ExtrOcamlBasic only); "blocked on a lock" is read off runtime.Stack goroutine states; the dispatch operation of the seeded scenarios replays dispatcher.go:231-252 by direct calls, one replay (F5) drives the real dispatchConnection with a real client handshake and the schedule point dispatch.gotUser',
    'Go sync.Mutex / sync.RWMutex / sync/atomic have their documented semantics; bolt transactions are atomic',
    "overlapped calls: the engine hands the real panel a wrapper around the real localManager (userPanel.Manager is an interface) that holds a scenario goroutine inside AuthenticateUser / AuthoriseNewSession / UploadStatus until the scenario releases it; 'the other caller is blocked until the first is released' is read off runtime.Stack goroutine states (a goroutine waiting for a mutex is not durably blocked for testing/synctest, so its barrier cannot be used for this); the model threads are stopped at the corresponding pcs D1 / D3 / M8 (coq/Model/PanelPark.v, extracted); Model/PanelSplit.v + Proofs/PanelSplit.v: small-step GetUser with the lock as a parameter (refines the atomic step when held, refuted when not)",
]
ASSUMPTIONS = [
    'threads = any number of dispatch / CloseSession / TerminateActiveUser / updateUsageQueue / commitUpdate activations; traffic, session failures, admin writes and clock ticks interleave freely',
    'mux.Session.Close, MakeSession, bolt transactions and logging never call back into the panel (checked by lockscan within each package only)',
]

USERS = ['1:2:100000:100000:100', '1:1:100000:100000:100,2:3:100000:100000:100',
         '1:3:500:400:100,2:2:100000:100000:100,b9', '1:2:100000:100000:100,b9',
         '1:0:100000:100000:100,2:2:300:300:100', '1:4:100000:100000:40,2:1:100000:100000:100']


def gen_random(rng, n):
    """A random scenario: (users, steps).  Structural rule: while an updateUsageQueue is parked
    at its schedule point (it holds a lock) at most one more operation is started before it is
    released, so that at most one thread waits for a lock at a time (deterministic hand-over)."""
    users = rng.choice(USERS)
    uids = [int(e.split(':')[0]) for e in users.split(',') if e[0] != 'b'] + [int(e[1:]) for e in users.split(',') if e[0] == 'b']
    limited = [int(e.split(':')[0]) for e in users.split(',') if e[0] != 'b']
    steps = []
    nthr = 0
    nd = 0
    parked_d = []      # dispatch threads parked at gotUser
    nextsid = {u: 1 for u in uids}

    def dispatch(hook=False):
        nonlocal nthr, nd
        u = rng.choice(uids)
        if rng.random() < 0.3 and nextsid[u] > 1:
            sd = rng.randrange(1, nextsid[u])
        else:
            sd = nextsid[u]; nextsid[u] += 1
        steps.append('D%d.%d%s' % (u, sd, 'h' if hook else ''))
        if hook:
            parked_d.append(nthr)
        nthr += 1; nd += 1

    def other(kinds):
        nonlocal nthr
        k = rng.choice(kinds)
        if k == 'D':
            dispatch(rng.random() < 0.2)
        elif k == 'C':
            steps.append('C%d' % rng.randrange(max(1, nd))); nthr += 1
        elif k == 'B':
            steps.append('B%d' % rng.randrange(max(1, nd)))
        elif k == 'T':
            steps.append('T%d.%d.%d' % (rng.randrange(max(1, nd)), rng.choice([0, 1, 17, 300, 5000]), rng.choice([0, 0, 9, 120])))
        elif k == 'U':
            steps.append('U'); nthr += 1
        elif k == 'M':
            steps.append('M'); nthr += 1
        elif k == 'R':
            steps.append('R'); nthr += 1
        elif k == 'A':
            u = rng.choice(limited)
            f = rng.choice(['u', 'd', 'c', 'e', 'ud'])
            parts = []
            if 'u' in f: parts.append('u%d' % rng.choice([0, 50, 100000]))
            if 'd' in f: parts.append('d%d' % rng.choice([0, 50, 100000]))
            if 'c' in f: parts.append('c%d' % rng.choice([0, 1, 2, 4]))
            if 'e' in f: parts.append('e%d' % rng.choice([5, 100, 1000]))
            steps.append('Aw%d.%s' % (u, '.'.join(parts)))
        elif k == 'X':
            steps.append('Ad%d' % rng.choice(limited))
        elif k == 'K':
            steps.append('K%d' % rng.choice([1, 30, 200]))
        elif k == 'G' and parked_d:
            t = parked_d.pop(rng.randrange(len(parked_d)))
            steps.append('G%d' % t)

    dispatch()
    for _ in range(n):
        r = rng.random()
        if r < 0.12:
            # an upload step parked at updateUsageQueue.firstLock with one operation overlapping it
            kind = rng.choice(['U', 'U', 'R'])
            steps.append(kind + 'h'); t = nthr; nthr += 1
            if rng.random() < 0.85:
                # a parked round takes the queue lock again after it is released: only overlap it with
                # operations that do not queue for that lock (mutex hand-over order is not deterministic)
                other(['M', 'M', 'R', 'U', 'C', 'C', 'D', 'T', 'A'] if kind == 'U' else ['D', 'T', 'A', 'K'])
            steps.append('G%d' % t)
        else:
            other(['D', 'D', 'D', 'C', 'C', 'B', 'T', 'T', 'T', 'U', 'M', 'R', 'R', 'A', 'A', 'X', 'K', 'G'])
    while parked_d:
        steps.append('G%d' % parked_d.pop(0))
    steps.append('R')
    return users, steps


DET = [
    # F4: T1 (thread 2) is held between the two lock acquisitions of updateUsageQueue, T2 = commitUpdate with a
    # non-empty queue; then T1 is released.  Both must finish.
    ('det_f4', '1:2:1000:1000:100', 'D1.1 T0.5.0 U Uh M G2'.split()),
    ('det_f4b', '1:2:1000:1000:100', 'D1.1 T0.5.0 U Rh R G2 R'.split()),
    ('det_f4c', '1:2:1000:1000:100,2:1:1000:1000:100', 'D1.1 D2.1 T0.5.3 T1.7.0 U Uh C0 G3 M'.split()),
    # F5: the dispatcher of a second connection is held at dispatch.gotUser while the user's last session is closed
    ('det_f5', '1:2:1000:1000:100', 'D1.1 D1.2h C0 G1 D1.3 T1.5.7 R'.split()),
    ('det_f5_commit', '1:2:40:1000:100', 'D1.1 T0.50.0 D1.2h R G1 R'.split()),
    # a stale CloseSession on the old record after the user has a new one (serveSession of a session that
    # closeAllSessions closed calls CloseSession on its - now empty - record)
    ('det_stale_close', '1:2:1000:1000:100', 'D1.1 C0 D1.2 C0 R'.split()),
]


def gen_cases(ctx):
    rng = ctx.rng
    cases = []
    for cid, users, steps in DET:
        cases.append((cid, users, steps, 'deterministic'))
    nrand = 300 if ctx.quick() else 3000
    for i in range(nrand):
        users, steps = gen_random(rng, rng.choice([4, 8, 8, 14, 22]))
        cases.append(('r%d' % i, users, steps, 'random'))
    # calls OVERLAPPING through the UserManager seam (threads held inside AuthenticateUser /
    # AuthoriseNewSession / UploadStatus): exhaustive small families + seeded ones, see overlap.py
    cases += overlap.cases(rng, 80 if ctx.quick() else 1200)
    return cases


def classify(case_id, k, ses, corresponded):
    """signature of a live session the panel cannot reach"""
    born = None
    for e in ses:
        if e[0] == k:
            born = e[3]
    if not corresponded:
        return 'session-lost:not-explained-by-the-model'
    if born == 1:
        return 'orphan-session-after-terminate:created-in-a-record-the-panel-had-forgotten'
    return 'record-deleted-by-uid:stale-terminate-forgot-the-newer-record'


def lost_sessions(go, cid):
    """-> (indices of live sessions the panel could not reach, 'after step i (..)' | 'at the end')"""
    at = go.get('orphat', {}).get(cid)
    if at:
        i, ks = at[0]
        rp = go['replay'].get(cid, [])
        return ks, 'after step %d (%s)' % (i, rp[3 + i] if len(rp) > 3 + i else '?')
    if cid in go['orph']:
        return go['orph'][cid], 'at the end of the scenario'
    return [], ''


def shrink_case(ctx, obj, key):
    """smaller scenario with the same kind of oracle failure (a few driver runs); obj with case replaced"""
    case = obj['case']
    n = [0]

    def judge(batch):
        n[0] += 1
        rc, log, go, dt = run_cases(ctx, [(cid, u, st, 'shrink') for cid, u, st in batch], 'shrink%d' % n[0], with_real=False)
        bad = set()
        for cid, u, st in batch:
            if key == 'deadlock':
                if cid in go['blocked']:
                    bad.add(cid)
            elif key == 'session-lost' and lost_sessions(go, cid)[0] and cid not in go['blocked']:
                bad.add(cid)
            elif key != 'session-lost' and any(sg == key for sg, _ in overlap.one_record_per_user(u, go['ses'].get(cid, []), go['orph'].get(cid, []))):
                bad.add(cid)
        return bad
    small = overlap.shrink(judge, case['users'], case['steps'])
    if len(small) < len(case['steps']):
        obj = dict(obj, case=dict(case, steps=small), original_case=case)
        if key == 'deadlock':
            # the goroutine dump and the waiting threads of the SHRUNK schedule
            rc, log, go, dt = run_cases(ctx, [(case['id'], case['users'], small, 'shrunk')], 'shrunk', with_real=False)
            cid = case['id']
            if cid in go['blocked']:
                obj['blocked_threads'] = go['blocked'][cid]
                obj['implementation'] = go['obs'].get(cid)
                if cid in go['hang'] and os.path.exists(go['hang'][cid]):
                    obj['goroutines'] = lock_waiters(open(go['hang'][cid]).read())
    return obj


def lock_waiters(dump):
    """the goroutines of a dump that wait for a lock, with the first frames of /repo code (who waits where)"""
    out = []
    for blk in dump.split('\n\n'):
        head = blk.split('\n', 1)[0]
        if 'Mutex' in head or 'semacquire' in head:
            frames = [ln.strip() for ln in blk.split('\n')[1:] if ln and not ln.startswith('\t')]
            mine = [f for f in frames if 'Cloak/internal/server' in f and 'vfC17' not in f][:4] or [f for f in frames if 'Cloak/internal/server' in f][:2]
            out.append(head + '  ' + ' <- '.join(f.split('/')[-1] for f in mine))
    return '\n'.join(out)[:6000]


def run_cases(ctx, cases, tag, with_real=True):
    lines = ['%s 00 10 %s %s' % (cid, users, ' '.join(steps)) for cid, users, steps, _ in cases]
    if with_real:
        lines.append('!f5real')
    rc, log, out, dt = panellib.run_go(ctx, lines, tag)
    go = panellib.parse_go(out)
    return rc, log, go, dt


def correspondence(ctx, verdict, pr):
    res = dict(broken=[])
    # ---- generated obligations, honouring VERIF_EXTRA_OVERLAY
    gen = panellib.check_generated_obligations(ctx)
    if gen['error']:
        res['broken'].append(('generated obligation about the lock graph / guarded-by sets (Proofs/LockOrder.v)', gen['error']))
    cases = []
    cdir = vlib.V + '/corpus/C17'
    if os.path.isdir(cdir):
        for fn in sorted(os.listdir(cdir)):
            c = json.load(open(os.path.join(cdir, fn)))
            cases.append((c['id'], c['users'], c['steps'], 'corpus'))
    ncorpus = len(cases)
    cases += gen_cases(ctx)
    bycase = {c[0]: c for c in cases}
    rc, log, go, dt = run_cases(ctx, cases, 'cases')
    if rc != 0 or not go['obs']:
        res['broken'].append(('Go driver TestVerifC17 failed to build or run', log[-3000:]))
    mlines = panellib.model_lines(go, gen['prefix_order'])
    mrc, merr, model = panellib.run_model(ctx, mlines, 'cases')
    if mrc != 0:
        res['broken'].append(('extracted model c17 failed', merr[-2000:]))
    mism = []
    kinds = []
    nblocked_obs = nhook_obs = 0
    distinct = set()
    orc = 0
    reported = {}

    pending = []

    def report(sig, what, obj):
        """collected first: at most two replays per kind of failure, the shortest scenarios"""
        pending.append((len(obj.get('case', {}).get('steps', [])) if isinstance(obj.get('case'), dict) else 0, len(pending), sig, what, obj))

    def flush_reports():
        for _, _, sig, what, obj in sorted(pending, key=lambda x: x[:2]):
            key = sig.split(':')[0]
            reported[key] = reported.get(key, 0) + 1
            if reported[key] <= 2:
                if isinstance(obj.get('case'), dict):
                    known = any(f.get('status', 'open') == 'open' and re.fullmatch(f['signature'], sig) for f in vlib.known_findings(ctx.pid))
                    if not known and reported[key] == 1 and key in ('session-lost', 'two-records-for-one-user', 'two-valves-for-one-user', 'deadlock'):
                        obj = shrink_case(ctx, obj, key)
                    obj = dict(obj, schedule=overlap.describe(obj['case']['steps']))
                verdict.oracle_failure(sig, what, obj)
        del pending[:]
    for cid, users, steps, kind in cases:
        io = go['obs'].get(cid)
        if io is None:
            continue
        kinds.append(kind)
        distinct.add((users, ' '.join(steps)))
        if ':B' in io: nblocked_obs += 1
        if ':H' in io: nhook_obs += 1
        mo = model.get(cid)
        corresponded = (mo == io)
        if mo is not None and not corresponded:
            mism.append((cid, io, mo))
        how = 'python3 tools/check.py C17 --replay <this file>'
        # oracle 1: nothing blocks forever
        if cid in go['blocked']:
            orc += 1
            dump = ''
            if cid in go['hang'] and os.path.exists(go['hang'][cid]):
                dump = open(go['hang'][cid]).read()[:6000]
            report('deadlock:threads-%s-wait-forever' % '-'.join(map(str, go['blocked'][cid])),
                                   'C17 oracle: after everything that was held has been released, %d started calls never return: they wait for locks for ever (threads %s of scenario %s)' % (
                                       len(go['blocked'][cid]), ','.join(map(str, go['blocked'][cid])), cid),
                                   dict(case=dict(id=cid, users=users, steps=steps), implementation=io, model=mo,
                                        blocked_threads=go['blocked'][cid], goroutines=dump, how=how))
        # oracle 2: at every quiescent moment every live session of a limited user is reachable from the panel
        # (at the end of the scenario, and after every step that leaves all threads finished)
        lost, when = lost_sessions(go, cid)
        for k in lost[:2]:
            orc += 1
            sig = classify(cid, k, go['ses'].get(cid, []), corresponded)
            report(sig, 'C17 oracle: live session %d of scenario %s is not reachable from userPanel.activeUsers at the quiescent moment %s' % (k, cid, when),
                                   dict(case=dict(id=cid, users=users, steps=steps), implementation=io, model=mo,
                                        unreachable_sessions=lost, quiescent_moment=when, sessions=go['ses'].get(cid), how=how))
        # oracle 3: the live sessions of one limited user that the panel can reach belong to ONE record / ONE valve
        for sig, msg in overlap.one_record_per_user(users, go['ses'].get(cid, []), go['orph'].get(cid, [])):
            orc += 1
            report(sig + ':' + kind, 'C17 oracle: ' + msg,
                   dict(case=dict(id=cid, users=users, steps=steps), implementation=io, model=mo, sessions=go['ses'].get(cid), how=how))
    flush_reports()
    f5 = go.get('f5real')
    if f5 is None or f5.get('err', '-') != '-':
        res['broken'].append(('replay of F5 through the real dispatchConnection did not run', str(f5)))
    else:
        expect_patched = go['cfg'].get('patched') == '1'
        if f5.get('orphan') == '1':
            orc += 1
            verdict.oracle_failure('orphan-session-after-terminate:real-dispatcher',
                                   'C17 oracle (real dispatchConnection, real client handshake, schedule point dispatch.gotUser): the second connection got a session key for a session in a record the panel had already forgotten; isActive=false; second_record=%s' % f5.get('second_record'),
                                   dict(case='!f5real', observed=f5, how=how if False else 'VERIF_IN=<file containing the line !f5real> go test -tags verif -overlay ... -run TestVerifC17 ./internal/server/'))
        elif not expect_patched:
            ctx.notes.append('F5 did not reproduce through the real dispatcher although the code has no terminated flag: ' + str(f5))
    if mism and rc == 0 and mrc == 0:
        cid, io, mo = min(mism, key=lambda m: len(m[1]))
        res['broken'].append(('model Panel.v vs real userPanel: %d of %d scenarios differ' % (len(mism), len(go['obs'])),
                              'smallest differing scenario: %s %s %s\nsteps as executed: %s\nimplementation: %s\nmodel:          %s' % (
                                  cid, bycase[cid][1], ' '.join(bycase[cid][2]), ' '.join(go['replay'].get(cid, [])), io, mo)))
    verdict.cov.update(
        evaluations=len(cases), distinct_nontrivial=len(distinct),
        rule='distinct (users, step list); each scenario = 5..30 lock-step operations on the real panel (admission, CloseSession, connection loss, traffic, updateUsageQueue, commitUpdate, rounds, admin writes/deletes, clock), with threads held at the two schedule points; %d deterministic replays (F4 x3, F5 x2, stale close) + F5 through the real dispatcher; calls OVERLAPPING through the UserManager seam (threads held inside Manager.AuthenticateUser / AuthoriseNewSession / UploadStatus by a wrapper around the real localManager, the other callers observed blocked or not): exhaustive release orders of 2-3 first connections of one user, of 1-3 upload rounds, of two GetSession calls, + seeded compositions' % len(DET),
        samples=[' '.join(mlines[0].split()[1:]) if mlines else '', ' '.join(mlines[len(mlines) // 2].split()[1:])[:400] if mlines else ''],
        traces_validated_against_impl=len(go['obs']), mismatches=len(mism), oracle_failures=orc,
        input_distribution=dict(kinds=vlib.summarize_dist(kinds), scenarios_with_a_lock_blocked_thread=nblocked_obs,
                                scenarios_with_a_thread_at_a_schedule_point=nhook_obs,
                                scenarios_with_unreachable_live_session=len(go['orph']),
                                scenarios_deadlocked=len(go['blocked'])),
        corpus_cases=ncorpus, exhaustive=False, go_driver_seconds=round(dt, 1),
        lock_graph=dict(server_edges=gen['edges'], cycles=gen.get('cycles', []), model_parameter_prefix_order=gen['prefix_order'],
                        generator_cmd=panellib.LOCKSCAN_CMD),
        code_has_F5_repair=go['cfg'].get('patched') == '1', f5_real_dispatcher=f5)
    return res


def search(ctx, verdict, problems):
    """A proof obligation (e.g. a generated atomicity obligation) or the correspondence broke and the seeded
    scenarios showed no property failure: look for one among overlapped calls, densely - the exhaustive
    families of overlap.py and many more seeded compositions, judged by the two model-independent oracles
    (nothing blocks forever; every live session of a limited user is reachable from its one record)."""
    rng = ctx.rng
    cases = overlap.cases(rng, 400 if ctx.quick() else 4000)
    rc, log, go, dt = run_cases(ctx, cases, 'search', with_real=False)
    found = []
    for cid, users, steps, kind in cases:
        io = go['obs'].get(cid)
        if io is None:
            continue
        obj = dict(case=dict(id=cid, users=users, steps=steps), implementation=io, sessions=go['ses'].get(cid),
                   schedule=overlap.describe(steps), no_longer_checks=[p[0] for p in problems][:6],
                   how='python3 tools/check.py C17 --replay <this file>')
        if cid in go['blocked']:
            dump = ''
            if cid in go['hang'] and os.path.exists(go['hang'][cid]):
                dump = lock_waiters(open(go['hang'][cid]).read())
            found.append((len(steps), 'deadlock:threads-%s-wait-forever' % '-'.join(map(str, go['blocked'][cid])),
                          'C17 oracle (search): after everything that was held has been released, %d started calls never return: they wait for locks for ever (threads %s of scenario %s)' % (
                              len(go['blocked'][cid]), ','.join(map(str, go['blocked'][cid])), cid),
                          dict(obj, blocked_threads=go['blocked'][cid], goroutines=dump)))
        lost, when = lost_sessions(go, cid)
        for k in lost[:1]:
            # both known faces of F5 need a termination (CloseSession of a last session / TERMINATE) before the
            # loss; without one it is something else
            upto = steps if not go.get('orphat', {}).get(cid) else steps[:go['orphat'][cid][0][0] + 1]
            sig = 'session-lost:overlapped-calls' if not any(st[0] in 'CMR' for st in upto) else classify(cid, k, go['ses'].get(cid, []), True)
            found.append((len(steps), sig, 'C17 oracle (search): live session %d of scenario %s is not reachable from userPanel.activeUsers at the quiescent moment %s' % (k, cid, when),
                          dict(obj, unreachable_sessions=lost, quiescent_moment=when)))
        for sig, msg in overlap.one_record_per_user(users, go['ses'].get(cid, []), go['orph'].get(cid, [])):
            found.append((len(steps), sig + ':' + kind, 'C17 oracle (search): ' + msg, obj))
    new = False
    for _, sig, what, obj in sorted(found, key=lambda x: x[0])[:40]:
        if new:
            break
        known = any(f.get('status', 'open') == 'open' and re.fullmatch(f['signature'], sig) for f in vlib.known_findings(ctx.pid))
        key = sig.split(':')[0]
        if not known and key in ('session-lost', 'two-records-for-one-user', 'two-valves-for-one-user', 'deadlock'):
            obj = shrink_case(ctx, obj, key)
            obj['schedule'] = overlap.describe(obj['case']['steps'])
        if verdict.oracle_failure(sig, what, obj) == 'new':
            new = True
    ctx.notes.append('search over %d overlapped scenarios: %d oracle failures' % (len(cases), len(found)))
    return new


def replay(ctx, verdict):
    r = ctx.replay
    case = r.get('case')
    if case == '!f5real':
        rc, log, out, dt = panellib.run_go(ctx, ['!f5real'], 'replay')
        go = panellib.parse_go(out)
        print('real dispatcher replay:', go.get('f5real'))
        return 1 if (go.get('f5real') or {}).get('orphan') == '1' else 0
    if not isinstance(case, dict):
        print(json.dumps(r, indent=1)[:4000]); return 0
    gen = panellib.check_generated_obligations(ctx)
    rc, log, go, dt = run_cases(ctx, [(case['id'], case['users'], case['steps'], 'replay')], 'replay', with_real=False)
    mrc, merr, model = panellib.run_model(ctx, panellib.model_lines(go, gen['prefix_order']), 'replay')
    cid = case['id']
    print('scenario:      ', case['users'], ' '.join(case['steps']))
    print('implementation:', go['obs'].get(cid)); print('model:         ', model.get(cid))
    bad = 0
    if cid in go['blocked']:
        print('oracle: threads', go['blocked'][cid], 'blocked forever; goroutine dump:', go['hang'].get(cid)); bad = 1
    lost, when = lost_sessions(go, cid)
    if lost:
        print('oracle: live sessions', lost, 'unreachable from the panel', when); bad = 1
    for sig, msg in overlap.one_record_per_user(case['users'], go['ses'].get(cid, []), go['orph'].get(cid, [])):
        print('oracle:', sig, msg); bad = 1
    print('sessions (k, uid, closed, bornDead, rx, tx, notice, valve#, record#):', go['ses'].get(cid))
    for ln in overlap.describe(case['steps']):
        print('   ', ln)
    return bad


MANIFEST = dict(
    technique='Coq proofs by invariant over all interleavings of a labelled transition system (global lock order; structural and ownership invariants); lock graph and guarded-by sets generated from the Go source by an AST walker and re-proved acyclic / consistent with the model on every run; lock-step trace conformance of the model against the real panel (goroutine-state observation), deterministic replays at the two schedule points',
    level_text='C17_deadlock_free is proved for every reachable state of any number of threads (no bound) of the model with the current lock order; C17_refuted_prefix_deadlock exhibits the deadlock of the pre-1937ea8 order; the generated lock graph of internal/server and internal/multiplex is proved acyclic and consistent with the model\'s order on every run, as are the guarded-by sets of ActiveUser.sessions / usageUpdateQueue / activeUsers. C17_ownership is FALSE of the code as it is (C17_refuted_orphan, finding F5, reproduced through the real dispatchConnection) and is proved for the model of the proposed repair (C17_ownership_patched); C17_ownership_partial states what holds now.',
    level_note='Trusted: Coq kernel; the hand model and its stated reductions; lockscan; the lock-step harness. RWMutex writer preference is not modelled (argument given in Proofs/PanelLocks.v).',
    design_ref='DESIGN.md section 6, C17; section 7 F4 (fixed), F5 (open)')
