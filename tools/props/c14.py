"""C14 - datagram (UDP) mode preserves message boundaries and stream isolation."""
import os, json, re, collections
import vlib

PROP_FILES = ['Properties/C14']
EXTRA_OBLIGATION_FILES = ['Proofs/AtomMux', 'Proofs/AtomClient']
TRUSTED = [
    'atomic steps of the hand-written model as GENERATED obligations (Proofs/AtomMux.v + Proofs/AtomClient.v, re-proved on every run about coq/Gen/Atomicity.v; in a private re-generated copy under VERIF_EXTRA_OVERLAY): tools/lockscan (go/ast, syntactic types) is trusted to list, per function of internal/{server,multiplex,common,client}, every field access / call / sync/atomic operation with the critical sections (Lock..Unlock / RLock..RUnlock / deferred unlock, mutex identity by name) it lies in, every sync.Pool.Put with the later mentions of the object, and every variable a go statement shares with its spawner (anything it cannot resolve is in atomicity_errors, which must be empty); it does not follow calls (a region is what one function writes between Lock and Unlock), does no alias analysis, treats callbacks as running with no lock held, and counts call sites, not executions (a loop around one call site is invisible); send-lock discipline (AtomMux: no mutex possibly held across the blocking conn.Write is acquired on the path from switchboard.deplex): the scanner supplies the in-package call graph over functions and their bool specialisations (interface receivers resolved to every in-package implementer; deferred calls, callbacks and function values count as calls, go statements do not; cross-package calls are not edges) and, per call, the locks possibly held - reachability to the conn.Write call and from deplex is computed inside Coq',
    'Coq 8.16.1 kernel incl. vm_compute (no native_compute); all C14_* theorems: Closed under the global context',
    'hand-written model coq/Model/Datagram.v of datagramBufferedPipe.Read/Write/Close (bytes.Buffer as a list, pLens as a list of nat), of the unordered branch of Stream.Write and of the table logic of Session.recvDataFromRemote / closeStream / closeSession',
    'correspondence: in-package Go drivers harness/multiplex/c14_test.go (real datagramBufferedPipe, white box) and c14_sess_test.go (real unordered Session pair over harness-owned in-memory conns, all 4 encryption methods) vs extracted OCaml model (ExtrOcamlBasic only), ocaml/c14_driver.ml',
    'blocking (sync.Cond), read deadlines and the 2^31-1 buffer limit are not exercised: a read that would block is reported as "empty" after inspecting the pipe under its lock; WrWouldBlock exists in the model only',
    'the cipher/obfuscation layer is used as is (C04/C11 cover it); which connection a frame travels on is read off the harness network and fed to the model as input',
    'relay level: client.RouteUDP (harness/client/c14_udp_test.go) and the server relay serveSession with a "udp" ProxyBook entry (harness/server/c14_udp_test.go) are driven through real loopback UDP sockets against a real unordered Session pair; the relay buffer sizes are literals in the source, modelled as relay_buf (65535) / Stream.ReadFrom reading maxStreamUnitWrite bytes and measured by the drivers; Linux semantics of recvfrom into a short buffer (silent truncation) is assumed by the model and observed by the drivers',
]
ASSUMPTIONS = ['healthy session / open stream for the exactly-once half (the at-most-once half and the boundary theorems are unconditional)',
               'total buffered bytes below recvBufferSizeLimit = 2^31-1 for "every write is accepted" (otherwise the write blocks)',
               'stream ids opened locally are fresh (OpenStream hands them out from an atomic counter)']

LIMIT = 16401


def hx(b):
    return b.hex() if b else '-'


def unhx(s):
    return b'' if s == '-' else bytes.fromhex(s)


# ------------------------------------------------------------------------------------------
# part A: op sequences on the pipe
def pipe_oracle(evs, toks):
    """Model-independent reference of what the property demands of one pipe.  evs: list of event
    strings; toks: the implementation's observations.  Returns None or a message."""
    q = []
    closed = False
    if len(toks) != len(evs) + 1:
        return 'expected %d observations, got %d' % (len(evs) + 1, len(toks))
    for i, (ev, tok) in enumerate(zip(evs, toks)):
        p = ev.split(':')
        if p[0] == 'W':
            if closed:
                exp = 'wP'
            elif p[1] == '1':
                exp = 'wC'; closed = True
            else:
                exp = 'wS'; q.append(unhx(p[2]))
        elif p[0] == 'R':
            k = int(p[1])
            if q:
                if k < len(q[0]):
                    exp = 'rS'     # reported, neither consumed nor truncated
                else:
                    exp = 'r:' + hx(q.pop(0))
            else:
                exp = 'rF' if closed else 'rE'
        else:
            closed = True; exp = 'c'
        if tok != exp:
            return 'op #%d %s: implementation %s, property demands %s (pending datagrams before the op: %s)' % (
                i, ev[:60], tok[:60], exp[:60], [len(x) for x in q][:8])
    exp = 'i:%d:%d:%d' % (len(q), sum(len(x) for x in q), 1 if closed else 0)
    if toks[-1] != exp:
        return 'final bookkeeping %s, expected %s' % (toks[-1], exp)
    return None


def gen_pipe_cases(ctx):
    rng = ctx.rng
    cases = []
    fixed = [
        ['W:0:010203', 'R:2', 'R:3', 'R:3'],                                  # short read then full read
        ['W:0:0102', 'W:0:03', 'R:1', 'R:1', 'R:2', 'R:1', 'R:1'],
        ['W:0:-', 'R:0', 'R:0'],                                              # empty datagram, empty buffer
        ['W:0:01', 'W:0:0203', 'W:1:ff', 'R:9', 'R:1', 'R:9', 'R:9', 'W:0:05', 'R:9'],   # closing keeps pending
        ['C', 'W:0:01', 'R:1'],
        ['W:0:01', 'C', 'R:0', 'R:1', 'R:1', 'W:1:00'],
    ]
    for i, evs in enumerate(fixed):
        cases.append(('pf%d' % i, evs, dict(kind='pipe/fixed')))
    nseq = 2000 if ctx.quick() else 30000
    for k in range(nseq):
        B = rng.choice([1, 2, 3, 4, 8, 16, 64, 200])
        n = rng.randrange(6, 45)
        evs = []
        tag = 0
        closing_at = rng.randrange(n) if rng.random() < 0.3 else None
        for j in range(n):
            r = rng.random()
            if closing_at == j:
                evs.append(rng.choice(['W:1:%s' % hx(bytes([7] * rng.randrange(1, 5))), 'C']))
            elif r < 0.5:
                ln = rng.choice([1, B - 1, B, B + 1, B, rng.randrange(0, 2 * B + 2), 0 if rng.random() < 0.2 else 1])
                ln = max(0, ln)
                tag += 1
                evs.append('W:0:' + hx(bytes([(tag * 29 + t * 3 + k) % 256 for t in range(ln)])))
            else:
                kk = rng.choice([B, B, B, B - 1, B + 1, 0, 1, 2 * B + 5, 100000 if rng.random() < 0.1 else B])
                evs.append('R:%d' % max(0, kk))
        # drain
        for _ in range(rng.randrange(0, 4)):
            evs.append('R:%d' % (2 * B + 5))
        cases.append(('p%d' % k, evs, dict(kind='pipe/seeded', B=B)))
    return cases


def pipe_line(cid, evs):
    return '%s P %s' % (cid, ' '.join(evs))


# ------------------------------------------------------------------------------------------
# part B: session scenarios
def payload(tag, n):
    return bytes([(tag * 131 + i * 7 + (i >> 8) * 13 + 1) % 256 for i in range(n)])


def gen_sess_cases(ctx):
    rng = ctx.rng
    cases = []
    nscn = 100 if ctx.quick() else 700
    maxu = LIMIT - 14 - 255
    for i in range(nscn):
        method = i % 4
        nconn = rng.randrange(1, 5)
        nstreams = rng.randrange(2, 5)
        kind = 'clean' if rng.random() < 0.7 else 'close'
        steps = []
        tag = 0
        nsteps = rng.randrange(15, 45)
        big = 0
        last_len = 5
        close_at = rng.randrange(5, nsteps) if kind == 'close' else None
        specials = []
        if i % 3 == 0:
            specials = [maxu, maxu + 1]
        elif i % 3 == 1:
            specials = [maxu - 1, 0]
        for j in range(nsteps):
            r = rng.random()
            if close_at == j:
                if rng.random() < 0.7:
                    steps.append('x:%s:%d' % (rng.choice('cs'), rng.randrange(1, nstreams + 1)))
                else:
                    steps.append('k:%s' % rng.choice('cs'))
                continue
            if r < 0.55:
                side = 'c' if rng.random() < 0.7 else 's'
                sid = rng.randrange(1, nstreams + 1)
                if specials and rng.random() < 0.15:
                    ln = specials.pop(0)
                else:
                    ln = rng.choice([1, 2, 3, 17, 100, rng.randrange(1, 400), 1400 if big < 2 else 9, 1500 if big < 2 else 5])
                    if ln >= 1400:
                        big += 1
                tag += 1
                last_len = ln
                steps.append('w:%s:%d:%d:%d' % (side, sid, ln, tag % 256))
            elif r < 0.82:
                steps.append('d:%s:%d' % (rng.choice('sssc'), rng.randrange(nconn)))
            else:
                k = rng.choice([0, 1, max(0, last_len - 1), last_len, last_len + 1, 20000, 20000])
                steps.append('r:%s:%d:%d' % (rng.choice('sssc'), rng.randrange(1, nstreams + 1), k))
        for ln in specials:
            tag += 1
            steps.append('w:c:%d:%d:%d' % (rng.randrange(1, nstreams + 1), ln, tag % 256))
        steps.append('f:%d' % rng.randrange(1 << 20))
        for side in 'cs':
            for sid in range(1, nstreams + 1):
                steps.append('D:%s:%d' % (side, sid))
        cases.append(('n%d' % i, steps, dict(kind='sess/' + kind, method=method, nconn=nconn, nstreams=nstreams)))
    return cases


def sess_line(cid, steps, meta):
    return '%s N %d %d %d %d %s' % (cid, meta['method'], meta['nconn'], meta['nstreams'], LIMIT, ' '.join(steps))


def sess_analyse(cid, steps, meta, go_out):
    """From the implementation's observations of one scenario build: the per-side model cases with
    the observations expected of them, the Stream.Write model cases, and the oracle verdict."""
    toks = go_out.split()
    res = dict(model=[], oracle=None, stats=collections.Counter())
    if not toks or not toks[0].startswith('u:'):
        res['oracle'] = 'driver produced no output for the scenario'
        return res
    maxu = int(toks[0][2:])
    nstep = len(steps)
    step_toks = toks[1:1 + nstep]
    etoks = toks[1 + nstep:]
    if len(step_toks) != nstep:
        res['oracle'] = 'driver stopped after %d of %d steps' % (len(step_toks), nstep)
        return res
    msgs = {}          # msg id -> (to_side, sid, closing, payload)
    accepted = collections.defaultdict(list)   # (receiver side, sid) -> payloads accepted by Write on the sender
    got = collections.defaultdict(list)        # (side, sid) -> payloads returned by reads
    mev = {'c': [], 's': []}                   # model events per side
    mexp = {'c': [], 's': []}                  # expected model observations per side
    ucases = []
    other = {'c': 's', 's': 'c'}
    problems = []

    def on_delivery(d):
        if d == '-':
            return
        mid, side, nacc, err = d.split('.', 3)
        side = 'cs'[int(side)]
        if int(mid) not in msgs:
            # a message on the wire that no single accepted Write accounts for (one Write produced
            # several frames): reported by the oracle, not fed to the per-side model
            problems.append('message %s reached side %s although no Write produced it as its one frame' % (mid, side))
            return
        _, sid, closing, pl = msgs[int(mid)]
        mev[side].append('V:%d:%d:%s' % (sid, closing, hx(pl) if closing == 0 else '-'))
        mexp[side].append('v%s%s' % (nacc, '1' if err == 'brokensess' else '0'))
        if err == 'timeout':
            problems.append('delivery of message %s was not processed within 30 s' % mid)

    def on_read(side, sid, k, tok):
        mev[side].append('R:%d:%d' % (sid, k))
        mexp[side].append(tok)
        res['stats']['read/' + tok[:2]] += 1
        if tok.startswith('r:'):
            x = unhx(tok[2:])
            got[(side, sid)].append(x)
            if len(x) > k:
                problems.append('read on %s/%d with a %d-byte buffer returned %d bytes' % (side, sid, k, len(x)))
        elif tok.startswith('r?'):
            problems.append('read on %s/%d returned %s' % (side, sid, tok))

    for st, tok in zip(steps, step_toks):
        p = st.split(':')
        if p[0] == 'w':
            side, sid, ln, tag = p[1], int(p[2]), int(p[3]), int(p[4])
            if tok == 'w:nostream':
                res['stats']['write/nostream'] += 1
                continue
            _, n, err, nmsg, conn, closed_before, mid = tok.split(':')
            n, nmsg = int(n), int(nmsg)
            ucases.append(('%d %s %d' % (LIMIT, closed_before, ln), '%d %s %d' % (n, err if err in ('nil', 'short', 'broken') else 'other', nmsg)))
            res['stats']['write/%s' % err] += 1
            # property: oversize refused with nothing on the wire; a fitting datagram = one frame
            if closed_before == '0':
                if ln > maxu and not (n == 0 and err == 'short' and nmsg == 0):
                    problems.append('oversize write of %d bytes (max %d) on %s/%d: n=%d err=%s messages=%d - must be refused with nothing sent' % (ln, maxu, side, sid, n, err, nmsg))
                if 0 < ln <= maxu and not (n == ln and err == 'nil' and nmsg == 1):
                    problems.append('write of %d bytes (max %d) on %s/%d: n=%d err=%s messages=%d - must go out as one frame' % (ln, maxu, side, sid, n, err, nmsg))
            if nmsg > 1:
                problems.append('one Stream.Write put %d messages on the wire' % nmsg)
            if nmsg >= 1:
                msgs[int(mid)] = (other[side], sid, 0, payload(tag, ln))
                if err == 'nil' and n == ln:
                    accepted[(other[side], sid)].append(payload(tag, ln))
        elif p[0] == 'd':
            on_delivery(tok[2:])
        elif p[0] == 'f':
            for d in tok[2:].split(','):
                on_delivery(d)
        elif p[0] == 'r':
            side, sid, k = p[1], int(p[2]), int(p[3])
            on_read(side, sid, k, tok)
        elif p[0] == 'D':
            side, sid = p[1], int(p[2])
            if tok == 'DN':
                mev[side].append('R:%d:20000' % sid); mexp[side].append('rN')
                continue
            for t in tok[1:].split(','):
                on_read(side, sid, 20000, t)
        elif p[0] == 'x':
            side, sid = p[1], int(p[2])
            if tok == 'x:nostream':
                mev[side].append('X:%d' % sid); mexp[side].append('x')
                continue
            _, err, nmsg, mid = tok.split(':')
            mev[side].append('X:%d' % sid); mexp[side].append('x')
            if int(nmsg) >= 1:
                msgs[int(mid)] = (other[side], sid, 1, b'')
            res['stats']['close/stream'] += 1
        elif p[0] == 'k':
            side = p[1]
            _, err, nmsg, mid = tok.split(':')
            # Session.Close runs closeSession, the same function a received closingSession frame runs
            mev[side].append('V:4294967295:2:-'); mexp[side].append('v01' if err == 'repeatsessclose' else 'v00')
            if int(nmsg) >= 1:
                msgs[int(mid)] = (other[side], 0xffffffff, 2, b'')
            res['stats']['close/session'] += 1
    # oracle: at most once, whole, unmixed - per stream and direction
    for key, xs in got.items():
        left = collections.Counter(accepted.get(key, []))
        for x in xs:
            if left[x] <= 0:
                src = [k2 for k2, v in accepted.items() if x in v]
                problems.append('stream %s/%d returned a %d-byte message (%s...) that was %s' % (
                    key[0], key[1], len(x), x[:8].hex(),
                    'already delivered once' if x in accepted.get(key, []) else
                    ('written on another stream %s' % src if src else 'never written as one datagram (merged, split or truncated)')))
            left[x] -= 1
    # exactly once while the stream stays open and the session healthy (clean scenarios end with a
    # full flush and a drain of every stream)
    if meta['kind'] == 'sess/clean':
        for key, xs in accepted.items():
            if collections.Counter(xs) != collections.Counter(got.get(key, [])):
                miss = collections.Counter(xs) - collections.Counter(got.get(key, []))
                problems.append('stream %s/%d: %d accepted datagram(s) never delivered (lengths %s)' % (
                    key[0], key[1], sum(miss.values()), sorted(len(x) for x in miss.elements())[:6]))
    for side in 'cs':
        ids = ','.join(str(i) for i in range(1, meta['nstreams'] + 1)) if side == 'c' else '-'
        exp = list(mexp[side]) + [re.sub(r'^e:[cs]:', 'e:', t) for t in etoks if t.startswith('e:%s:' % side)]
        res['model'].append(('%s.%s' % (cid, side), '%s.%s S %s %s' % (cid, side, ids, ' '.join(mev[side])), ' '.join(exp)))
    for j, (inp, exp) in enumerate(ucases):
        res['model'].append(('%s.u%d' % (cid, j), '%s.u%d U %s' % (cid, j, inp), exp))
    if problems:
        res['oracle'] = '; '.join(problems[:3])
    return res


# ------------------------------------------------------------------------------------------
def run_go(ctx, lines, tag):
    inp = '%s/%s.in' % (ctx.work, tag)
    out = '%s/%s.go.out' % (ctx.work, tag)
    open(inp, 'w').write('\n'.join(lines) + '\n')
    if os.path.exists(out):
        os.remove(out)
    rc, log, dt = vlib.go_test(ctx, 'multiplex', 'TestVerifC14', files=['c14_test.go', 'c14_sess_test.go'],
                               env=dict(VERIF_IN=inp, VERIF_OUT=out), timeout=600)
    return rc, log, vlib.read_lines_by_id(out)


def run_model(ctx, lines, tag):
    inp = '%s/%s.model.in' % (ctx.work, tag)
    out = '%s/%s.model.out' % (ctx.work, tag)
    open(inp, 'w').write('\n'.join(lines) + '\n')
    rc, err = vlib.run_model('c14', inp, out)
    return rc, err, vlib.read_lines_by_id(out)


def model_u_proj(s):
    # "<n> <err> <nframes> <eq>" -> first three fields
    return ' '.join(s.split()[:3])


def evaluate(ctx, cases, tag):
    """cases: list of (id, kind 'P'|'N', evs/steps, meta).  Runs implementation + model + oracle.
    Returns dict id -> dict(go=..., oracle=msg|None, mismatch=(what, impl, model)|None), plus run status."""
    lines = [pipe_line(c[0], c[2]) if c[1] == 'P' else sess_line(c[0], c[2], c[3]) for c in cases]
    rc, log, impl = run_go(ctx, lines, tag)
    mlines, expect = [], {}
    out = {}
    stats = collections.Counter()
    for cid, kind, evs, meta in cases:
        r = dict(go=impl.get(cid), oracle=None, mismatch=None, line=pipe_line(cid, evs) if kind == 'P' else sess_line(cid, evs, meta))
        out[cid] = r
        if r['go'] is None:
            continue
        if kind == 'P':
            r['oracle'] = pipe_oracle(evs, r['go'].split())
            mlines.append(r['line']); expect[cid] = (cid, r['go'])
            for t in r['go'].split():
                stats['pipe/' + t[:2]] += 1
        else:
            a = sess_analyse(cid, evs, meta, r['go'])
            r['oracle'] = a['oracle']
            stats.update({'sess/' + k: v for k, v in a['stats'].items()})
            for mid, mline, exp in a['model']:
                mlines.append(mline); expect[mid] = (cid, exp)
    mrc, merr, model = run_model(ctx, mlines, tag)
    for mid, (cid, exp) in expect.items():
        mo = model.get(mid)
        if mo is None:
            continue
        if '.u' in mid:
            mo = model_u_proj(mo)
        if mo != exp and out[cid]['mismatch'] is None:
            out[cid]['mismatch'] = (mid, exp, mo)
    return dict(rc=rc, log=log, mrc=mrc, merr=merr, res=out, stats=stats, nmodel=len(model))


def fails(r):
    return r['go'] is not None and (r['oracle'] is not None or r['mismatch'] is not None)


def shrink(ctx, case, want_oracle, budget_s=25):
    """Greedy batch shrinking: all one-element deletions are run in one go test invocation."""
    import time
    t0 = time.time()
    cid, kind, evs, meta = case
    evs = list(evs)
    keep_tail = 0
    if kind == 'N':
        # keep the final flush + drains so that the exactly-once oracle stays meaningful
        while keep_tail < len(evs) and evs[len(evs) - 1 - keep_tail][0] in 'Df':
            keep_tail += 1
    pred = (lambda r: r['go'] is not None and r['oracle'] is not None) if want_oracle else fails
    for rnd in range(14):
        n = len(evs) - keep_tail
        if n <= 1 or time.time() - t0 > budget_s:
            break
        cands = []
        # halves first, then single deletions
        for lo, hi in [(0, n // 2), (n // 2, n)] + [(i, i + 1) for i in range(n)]:
            cands.append(evs[:lo] + evs[hi:])
        cs = [('%s_%d_%d' % (cid, rnd, j), kind, c, meta) for j, c in enumerate(cands)]
        ev = evaluate(ctx, cs, 'shrink')
        good = [c for c in cs if pred(ev['res'][c[0]])]
        if not good:
            break
        evs = min(good, key=lambda c: len(c[2]))[2]
    return (cid, kind, evs, meta)


def correspondence(ctx, verdict, pr):
    res = dict(broken=[])
    cases = []
    cdir = vlib.V + '/corpus/C14'
    if os.path.isdir(cdir):
        for fn in sorted(os.listdir(cdir)):
            c = json.load(open(os.path.join(cdir, fn)))
            cases.append((c['id'], c['kind'], c['evs'], c['meta']))
    ncorpus = len(cases)
    cases += [(cid, 'P', evs, meta) for cid, evs, meta in gen_pipe_cases(ctx)]
    cases += [(cid, 'N', evs, meta) for cid, evs, meta in gen_sess_cases(ctx)]
    ev = evaluate(ctx, cases, 'cases')
    if ev['rc'] != 0:
        res['broken'].append(('Go driver TestVerifC14 failed to build or run', ev['log'][-3000:]))
    if ev['mrc'] != 0:
        res['broken'].append(('extracted model c14 failed', ev['merr'][-2000:]))
    byid = {c[0]: c for c in cases}
    orc = [cid for cid, r in ev['res'].items() if r['go'] is not None and r['oracle']]
    mism = [cid for cid, r in ev['res'].items() if r['mismatch']]
    missing = [cid for cid, r in ev['res'].items() if r['go'] is None]
    if missing and ev['rc'] == 0:
        res['broken'].append(('Go driver produced no output for %d cases' % len(missing), ' '.join(missing[:10])))
    # oracle failures: shrink the smallest few, report
    reported = 0
    for cid in sorted(orc, key=lambda c: (byid[c][1] != 'P', len(byid[c][2])))[:2]:
        small = shrink(ctx, byid[cid], True) if reported == 0 else byid[cid]
        ev2 = evaluate(ctx, [small], 'shrunk')
        r = ev2['res'][small[0]]
        if not (r['go'] is not None and r['oracle']):
            small = byid[cid]; r = ev['res'][cid]
        kind = small[1]
        sig = ('pipe:' if kind == 'P' else 'session:') + re.sub(r'\d+', 'N', r['oracle'])[:80]
        verdict.oracle_failure(sig, 'C14 oracle (%s): %s' % ('datagramBufferedPipe' if kind == 'P' else 'unordered session pair', r['oracle']),
                               dict(case=r['line'], kind=kind, evs=small[2], meta=small[3], implementation=r['go'],
                                    model_mismatch=r['mismatch'],
                                    how='python3 tools/check.py C14 --replay <this file>  (runs the line through TestVerifC14 with go test -overlay and through ocaml/bin/c14)'))
        reported += 1
    if mism and ev['rc'] == 0 and ev['mrc'] == 0:
        cid = min(mism, key=lambda c: len(ev['res'][c]['line']))
        small = shrink(ctx, byid[cid], False) if not orc else byid[cid]
        ev2 = evaluate(ctx, [small], 'shrunkm')
        r = ev2['res'][small[0]]
        if not r['mismatch']:
            r = ev['res'][cid]
        res['broken'].append(('model Datagram.v vs implementation: %d of %d cases differ' % (len(mism), len(cases)),
                              'smallest differing case: %s\nmodel case %s\nimplementation: %s\nmodel:          %s' % (
                                  r['line'][:2000], r['mismatch'][0], r['mismatch'][1][:1500], r['mismatch'][2][:1500])))
    kinds = [c[3]['kind'] for c in cases]
    distinct = set()
    for cid, kind, evs, meta in cases:
        g = ev['res'][cid]['go']
        if g is None:
            continue
        nontrivial = (any(e[0] == 'W' for e in evs) and any(e[0] == 'R' for e in evs)) if kind == 'P' else ('r:' in g)
        if nontrivial:
            distinct.add((kind, tuple(evs), json.dumps(meta, sort_keys=True)))
    sample = lambda c: (pipe_line(c[0], c[2]) if c[1] == 'P' else sess_line(c[0], c[2], c[3]))[:500]
    nP = sum(1 for c in cases if c[1] == 'P'); nN = len(cases) - nP
    verdict.cov.update(
        evaluations=len(cases), distinct_nontrivial=len(distinct),
        rule='pipe: %d seeded op sequences (writes of sizes 0, 1, B-1, B, B+1, random <= 2B+1 for reader buffer B in {1,2,3,4,8,16,64,200}; reads with k in {0,1,B-1,B,B+1,2B+5,100000}; closing frame / Close at a random point in 30%%) + 6 fixed; '
             'session: %d scenarios on a real unordered Session pair (encryption method i mod 4, 1-4 conns, 2-4 streams, both directions, per-conn FIFO with scenario-chosen cross-connection order, sizes incl. maxStreamUnitWrite-1/+0/+1 and 0, short reads, 30%% with Stream.Close / Session.Close). '
             'non-trivial = pipe sequence with at least one write and one read / scenario in which at least one datagram was read; distinct = distinct op lists' % (nP, nN),
        samples=[sample(cases[ncorpus]), sample(cases[ncorpus + 7]), sample(cases[-1])],
        traces_validated_against_impl=ev['nmodel'], pipe_ops=sum(len(c[2]) for c in cases if c[1] == 'P'),
        session_steps=sum(len(c[2]) for c in cases if c[1] == 'N'),
        mismatches=len(mism), oracle_failures=len(orc),
        input_distribution=dict(case_kinds=vlib.summarize_dist(kinds), observations=dict(sorted(ev['stats'].items()))),
        corpus_cases=ncorpus, exhaustive=False)
    relay_part(ctx, verdict, res)
    return res


RELAY_SIZES = [1, 100, 8191, 8192, 8193, 9000, 16132, 16133]
SRV_RELAY_SIZES = [1, 100, 8193, 16131, 16132, 16133, 20000]


def relay_part(ctx, verdict, res):
    """Relay level (design finding F15).  Property at the relays: a datagram that fits one frame arrives
    whole in both directions; a larger one is refused at the sender, never forwarded cut."""
    client_relay(ctx, verdict, res)
    server_relay(ctx, verdict, res)


def client_relay(ctx, verdict, res):
    """client.RouteUDP on a loopback UDP socket against a real unordered Session pair"""
    inp = '%s/udp.in' % ctx.work
    out = '%s/udp.go.out' % ctx.work
    open(inp, 'w').write('u0 UDP %s\n' % ' '.join(map(str, RELAY_SIZES)))
    if os.path.exists(out):
        os.remove(out)
    rc, log, dt = vlib.go_test(ctx, 'client', 'TestVerifC14UDP', files=['c14_udp_test.go'],
                               env=dict(VERIF_IN=inp, VERIF_OUT=out), timeout=300)
    impl = vlib.read_lines_by_id(out).get('u0')
    if rc != 0 or not impl:
        res['broken'].append(('Go driver TestVerifC14UDP (client.RouteUDP on loopback UDP) failed to build or run', log[-3000:]))
        return
    toks = impl.split()
    maxu = int(toks[0].split(':')[1])
    ups = [t.split(':') for t in toks if t.startswith('up:')]
    downs = [t.split(':') for t in toks if t.startswith('down:')]
    # model: what goes into the stream / to the application for a datagram of each size
    mlines, expect = [], {}
    for i, u in enumerate(ups):
        mlines.append('q%d Q %d %s' % (i, LIMIT, u[1]))
        expect['q%d' % i] = ('uplink', u[1], '%s:%s:%s' % (u[2], u[3], u[4]) if u[2].isdigit() else 'none:0:0')
    for i, d in enumerate(downs):
        if d[2] == 'writeerr':      # the peer's own Stream.Write refused it: not the relay's business
            continue
        mlines.append('qd%d QD %d %s' % (i, LIMIT, d[1]))
        expect['qd%d' % i] = ('downlink', d[1], '%s:%s:%s' % (d[2], d[3], d[3]) if d[2].isdigit() else 'none:0:0')
    mrc, merr, model = run_model(ctx, mlines, 'udp')
    if mrc != 0:
        res['broken'].append(('extracted model c14 failed on the relay cases', merr[-2000:]))
    diffs = []
    for mid, (what, size, got) in expect.items():
        mo = model.get(mid)
        if mo is not None and mo.split(':')[:2] != got.split(':')[:2]:
            diffs.append('%s datagram of %s bytes: implementation %s, model %s' % (what, size, got, mo))
    if diffs:
        res['broken'].append(('model relay_up / relay_down (relay_buf = 65535) vs client.RouteUDP', '\n'.join(diffs)))
    verdict.cov['relay_observations_client'] = impl
    verdict.cov['traces_validated_against_impl'] = verdict.cov.get('traces_validated_against_impl', 0) + len(model)
    replay = dict(kind='UDP', sizes=RELAY_SIZES, implementation=impl, evs=None,
                  how='python3 tools/check.py C14 --replay <this file>   (or: VERIF_IN=<file with "u0 UDP <size>"> VERIF_OUT=<out> go test -overlay ... -run TestVerifC14UDP ./internal/client/)')
    for u in ups:
        size = int(u[1])
        if size <= maxu and u[3] != '1':
            verdict.oracle_failure('relay:uplink-truncated',
                                   'client.RouteUDP uplink: a %d-byte datagram (fits one frame, max %d) reached the peer stream as %s bytes%s' % (
                                       size, maxu, u[2], ' (a prefix of it)' if u[4] == '1' else ''), dict(replay, size=size, case='u0 UDP %d' % size))
            break
    for u in ups:
        size = int(u[1])
        if size > maxu and u[2].isdigit():
            verdict.oracle_failure('relay:oversize-forwarded-truncated',
                                   'client.RouteUDP uplink: a %d-byte datagram (larger than one frame, max %d) was not refused but forwarded as %s bytes' % (size, maxu, u[2]),
                                   dict(replay, size=size, case='u0 UDP %d' % size))
            break
    for d in downs:
        size = int(d[1])
        if size <= maxu and d[3] != '1':
            verdict.oracle_failure('relay:downlink-dropped',
                                   'client.RouteUDP downlink: a %d-byte datagram written by the peer (fits one frame, max %d) reached the application socket as: %s' % (size, maxu, d[2]),
                                   dict(replay, size=size, case='u0 UDP %d' % size))
            break


def server_relay(ctx, verdict, res):
    """serveSession with a "udp" ProxyBook entry: the proxy server is a loopback UDP socket"""
    inp = '%s/sudp.in' % ctx.work
    out = '%s/sudp.go.out' % ctx.work
    open(inp, 'w').write('s0 SUDP %s\n' % ' '.join(map(str, SRV_RELAY_SIZES)))
    if os.path.exists(out):
        os.remove(out)
    rc, log, dt = vlib.go_test(ctx, 'server', 'TestVerifC14SrvUDP', files=['c14_udp_test.go'],
                               env=dict(VERIF_IN=inp, VERIF_OUT=out), timeout=300)
    impl = vlib.read_lines_by_id(out).get('s0')
    if rc != 0 or not impl:
        res['broken'].append(('Go driver TestVerifC14SrvUDP (serveSession with a udp proxy on loopback) failed to build or run', log[-3000:]))
        return
    toks = impl.split()
    maxu = int(toks[0].split(':')[1])
    ups = [t.split(':') for t in toks if t.startswith('up:')]
    downs = [t.split(':') for t in toks if t.startswith('down:')]
    mlines, expect = [], {}
    for i, d in enumerate(downs):
        mlines.append('qs%d QS %d %s' % (i, LIMIT, d[1]))
        expect['qs%d' % i] = (d[1], '%s:%s:%s' % (d[2], d[3], d[4]) if d[2].isdigit() else 'none:0:0')
    mrc, merr, model = run_model(ctx, mlines, 'sudp')
    if mrc != 0:
        res['broken'].append(('extracted model c14 failed on the server relay cases', merr[-2000:]))
    diffs = ['datagram of %s bytes from the proxy server: implementation %s, model %s' % (size, got, model[mid])
             for mid, (size, got) in expect.items() if model.get(mid) is not None and model[mid] != got]
    if diffs:
        res['broken'].append(('model stream_read_from_dgram vs serveSession / Stream.ReadFrom on a UDP socket', '\n'.join(diffs)))
    verdict.cov['relay_observations_server'] = impl
    verdict.cov['traces_validated_against_impl'] = verdict.cov.get('traces_validated_against_impl', 0) + len(model)
    replay = dict(kind='SUDP', sizes=SRV_RELAY_SIZES, implementation=impl, evs=None,
                  how='python3 tools/check.py C14 --replay <this file>   (or: VERIF_IN=<file with "s0 SUDP <size>"> VERIF_OUT=<out> go test -overlay ... -run TestVerifC14SrvUDP ./internal/server/)')
    for u in ups:
        if u[3] != '1':
            verdict.oracle_failure('relay:server-uplink-damaged',
                                   'serveSession uplink: a %s-byte datagram written on the client stream reached the proxy server as %s bytes' % (u[1], u[2]),
                                   dict(replay, size=int(u[1]), case='s0 SUDP %s' % u[1]))
            break
    for d in downs:
        size = int(d[1])
        if size <= maxu and d[3] != '1':
            verdict.oracle_failure('relay:server-downlink-damaged',
                                   'serveSession downlink: a %d-byte datagram from the proxy server (fits one frame, max %d) reached the client stream as %s bytes' % (size, maxu, d[2]),
                                   dict(replay, size=size, case='s0 SUDP %d' % size))
            break
    for d in downs:
        size = int(d[1])
        if size > maxu and d[2].isdigit():
            verdict.oracle_failure('relay:server-oversize-forwarded-truncated',
                                   'serveSession downlink: a %d-byte datagram from the proxy server (larger than one frame, max %d) was not refused but forwarded as its first %s bytes' % (size, maxu, d[2]),
                                   dict(replay, size=size, case='s0 SUDP %d' % size))
            break


def replay(ctx, verdict):
    r = ctx.replay
    if r.get('kind') in ('UDP', 'SUDP'):
        v2 = vlib.Verdict(ctx)
        res = dict(broken=[])
        (client_relay if r['kind'] == 'UDP' else server_relay)(ctx, v2, res)
        print('implementation:', v2.cov.get('relay_observations_client') or v2.cov.get('relay_observations_server'))
        print('broken:', res['broken'])
        print('oracle: known findings:', sorted(v2.known_seen.values()), ' new:', [w for _, _, w in v2.violations])
        return 1 if v2.violations else 0
    if not r.get('evs'):
        print(json.dumps(r, indent=1)[:4000]); return 0
    case = ('replay', r['kind'], r['evs'], r['meta'])
    ev = evaluate(ctx, [case], 'replay')
    x = ev['res']['replay']
    print('case:          ', x['line'][:3000])
    print('implementation:', (x['go'] or '')[:3000])
    print('model mismatch:', x['mismatch'])
    print('oracle:', x['oracle'])
    return 1 if (x['oracle'] or x['go'] is None) else 0


MANIFEST = dict(
    technique='Coq proof by representation invariant over all operation sequences of a hand-written model (pipe: writes/reads/close; session receive side: frame arrivals for any stream ids, reads, closes); model tied to the code by differential execution (extracted OCaml vs in-package Go drivers on the real datagramBufferedPipe and on a real unordered Session pair over harness-owned connections)',
    level_text='Theorems C14_boundaries, C14_read_outcomes, C14_short_read_noop, C14_all_accepted, C14_exactly_once, C14_closing, C14_oversize_refused/fitting_one_frame/never_splits, C14_isolation and C14_session_accepts are proved in Coq for every operation sequence, every datagram content and size, every read-buffer size and every interleaving of frame arrivals across streams (induction with an explicit representation invariant; no bound). The model (coq/Model/Datagram.v) is hand-written; on every run thousands of seeded op sequences are executed on the real datagramBufferedPipe and ~100 scenarios (all four encryption methods, 1-4 connections, arbitrary cross-connection delivery order) on a real unordered Session pair, every return value is compared with the extracted model, and an independent oracle checks per-stream exactly-once/whole/unmixed delivery, refusal of oversize writes and non-consuming short reads.',
    level_note='Trusted: Coq kernel; extraction (ExtrOcamlBasic); blocking/wake-up (sync.Cond), deadlines and the 2^31-1 buffer limit are not modelled beyond a would-block outcome; obfuscation and the switchboard are exercised but not modelled (the connection choice is read off the harness network). Relay level: client.RouteUDP (fixed in /repo e32244c: C14_relay_full holds, C14_refuted_prefix_relay documents the former 8192-byte buffer) and the server relay are replayed on loopback UDP; open known finding: the server relay forwards a datagram above the frame maximum cut to maxStreamUnitWrite bytes instead of refusing it (C14_server_relay_refuted / _partial).',
    design_ref='DESIGN.md section 6, C14')


# ---- concurrency windows (tools/props/winlib.py): client.RouteUDP with two local applications, one relay goroutine parked
import winlib

TRUSTED = TRUSTED + ['schedule control of the window drivers: a goroutine is parked inside a call through a seam the harness owns (for RouteUDP, which works on a concrete *net.UDPConn, the only seam between stream.Read and WriteTo is the trace line of Stream.Read caught with a logrus hook; the run is also under the race detector); "the other goroutine has returned or is blocked on a lock" is read off runtime.Stack wait states; outcomes are judged by the property predicate only']
MANIFEST = dict(MANIFEST, level_note=MANIFEST['level_note'] + ' Stream isolation at the client relay: two local UDP applications through client.RouteUDP with the relay goroutine of one parked between stream.Read and the forwarding, under the race detector (harness/client/c14_route_test.go).')
_corr_before_windows = correspondence
_replay_before_windows = replay


def correspondence(ctx, verdict, pr):
    res = _corr_before_windows(ctx, verdict, pr)
    res['broken'] += winlib.c14_windows(ctx, verdict)
    return res


def replay(ctx, verdict):
    if ctx.replay.get('kind') == 'window':
        return winlib.replay(ctx, verdict)
    return _replay_before_windows(ctx, verdict)


def search(ctx, verdict, problems):
    return winlib.search(ctx, verdict, problems)


# ---- one stream per local sender ADDRESS in client.RouteUDP (harness/client/c14_flows_test.go)
def udp_flows(ctx, verdict):
    import vlib
    inp, out = '%s/flows.in' % ctx.work, '%s/flows.out' % ctx.work
    open(inp, 'w').write('fl0 FLOWS\n')
    rc, log, dt = vlib.go_test(ctx, 'client', 'TestVerifC14Flows', files=['c14_flows_test.go'], env=dict(VERIF_IN=inp, VERIF_OUT=out), timeout=300)
    got = vlib.read_lines_by_id(out)
    if rc != 0 or 'fl0' not in got:
        return [('Go driver TestVerifC14Flows failed rc=%d' % rc, log[-3000:])]
    d = dict(x.split('=', 1) for x in got['fl0'].split())
    for k, what in (('sameport', 'two local senders with the same UDP port on different loopback addresses'), ('sameip', 'two local senders on one address with different ports')):
        if d[k] not in ('ok', 'skip'):
            verdict.oracle_failure('udp-flows-mixed', 'C14 oracle (client.RouteUDP, %s): %s - every sender address is a flow of its own: its datagrams travel on its own stream and the replies on that stream reach it and nobody else' % (what, d[k]),
                                   dict(kind='udp-flows', case='fl0 FLOWS', observed=got['fl0'], how='go test -run TestVerifC14Flows with harness/client/c14_flows_test.go'))
            break
    verdict.cov['udp_flow_cases'] = got['fl0']
    return []


_corr_before_flows = correspondence


def correspondence(ctx, verdict, pr):
    res = _corr_before_flows(ctx, verdict, pr)
    res['broken'] += udp_flows(ctx, verdict)
    return res
