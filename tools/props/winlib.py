"""Concurrency-window parts of the checks C01 C02 C05 C10 C12 C14 (schedule control through seams; see the drivers named below).

A one-call-at-a-time correspondence cannot see a window that only opens when a second goroutine
runs while the first is between two steps of one call.  The drivers used here place a goroutine
INSIDE such a window deterministically through seams the code offers to an in-package test - an
underlying net.Conn / net.Listener the harness owns, the replaceable sync.Locker of a pipe's
condition variable, a logrus hook, testing/synctest's virtual clock - let the second goroutine run
until it returns or blocks on a lock (read off runtime.Stack), release the first, and judge the
outcome with the property's own predicate.  Each function returns the list of broken
correspondences; property failures go to verdict.oracle_failure with the concrete schedule as replay.
`search_*` are the entry points check.py calls when a proof obligation (e.g. a generated atomicity
obligation of coq/Gen/Atomicity.v) or a correspondence broke and nothing had failed so far: they
rerun the windows with a larger scope / longer statistical budget.
"""
import itertools, os, re, json, time
import vlib

MAXREC = 16640


def _race_blocks(log):
    """DATA RACE reports of the Go race detector, as text blocks"""
    return re.findall(r'WARNING: DATA RACE\n(.*?)\n==================', log, re.S)


def _race_in(log, *needles):
    for b in _race_blocks(log):
        # only the two conflicting accesses, not the goroutine creation stacks
        head = b.split('\nGoroutine ')[0]
        if any(n in head for n in needles):
            return b
    return None


# ==========================================================================================
# C02: two deliverers, one parked at the pipe lock
def _hx(b):
    return b.hex() if b else '-'


def c02_case(cid, level, base, toks):
    return '%s V %d %x %s' % (cid, level, base, ' '.join(toks))


def _c02_tok(who, f):
    return '%s:%x:%d:%s' % (who, f[0], 1 if f[1] else 0, _hx(f[2]))


def c02_gen(ctx, intensive):
    """exhaustive: n frames split over deliverers A and B (each in ascending order, as on a FIFO
    connection), every merge of the two sequences, every adjacent cross pair as the window, every pipe
    lock acquisition k of the first one as the park position, closing frame none/last, with and
    without a reader in between, three entry points; seeded larger ones"""
    rng = ctx.rng
    nmax = 5 if (intensive or not ctx.quick()) else 4
    cases = []
    cid = 0

    def merges(a, b):
        if not a:
            yield [('B', x) for x in b]; return
        if not b:
            yield [('A', x) for x in a]; return
        for m in merges(a[1:], b):
            yield [('A', a[0])] + m
        for m in merges(a, b[1:]):
            yield [('B', b[0])] + m

    for n in range(2, nmax + 1):
        payloads = [bytes([16 * (i + 1) + j for j in range(1 + i % 3)]) for i in range(n)]
        for mask in range(1, 2 ** n - 1):
            a = [i for i in range(n) if mask >> i & 1]
            b = [i for i in range(n) if not mask >> i & 1]
            for m in merges(a, b):
                for j in range(n - 1):
                    if m[j][0] == m[j + 1][0]:
                        continue
                    for closing in (None, n - 1):
                        for k in range(1, n + 1):
                            for reads in (0, 1):
                                for level in (0, 1, 2):
                                    if level > 0 and reads and n > 3:
                                        continue
                                    fr = lambda i: (i, closing == i, payloads[i])
                                    toks = []
                                    order = []
                                    for idx, (who, i) in enumerate(m):
                                        if idx == j:
                                            x, y = fr(m[j][1]), fr(m[j + 1][1])
                                            fa, fb = (x, y) if who == 'A' else (y, x)
                                            toks.append('%s:%d:%s:%s' % ('P' if who == 'A' else 'Q', k, _c02_tok('', fa)[1:], _c02_tok('', fb)[1:]))
                                            order.append(('win', m[j][1], m[j + 1][1]))
                                        elif idx == j + 1:
                                            continue
                                        else:
                                            toks.append(_c02_tok(who, fr(i)))
                                            order.append(('seq', i))
                                        if reads:
                                            toks.append('R:2000')
                                    toks += ['R:2000', 'R:2000']
                                    meta = dict(kind='window/exhaustive/n=%d' % n, n=n, level=level, base=0, closing=closing, k=k,
                                                payloads=[p.hex() for p in payloads], order=order, deliverers=''.join(w for w, _ in m))
                                    cases.append(('v%d' % cid, c02_case('v%d' % cid, level, 0, toks), meta))
                                    cid += 1
    nseed = 150 if ctx.quick() and not intensive else 1500
    for s in range(nseed):
        n = rng.choice([3, 5, 8, 12])
        base = rng.choice([0, 7, 2 ** 32 - 2, 2 ** 63, 2 ** 64 - 2 - n])
        payloads = [bytes(rng.randrange(256) for _ in range(rng.choice([1, 2, 5, 40]))) for _ in range(n)]
        closing = rng.choice([None, n - 1, rng.randrange(1, n)])
        who = [rng.choice('AB') for _ in range(n)]
        # arrival order: per deliverer ascending, the merge is random
        qa = [i for i in range(n) if who[i] == 'A']; qb = [i for i in range(n) if who[i] == 'B']
        m = []
        while qa or qb:
            src = qa if (qa and (not qb or rng.random() < 0.5)) else qb
            m.append((('A' if src is qa else 'B'), src.pop(0)))
        level = rng.randrange(3)
        fr = lambda i: (base + i, closing == i, payloads[i])
        toks, order = [], []
        idx = 0
        while idx < len(m):
            w, i = m[idx]
            if idx + 1 < len(m) and m[idx + 1][0] != w and rng.random() < 0.5:
                x, y = fr(i), fr(m[idx + 1][1])
                fa, fb = (x, y) if w == 'A' else (y, x)
                toks.append('%s:%d:%s:%s' % ('P' if w == 'A' else 'Q', rng.randrange(1, 4), _c02_tok('', fa)[1:], _c02_tok('', fb)[1:]))
                order.append(('win', i, m[idx + 1][1]))
                idx += 2
            else:
                toks.append(_c02_tok(w, fr(i))); order.append(('seq', i)); idx += 1
            if rng.random() < 0.3:
                toks.append('R:%d' % rng.choice([1, 3, 2000]))
        toks += ['R:2000', 'R:2000']
        meta = dict(kind='window/seeded', n=n, level=level, base=base, closing=closing, k=None,
                    payloads=[p.hex() for p in payloads], order=order, deliverers=''.join(w for w, _ in m))
        cases.append(('vs%d' % s, c02_case('vs%d' % s, level, base, toks), meta))
    return cases


def c02_oracle(meta, toks):
    """From the property text: bytes come out in sequence order whatever the arrival interleaving;
    the closing frame takes effect only once every lower-numbered frame has been handed over."""
    n, closing, level = meta['n'], meta['closing'], meta['level']
    payloads = [bytes.fromhex(p) for p in meta['payloads']]
    limit = n if closing is None else closing
    expected = b''.join(payloads[:limit])
    got = b''
    eos = False
    wtoks = []
    for t in toks:
        if t.startswith('PANIC'):
            return 'the delivery panicked: ' + t
        if t.startswith('p'):
            st, first, second = t.split(':', 2)[0], None, None
            rest = t.split(':')[1:]
            if st[1:] in ('?', 'C'):
                return 'window did not settle (%s): a deliverer is parked somewhere unexpected' % t
            wtoks += rest
        elif t.startswith('w') or t.startswith('e'):
            wtoks.append(t)
        elif t.startswith('r:'):
            if eos:
                return 'data after end of stream'
            got += bytes.fromhex(t[2:]) if t[2:] != '-' else b''
        elif t == 'rF':
            eos = True
    if level == 0:
        ntbc = 0
        for w in wtoks:
            m = re.fullmatch(r'w([01])([01])@(\d+)', w)
            if not m:
                return 'unexpected observation ' + w
            if closing is None or ntbc == 0:
                if m.group(2) == '1':
                    return 'a delivery reported an error: ' + w
            if m.group(1) == '1':
                ntbc += 1
                if closing is None:
                    return 'toBeClosed reported although no closing frame was delivered'
                if ntbc == 1 and int(m.group(3)) != len(expected):
                    return ('the closing frame %d took effect when %d bytes had been handed to the pipe; frames 0..%d carry %d bytes '
                            '(the close overtook data numbered before it)' % (closing, int(m.group(3)), closing - 1, len(expected)))
        if closing is not None and ntbc != 1 and closing == n - 1:
            return 'toBeClosed reported %d times, expected exactly once' % ntbc
        if closing is not None and closing < n - 1:
            got = got[:len(expected)]      # level 0 does not close the pipe: later frames may follow
    if got != expected:
        return 'the reader received %s, the frames in sequence order are %s' % (got.hex() or '-', expected.hex() or '-')
    if level > 0 and closing is not None and not eos:
        return 'no end of stream after the closing frame'
    return None


def c02_model_line(cid, meta, line, toks):
    """the same deliveries, linearised (parked one first unless the other one finished while it was
    parked), as a case of the sequential model driver ocaml/bin/c02 (level 0 only)"""
    src = line.split()[4:]
    evs = []
    it = iter(toks)
    for s in src:
        p = s.split(':')
        obs = next(it, None)
        if p[0] in 'AB':
            evs.append('W:%s:%s:%s' % (p[1], p[2], p[3]))
        elif p[0] in 'PQ':
            fa = 'W:%s:%s:%s' % (p[2], p[3], p[4]); fb = 'W:%s:%s:%s' % (p[5], p[6], p[7])
            parked, other = (fa, fb) if p[0] == 'P' else (fb, fa)
            evs += [other, parked] if (obs or '').startswith('pD') else [parked, other]
        else:
            evs.append(s)
    return '%s %x %s' % (cid, meta['base'], ' '.join(evs))


def c02_project(toks):
    out = []
    for t in toks:
        if t.startswith('p'):
            st = t.split(':')[0]
            a, b = t.split(':')[1:3]
            pair = [a.split('@')[0], b.split('@')[0]]
            out += pair[::-1] if st == 'pD' else pair
        elif t.startswith('w'):
            out.append(t.split('@')[0])
        else:
            out.append(t)
    return ' '.join(out)


def c02_run(ctx, lines, tag):
    inp = '%s/%s.in' % (ctx.work, tag); out = '%s/%s.go.out' % (ctx.work, tag)
    open(inp, 'w').write('\n'.join(lines) + '\n')
    if os.path.exists(out):
        os.remove(out)
    rc, log, dt = vlib.go_test(ctx, 'multiplex', 'TestVerifC02Win', files=['c02_win_test.go'], env=dict(VERIF_IN=inp, VERIF_OUT=out), timeout=600)
    return rc, log, vlib.read_lines_by_id(out), dt


def c02_windows(ctx, verdict, intensive=False):
    broken = []
    cases = c02_gen(ctx, intensive)
    rc, log, impl, dt = c02_run(ctx, [c[1] for c in cases], 'win')
    if rc != 0 or not impl:
        broken.append(('Go driver TestVerifC02Win (two deliverers, one parked at the pipe lock) failed to build or run', log[-3000:]))
        return broken
    mlines, expect = [], {}
    fails, states = [], {}
    for cid, line, meta in cases:
        io = impl.get(cid)
        if io is None:
            continue
        toks = io.split()
        for t in toks:
            if t.startswith('p'):
                states[t[:2]] = states.get(t[:2], 0) + 1
        msg = c02_oracle(meta, toks)
        if msg:
            fails.append((cid, line, meta, io, msg))
        if meta['level'] == 0:
            mlines.append(c02_model_line(cid, meta, line, toks)); expect[cid] = c02_project(toks)
    seen_msgs = set()
    for cid, line, meta, io, msg in sorted(fails, key=lambda f: len(f[1])):
        key = re.sub(r'[0-9a-f]+', 'N', msg)[:40]
        if key in seen_msgs or len(seen_msgs) >= 2:
            continue
        seen_msgs.add(key)
        verdict.oracle_failure('window:' + re.sub(r'\d+', 'N', msg)[:60], 'C02 oracle (two deliverers): ' + msg,
                               dict(kind='window', driver='c02', case=line, meta=meta, implementation=io,
                                    schedule=c02_describe(line, io),
                                    how='python3 tools/check.py C02 --replay <this file>  (VERIF_IN=<file with the case line> go test -overlay .. -run TestVerifC02Win ./internal/multiplex/)'))
    minp = '%s/win.model.in' % ctx.work; mout = '%s/win.model.out' % ctx.work
    open(minp, 'w').write('\n'.join(mlines) + '\n')
    mrc, merr = vlib.run_model('c02', minp, mout)
    model = vlib.read_lines_by_id(mout)
    mism = [(cid, expect[cid], model[cid]) for cid in expect if cid in model and model[cid] != expect[cid]]
    if mrc != 0:
        broken.append(('extracted model c02 failed on the linearised window cases', merr[-2000:]))
    elif mism:
        cid, e, m = min(mism, key=lambda x: len(x[1]))
        line = [c[1] for c in cases if c[0] == cid][0]
        broken.append(('model Reorder.v (deliveries linearised: parked one first) vs streamBuffer with two concurrent deliverers: %d of %d cases differ' % (len(mism), len(expect)),
                       'smallest differing case: %s\nimplementation: %s\nmodel:          %s' % (line, e, m)))
    verdict.cov['window_schedules'] = dict(cases=len(cases), ran=len(impl), second_deliverer_while_first_parked=states,
                                           model_compared=len(expect), mismatches=len(mism), oracle_failures=len(fails), go_seconds=round(dt, 1),
                                           rule='two deliverer goroutines; every split of n<=%d frames over them, every merge, every adjacent cross pair as the window, every pipe-lock acquisition of the first as park position, closing none/last, reader in between or not, entry points streamBuffer.Write / Stream.recvFrame / Session.recvDataFromRemote; plus seeded larger ones (bases near 2^32, 2^63, 2^64)' % (5 if (intensive or not ctx.quick()) else 4))
    verdict.cov['evaluations'] = verdict.cov.get('evaluations', 0) + len(cases)
    verdict.cov['traces_validated_against_impl'] = verdict.cov.get('traces_validated_against_impl', 0) + len(expect)
    return broken


def c02_describe(line, io):
    fs = line.split()
    lv = {'0': 'streamBuffer.Write', '1': 'Stream.recvFrame', '2': 'Session.recvDataFromRemote'}[fs[2]]
    steps = []
    toks = io.split()
    for s, o in zip(fs[4:], toks + [''] * len(fs)):
        p = s.split(':')
        if p[0] in 'AB':
            steps.append('deliverer %s: %s(frame seq=%s closing=%s payload=%s) -> %s' % (p[0], lv, p[1], p[2], p[3], o))
        elif p[0] in 'PQ':
            pk, ot = ('A', 'B') if p[0] == 'P' else ('B', 'A')
            fa = 'seq=%s closing=%s payload=%s' % tuple(p[2:5]); fb = 'seq=%s closing=%s payload=%s' % tuple(p[5:8])
            fpk, fot = (fa, fb) if p[0] == 'P' else (fb, fa)
            steps.append('deliverer %s starts %s(frame %s) and is parked at its acquisition #%s of the pipe lock (rwCond.L); deliverer %s then calls %s(frame %s) and %s; %s is released -> %s' % (
                pk, lv, fpk, p[1], ot, lv, fot,
                {'pL': 'blocks on a lock', 'pD': 'RUNS TO COMPLETION', 'pN': '(the first never got that far: plain sequence)'}.get(o[:2], o[:2]), pk, o))
        else:
            steps.append('reader: Read(%s) -> %s' % (p[1], o))
    return steps


def c02_replay(ctx, r):
    rc, log, impl, dt = c02_run(ctx, [r['case']], 'replay')
    io = impl.get(r['case'].split()[0])
    print('implementation:', io)
    for s in c02_describe(r['case'], io or ''):
        print('  ', s)
    msg = c02_oracle(r['meta'], (io or '').split()) if io else 'driver failed: ' + log[-500:]
    print('oracle:', msg)
    return 1 if msg else 0


# ==========================================================================================
# C12: simultaneous close from both ends
def c12_parse(v):
    return dict(t.split('=', 1) for t in v.split() if '=' in t)


def c12_oracle(tid, d):
    if 'state' not in d:
        return 'trial did not complete: %s' % d
    if d['state'] in ('?', 'C'):
        return 'the second closer neither returned nor blocked on a lock (state %s)' % d['state']
    if d['x'] == 'err':
        return 'Stream.Close returned an unexpected error'
    if d['count'] != d['live'] or d['live'] != '1':
        return ('after both closes of stream 1 (stream 2 still open) activeStreamCount = %s, open streams = %s: the stream was counted down %s' % (
            d['count'], d['live'], 'twice' if d['count'] == '0' else 'a wrong number of times'))
    if d['early'] == '1' or d['after2T'] == '1':
        return 'the session closed itself %s although stream 2 was open' % ('at once' if d['early'] == '1' else 'within 2 x InactivityTimeout')
    if d['idle'] != '1':
        return 'with every stream closed the session did not close itself on the inactivity timer'
    if (d['x'] == 'ok') != (d['fin'] == '1'):
        return 'active close returned %s but %s closing frames were sent for the stream' % (d['x'], d['fin'])
    return None


def c12_schedule(tid):
    m = re.fullmatch(r'm(\d)-(ord|unord)-(acc|open)-([PX])(\d)', tid)
    if not m:
        return [tid]
    meth, od, role, who, k = m.groups()
    first = 'the passive close (connection reader: recvDataFromRemote(closing frame of stream 1) -> recvFrame -> passiveClose -> closeStream(s,false))' if who == 'P' else 'the active close (Stream.Close -> closeStream(s,true))'
    second = 'the active close Stream.Close()' if who == 'P' else 'the passive close (closing frame of stream 1 delivered to recvDataFromRemote)'
    return ['session: encryption method %s, %s, two streams 1 and 2 %s, 2 connections, InactivityTimeout 30 s, virtual clock' % (meth, 'ordered' if od == 'ord' else 'unordered', 'opened by the peer and accepted' if role == 'acc' else 'opened locally'),
            'goroutine 1: %s is parked at its acquisition #%s of stream 1\'s pipe lock (recvBuf ... rwCond.L)' % (first, k),
            'goroutine 2: %s runs until it returns or blocks on a lock' % second,
            'goroutine 1 is released; quiescence; Sleep(2 x InactivityTimeout + 1 s); stream 2 closed; Sleep again']


def c12_close_race(ctx, verdict):
    out = '%s/closerace.out' % ctx.work
    if os.path.exists(out):
        os.remove(out)
    rc, log, dt = vlib.go_test(ctx, 'multiplex', 'TestVerifC12CloseRace', files=['c12_close_race_test.go', 'c02_win_test.go'],
                               env=dict(VERIF_OUT=out), timeout=600, synctest=True)
    got = vlib.read_lines_by_id(out)
    broken = []
    if rc != 0 or not got:
        broken.append(('Go driver TestVerifC12CloseRace (simultaneous stream close from both ends) failed rc=%d' % rc, log[-3000:]))
    nfail = 0
    states = {}
    reported = set()
    for tid, v in got.items():
        d = c12_parse(v)
        states[d.get('state', '?')] = states.get(d.get('state', '?'), 0) + 1
        msg = c12_oracle(tid, d) if not v.startswith('PANIC') and not v.startswith('setup') else 'trial crashed: ' + v
        if msg:
            nfail += 1
            if tid.split('-')[1] not in reported:
                reported.add(tid.split('-')[1])
                verdict.oracle_failure('close-race:' + re.sub(r'\d+', 'N', msg)[:50], 'C12 oracle (simultaneous close of one stream from both ends): ' + msg,
                                       dict(kind='window', driver='c12', trial=tid, schedule=c12_schedule(tid), implementation=v,
                                            how='python3 tools/check.py C12 --replay <this file>  (GOEXPERIMENT=synctest go test -tags verif -overlay .. -run TestVerifC12CloseRace ./internal/multiplex/)'))
    verdict.cov['close_race_trials'] = dict(trials=len(got), second_closer_while_first_parked=states, oracle_failures=nfail, go_seconds=round(dt, 1))
    return broken


def c12_replay(ctx, r):
    v2 = vlib.Verdict(ctx)
    c12_close_race(ctx, v2)
    got = vlib.read_lines_by_id('%s/closerace.out' % ctx.work)
    v = got.get(r['trial'])
    print('trial', r['trial'], ':', v)
    for s in c12_schedule(r['trial']):
        print('  ', s)
    msg = c12_oracle(r['trial'], c12_parse(v)) if v else 'no output'
    print('oracle:', msg)
    return 1 if msg else 0


# ==========================================================================================
# C05: two writers, one parked inside the underlying Write
def _c05_payload(n, tag):
    return bytes([(tag * 37 + i * 11 + (i >> 8) * 5 + 7) % 256 for i in range(n)])


def _c05_repr(b):
    import hashlib
    if len(b) == 0:
        return '-'
    if len(b) <= 32:
        return b.hex()
    return '%d.%s' % (len(b), hashlib.md5(b).hexdigest())


def c05_gen(ctx, intensive):
    cases = []
    pairs = [((10, 1), (20, 2)), ((0, 1), (0, 2)), ((200, 3), (126, 4)), ((40000, 5), (20, 6)), ((20, 7), (40000, 8)), ((125, 9), (65536, 10))]
    if intensive or not ctx.quick():
        pairs += [((16480, 11), (16481, 12)), ((100000, 13), (100000, 14)), ((1, 15), (1, 16))]
    k = 0
    for role in 'cs':
        for (a, b) in pairs:
            for j in (1, 2, 3, 4):
                if j > 1 and a[0] < 16000:
                    continue          # a small message is one underlying write
                cases.append(('ww%d' % k, 'ww%d WW %s %d %d:%d %d:%d' % (k, role, j, a[0], a[1], b[0], b[1]),
                              dict(kind='ws', role=role, j=j, a=a, b=b))); k += 1
    for (a, b) in [((10, 1), (20, 2)), ((0, 1), (1, 2)), ((16640, 3), (1, 4)), ((1, 5), (16640, 6)), ((16384, 7), (16384, 8))]:
        for j in (1, 2):
            cases.append(('wt%d' % k, 'wt%d WT %d %d:%d %d:%d' % (k, j, a[0], a[1], b[0], b[1]), dict(kind='tls', j=j, a=a, b=b))); k += 1
    return cases


def c05_oracle(meta, d):
    a, b = _c05_payload(*meta['a']), _c05_payload(*meta['b'])
    if d.get('state') in ('?', 'C', None):
        return 'the second writer neither returned nor blocked on a lock (%s)' % d.get('state')
    reads = d.get('reads', '').split(',')
    if meta['kind'] == 'ws':
        if d['a'] != 'ok' or d['b'] != 'ok':
            return 'WebSocketConn (%s role): writer A parked inside the underlying Write, writer B calls Write: A returned %s, B returned %s; the peer then read %s' % (
                'client' if meta.get('role') == 'c' else 'server', d['a'], d['b'], reads)
        if d['overlap'] != '0':
            return '%s underlying Write calls were entered while another one was still inside (messages may interleave on the wire)' % d['overlap']
        want = ['ok:' + _c05_repr(a), 'ok:' + _c05_repr(b), 'end']
        if reads != want:
            return 'the peer read %s, expected both messages whole and in the order the writes were serialised: %s' % (reads, want)
    else:
        if d['a'] != 'ok' or d['b'] != 'ok':
            return 'TLSConn writers: A returned %s, B returned %s' % (d['a'], d['b'])
        if d['writes'] != '2':
            return 'TLSConn: %s underlying writes for 2 messages' % d['writes']
        if reads[-1] != 'end' or sorted(reads[:-1]) != sorted(['ok:' + _c05_repr(a), 'ok:' + _c05_repr(b)]):
            return 'the peer read %s, expected the two messages whole, each once' % reads
    return None


def c05_schedule(meta, d):
    what = 'WebSocketConn (%s side writes)' % ('client' if meta.get('role') == 'c' else 'server') if meta['kind'] == 'ws' else 'TLSConn'
    return ['%s over a harness-owned connection' % what,
            'writer A: Write(%d-byte message) is parked inside underlying Conn.Write call #%d (before the bytes are taken)' % (meta['a'][0], meta['j']),
            'writer B: Write(%d-byte message) -> %s while A is parked' % (meta['b'][0], {'L': 'blocks on a lock', 'D': 'RUNS TO COMPLETION (%s)' % d.get('b'), 'N': '(A was never parked)'}.get(d.get('state'), d.get('state'))),
            'A is released; the connection is closed for writing; the peer reads until end of stream: %s' % d.get('reads')]


def c05_run(ctx, lines, tag):
    inp = '%s/%s.in' % (ctx.work, tag); out = '%s/%s.go.out' % (ctx.work, tag)
    open(inp, 'w').write('\n'.join(lines) + '\n')
    if os.path.exists(out):
        os.remove(out)
    rc, log, dt = vlib.go_test(ctx, 'common', 'TestVerifC05Win', files=['c05_win_test.go', 'c05_test.go'], env=dict(VERIF_IN=inp, VERIF_OUT=out), timeout=300)
    return rc, log, vlib.read_lines_by_id(out), dt


def c05_windows(ctx, verdict, intensive=False):
    broken = []
    cases = c05_gen(ctx, intensive)
    rc, log, impl, dt = c05_run(ctx, [c[1] for c in cases], 'win')
    if rc != 0 or not impl:
        broken.append(('Go driver TestVerifC05Win (two writers, one parked inside the underlying Write) failed to build or run', log[-3000:]))
        return broken
    nfail, states = 0, {}
    for cid, line, meta in cases:
        io = impl.get(cid)
        if io is None:
            continue
        d = c12_parse(io)
        key = meta['kind'] + ':' + d.get('state', io.split()[0][:12])
        states[key] = states.get(key, 0) + 1
        msg = c05_oracle(meta, d) if 'state' in d else 'trial crashed: ' + io[:200]
        if msg:
            nfail += 1
            if nfail <= 2:
                verdict.oracle_failure('window:' + meta['kind'] + ':' + re.sub(r'\d+', 'N', msg)[:50], 'C05 oracle (concurrent writers on one connection): ' + msg,
                                       dict(kind='window', driver='c05', case=line, meta=meta, implementation=io, schedule=c05_schedule(meta, d),
                                            how='python3 tools/check.py C05 --replay <this file>  (VERIF_IN=<file with the case line> go test -overlay .. -run TestVerifC05Win ./internal/common/)'))
    verdict.cov['window_schedules'] = dict(cases=len(cases), ran=len(impl), second_writer_while_first_parked=states, oracle_failures=nfail, go_seconds=round(dt, 1),
                                           rule='writer A parked inside underlying Conn.Write call j of its message (j=1..4 for messages that gorilla fragments), writer B writes meanwhile; WebSocketConn client and server role, message sizes 0..100000; TLSConn sizes 0..16640')
    verdict.cov['evaluations'] = verdict.cov.get('evaluations', 0) + len(cases)
    return broken


def c05_replay(ctx, r):
    rc, log, impl, dt = c05_run(ctx, [r['case']], 'replay')
    io = impl.get(r['case'].split()[0])
    print('implementation:', io)
    d = c12_parse(io or '')
    for s in c05_schedule(r['meta'], d):
        print('  ', s)
    msg = c05_oracle(r['meta'], d) if io and 'state' in d else 'driver failed: ' + (io or log[-500:])
    print('oracle:', msg)
    return 1 if msg else 0


# ==========================================================================================
# C10: pooled record buffer
def c10_pool_run(ctx, mode, procs, ms=2000, race=False, writers=None, writes=None, tag='pool'):
    out = '%s/%s_%s.out' % (ctx.work, tag, mode)
    if os.path.exists(out):
        os.remove(out)
    env = dict(VERIF_OUT=out, VERIF_C10_MODE=mode, VERIF_C10_PROCS=','.join(map(str, procs)), VERIF_C10_MS=str(ms))
    if writers:
        env['VERIF_C10_WRITERS'] = str(writers)
    if writes:
        env['VERIF_C10_WRITES'] = str(writes)
    rc, log, dt = vlib.go_test(ctx, 'common', 'TestVerifC10Pool', files=['c10_pool_test.go'], env=env, race=race, timeout=900)
    res = []
    if os.path.exists(out):
        for ln in open(out):
            f = ln.split()
            if f:
                d = dict(t.split('=', 1) for t in f[1:] if '=' in t); d['run'] = f[0]
                res.append(d)
    return rc, log, res, dt


def c10_windows(ctx, verdict, intensive=False):
    """(1) happens-before run under the race detector (deterministic: see c10_pool_test.go),
    (2) bounded statistical stress for an actually malformed buffer"""
    broken = []
    ncpu = os.cpu_count() or 4
    rc, log, hb, dt1 = c10_pool_run(ctx, 'hb', [1, 4], race=True, writers=4, writes=200 if ctx.quick() and not intensive else 2000)
    race = _race_in(log, 'tls.go', 'TLSConn')
    if rc != 0 and not race and not hb:
        broken.append(('Go driver TestVerifC10Pool (happens-before run under -race) failed to build or run', log[-3000:]))
    elif rc != 0 and not race:
        broken.append(('Go driver TestVerifC10Pool (happens-before run under -race) failed', log[-3000:]))
    bad = [d for d in hb if d.get('bad', '0') != '0']
    budget = (2500 if ctx.quick() else 20000) * (6 if (intensive or race) else 1)
    rc2, log2, st, dt2 = c10_pool_run(ctx, 'stress', [ncpu, 4], ms=budget)
    if rc2 != 0 or not st:
        broken.append(('Go driver TestVerifC10Pool (stress run) failed to build or run', log2[-3000:]))
    bad += [d for d in st if d.get('bad', '0') != '0']
    migr = sum(int(d.get('migrations', 0)) for d in st); writes = sum(int(d.get('writes', 0)) for d in st)
    verdict.cov['pool_runs'] = dict(
        happens_before=dict(runs=hb, race_detector_report=bool(race), go_seconds=round(dt1, 1),
                            rule='4 writers, %s writes in all, through one TLSConn, GOMAXPROCS 1 and 4, runtime.Gosched between writes so that the pooled buffer migrates between goroutines; the underlying conn has no synchronisation of its own; every buffer checked; the race detector checks that nothing touches a buffer after its Put' % (hb[0]['writes'] if hb else '?')),
        stress=dict(runs=st, writes=writes, racing_pairs_executed=migr, budget_ms_per_gomaxprocs=budget, go_seconds=round(dt2, 1),
                    rule='4 x GOMAXPROCS writers for a time budget at GOMAXPROCS=%d and 4, forced GC cycles as preemption source; racing pair = a record buffer put back by one goroutine and next obtained by another; every buffer handed to the underlying conn must be one well-formed record of its writer' % ncpu))
    verdict.cov['evaluations'] = verdict.cov.get('evaluations', 0) + writes + sum(int(d.get('writes', 0)) for d in hb)
    if bad or race:
        first = bad[0]['first'].replace('_', ' ') if bad else None
        what = ('C10 oracle (concurrent writers on one TLSConn): ' + first) if first else \
            'C10 oracle (concurrent writers on one TLSConn): a writer touches its record buffer after returning it to writeBufPool; the next writer that obtains it emits a record built on a buffer that is still being modified (happens-before violation reported by the race detector; the stress run of %d writes / %d buffer migrations did not happen to hit the window)' % (writes, migr)
        sched = ['one TLSConn over a harness-owned connection; writers W0..W3, each: Write(message); runtime.Gosched()',
                 'GOMAXPROCS(1): W_i returns its buffer to the pool (sync.Pool.Put -> the P\'s private slot) and yields; W_j runs on the same P, sync.Pool.Get hands it that very buffer',
                 'the race detector orders Put -> Get (pool annotations); any access of W_i to the buffer after its Put is unordered with W_j\'s use']
        verdict.oracle_failure('pool:' + ('malformed-record' if first else 'use-after-put'), what,
                               dict(kind='window', driver='c10', schedule=sched, race_report=(race or '')[:3000], malformed=[d for d in bad][:3],
                                    stress=dict(writes=writes, racing_pairs=migr, budget_ms=budget),
                                    how='python3 tools/check.py C10 --replay <this file>  (VERIF_C10_MODE=hb go test -race -overlay .. -run TestVerifC10Pool ./internal/common/ ; VERIF_C10_MODE=stress for the statistical search)'))
    return broken


def c10_replay(ctx, r):
    v2 = vlib.Verdict(ctx)
    c10_windows(ctx, v2, intensive=True)
    print(json.dumps(v2.cov.get('pool_runs'), indent=1)[:3000])
    for p, _, w in v2.violations:
        print('oracle:', w)
    return 1 if v2.violations else 0


# ==========================================================================================
# C01 / C14: the client relays
def _route_run(ctx, test, files, lines, tag, race=True):
    inp = '%s/%s.in' % (ctx.work, tag); out = '%s/%s.go.out' % (ctx.work, tag)
    open(inp, 'w').write('\n'.join(lines) + '\n')
    if os.path.exists(out):
        os.remove(out)
    rc, log, dt = vlib.go_test(ctx, 'client', test, files=files, env=dict(VERIF_IN=inp, VERIF_OUT=out), race=race, timeout=600)
    return rc, log, vlib.read_lines_by_id(out), dt


POS = {0: 'not parked', 1: 'SetReadDeadline(now+timeout), before the first-packet read', 2: 'the first-packet Read (bytes not yet taken)',
       3: 'SetReadDeadline(zero), after the first packet was read and before OpenStream / Stream.Write', 4: 'the second Read (first packet already sent)'}


def c01_gen(ctx, intensive):
    sizes = [(100, 50, 10, 10), (50, 100, 0, 0), (10240, 1, 20000, 30000), (1, 10240, 5, 5)]
    if intensive or not ctx.quick():
        sizes += [(10240, 10240, 70000, 1), (1, 1, 1, 1), (5000, 4999, 16132, 16133)]
    cases = []
    for pos in range(5):
        for s in sizes:
            cid = 'rt%d' % len(cases)
            cases.append((cid, '%s TCP %d %d %d %d %d' % ((cid, pos) + s), dict(pos=pos, sizes=s)))
    # on a single P (per-P caches such as sync.Pool hand the parked goroutine's leavings to the next one)
    for pos in (3, 4):
        for s in sizes[:3]:
            cid = 'rt%d' % len(cases)
            cases.append((cid, '%s TCP %d %d %d %d %d 1' % ((cid, pos) + s), dict(pos=pos, sizes=s, procs=1)))
    return cases


def c01_schedule(meta, d):
    s = meta['sizes']
    return ['client.RouteTCP on a harness-owned listener; real client Session <-> real server Session over 2 in-memory connections' + ('; GOMAXPROCS(1)' if meta.get('procs') else ''),
            'local connection A is accepted; its first packet (%d bytes) is available; its relay goroutine is parked at: %s' % (s[0], POS[meta['pos']]),
            'local connection B is accepted and sends its first packet (%d bytes): %s' % (s[1], {'D': 'delivered to the far end while A is parked', 'T': 'NOT delivered while A is parked', 'N': 'A was not parked'}.get(d.get('state'), d.get('state'))),
            'A is released; A sends %d more bytes, B %d more; the far end writes a token and a second message down each stream' % (s[2], s[3]),
            'far-end stream of A carried: %s; of B: %s; A received: %s; B received: %s' % (d.get('A'), d.get('B'), d.get('downA'), d.get('downB'))]


def _route_oracle(d, keys):
    if 'state' not in d:
        return 'trial did not complete'
    if d['state'] == 'T':
        return 'while one local connection was stalled the other made no progress'
    for k in keys:
        if d.get(k) != 'ok':
            who = k[-1]
            if k.startswith('down'):
                return 'local peer %s received %s instead of what the far end wrote down its own stream' % (who, d.get(k))
            return 'the stream of local peer %s carried %s instead of exactly the bytes that peer sent' % (who, d.get(k))
    return None


def c01_windows(ctx, verdict, intensive=False):
    broken = []
    cases = c01_gen(ctx, intensive)
    rc, log, impl, dt = _route_run(ctx, 'TestVerifC01Route', ['c01_route_test.go'], [c[1] for c in cases], 'route')
    race = _race_in(log, 'piper.go')
    if (rc != 0 and not race) or not impl:
        broken.append(('Go driver TestVerifC01Route (client.RouteTCP with two local connections, one parked) failed to build or run', log[-3000:]))
        if not impl:
            return broken
    nfail, states, fails = 0, {}, []
    for cid, line, meta in cases:
        io = impl.get(cid)
        if io is None:
            continue
        d = c12_parse(io)
        states['pos%d:%s' % (meta['pos'], d.get('state'))] = states.get('pos%d:%s' % (meta['pos'], d.get('state')), 0) + 1
        msg = _route_oracle(d, ['A', 'B', 'downA', 'downB'])
        if msg is None and d.get('streams') != '2':
            msg = '%s streams at the far end for 2 local connections' % d.get('streams')
        if msg:
            nfail += 1
            fails.append((0 if d.get('state') == 'D' else 1, len(line), line, meta, io, d, msg))
    # a schedule with the park in place replays deterministically: report those first
    for _, _, line, meta, io, d, msg in sorted(fails, key=lambda f: f[:2])[:2]:
        verdict.oracle_failure('route-tcp:' + re.sub(r'\d+', 'N', msg)[:50], 'C01 oracle (client.RouteTCP, two local connections): ' + msg,
                               dict(kind='window', driver='c01', case=line, meta=meta, implementation=io, schedule=c01_schedule(meta, d), race_report=(race or '')[:2000],
                                    how='python3 tools/check.py C01 --replay <this file>  (VERIF_IN=<file with the case line> go test -race -overlay .. -run TestVerifC01Route ./internal/client/)'))
    if race and nfail == 0:
        verdict.oracle_failure('route-tcp:data-race', 'C01 oracle (client.RouteTCP): two relay goroutines of different local connections touch the same memory without ordering (race detector); one connection\'s bytes can be sent on the other\'s stream',
                               dict(kind='window', driver='c01', race_report=race[:3000], schedule=['two local connections accepted by RouteTCP, each sends a first packet; see the two stacks of the report'],
                                    how='go test -race -overlay .. -run TestVerifC01Route ./internal/client/'))
    verdict.cov['route_tcp_windows'] = dict(cases=len(cases), ran=len(impl), park_position_and_outcome=states, oracle_failures=nfail, race_detector=True, race_reports=len(_race_blocks(log)),
                                            go_seconds=round(dt, 1), rule='two local connections through client.RouteTCP into a real Session pair; connection A parked at each of its 4 calls on the local connection while B completes its first packet; first packets 1..10240 bytes, later data up to 70000 bytes, both directions; stream<->connection mapping learnt from a downstream token')
    verdict.cov['evaluations'] = verdict.cov.get('evaluations', 0) + len(cases)
    return broken


def c01_replay(ctx, r):
    if not r.get('case'):
        print(json.dumps(r, indent=1)[:3000]); return 1
    rc, log, impl, dt = _route_run(ctx, 'TestVerifC01Route', ['c01_route_test.go'], [r['case']], 'replay')
    io = impl.get(r['case'].split()[0])
    print('implementation:', io)
    d = c12_parse(io or '')
    for s in c01_schedule(r['meta'], d):
        print('  ', s)
    msg = _route_oracle(d, ['A', 'B', 'downA', 'downB'])
    print('oracle:', msg)
    return 1 if msg else 0


def c14_gen(ctx, intensive):
    rows = [(1201, 1202, 3, 1), (1201, 700, 1, 1), (700, 16000, 4, 1), (9000, 9001, 5, 1), (16132, 1, 2, 1), (1201, 1202, 3, 0), (300, 16132, 8, 0)]
    if intensive or not ctx.quick():
        rows += [(1201 + i, 5000 - i, 2 + i % 5, 1) for i in range(12)] + [(100 + i, 100 + i, 6, 0) for i in range(6)]
    return [('ru%d' % i, 'ru%d UDP2 %d %d %d %d' % ((i,) + r), dict(sizes=r)) for i, r in enumerate(rows)]


def c14_schedule(meta, d):
    s = meta['sizes']
    return ['client.RouteUDP on a loopback UDP socket; two local applications A and B (two source addresses = two streams); real unordered Session pair over 2 in-memory connections',
            'A and B each send %d datagrams of different sizes alternately: far-end stream of A got %s, of B got %s' % (s[2], d.get('upA'), d.get('upB')),
            ('the far end answers A with %d bytes; A\'s relay goroutine is parked right after its stream.Read returned (schedule point: trace line of Stream.Read): %s' % (s[0], {'D': 'parked', 'N': 'schedule point not reached', 'T': 'parked, B starved'}.get(d.get('state')))) if s[3] else 'no park',
            'the far end answers B with %d bytes; B receives: %s' % (s[1], d.get('downB')),
            'A is released; A receives: %s' % d.get('downA')]


def c14_windows(ctx, verdict, intensive=False):
    broken = []
    cases = c14_gen(ctx, intensive)
    rc, log, impl, dt = _route_run(ctx, 'TestVerifC14Route', ['c14_route_test.go', 'c01_route_test.go'], [c[1] for c in cases], 'route')
    race = _race_in(log, 'piper.go')
    if (rc != 0 and not race) or not impl:
        broken.append(('Go driver TestVerifC14Route (client.RouteUDP with two local applications) failed to build or run', log[-3000:]))
        if not impl:
            return broken
    nfail, states, pairs, fails = 0, {}, 0, []
    for cid, line, meta in cases:
        io = impl.get(cid)
        if io is None:
            continue
        d = c12_parse(io)
        states[d.get('state', '?')] = states.get(d.get('state', '?'), 0) + 1
        pairs += int(d.get('pairs', 0) or 0) + 1
        msg = _route_oracle(d, ['upA', 'upB', 'downA', 'downB'])
        if msg:
            nfail += 1
            fails.append((0 if (d.get('state') == 'D' and d.get('upA') == 'ok' and d.get('upB') == 'ok') else 1, len(line), line, meta, io, d, msg))
    for _, _, line, meta, io, d, msg in sorted(fails, key=lambda f: f[:2])[:2]:
        verdict.oracle_failure('relay:isolation:' + re.sub(r'\d+', 'N', msg)[:50], 'C14 oracle (client.RouteUDP, two local applications): ' + msg,
                               dict(kind='window', driver='c14', case=line, meta=meta, implementation=io, schedule=c14_schedule(meta, d), race_report=(race or '')[:2000],
                                    how='python3 tools/check.py C14 --replay <this file>  (VERIF_IN=<file with the case line> go test -race -overlay .. -run TestVerifC14Route ./internal/client/)'))
    if race and nfail == 0:
        verdict.oracle_failure('relay:isolation:data-race', 'C14 oracle (client.RouteUDP): two relay goroutines of different streams touch the same memory without ordering (race detector); one application can receive the other\'s datagram',
                               dict(kind='window', driver='c14', race_report=race[:3000], schedule=['two local applications, answers for both in flight; see the two stacks of the report'],
                                    how='go test -race -overlay .. -run TestVerifC14Route ./internal/client/'))
    verdict.cov['route_udp_windows'] = dict(cases=len(cases), ran=len(impl), relay_goroutine_parked=states, concurrent_answer_pairs=pairs, oracle_failures=nfail, race_detector=True,
                                            race_reports=len(_race_blocks(log)), go_seconds=round(dt, 1),
                                            rule='two local UDP applications through client.RouteUDP into a real unordered Session pair; alternating upstream datagrams (1..9000 bytes), then an answer for each with the relay goroutine of the first parked between stream.Read and WriteTo; run under the race detector')
    verdict.cov['evaluations'] = verdict.cov.get('evaluations', 0) + len(cases)
    return broken


def c14_replay(ctx, r):
    if not r.get('case'):
        print(json.dumps(r, indent=1)[:3000]); return 1
    rc, log, impl, dt = _route_run(ctx, 'TestVerifC14Route', ['c14_route_test.go', 'c01_route_test.go'], [r['case']], 'replay')
    io = impl.get(r['case'].split()[0])
    print('implementation:', io)
    d = c12_parse(io or '')
    for s in c14_schedule(r['meta'], d):
        print('  ', s)
    msg = _route_oracle(d, ['upA', 'upB', 'downA', 'downB'])
    print('oracle:', msg)
    return 1 if msg else 0


# ==========================================================================================
REPLAY = dict(c02=c02_replay, c12=c12_replay, c05=c05_replay, c10=c10_replay, c01=c01_replay, c14=c14_replay)
WINDOWS = dict(C02=c02_windows, C05=c05_windows, C10=c10_windows, C01=c01_windows, C14=c14_windows)


def replay(ctx, verdict):
    return REPLAY[ctx.replay['driver']](ctx, ctx.replay)


def search(ctx, verdict, problems):
    """check.py calls this when a proof obligation or a correspondence is broken and no concrete
    failing input has been found yet: rerun the windows with the larger scope / longer budget."""
    before = len(verdict.violations)
    if ctx.pid == 'C12':
        c12_close_race(ctx, verdict)
    else:
        WINDOWS[ctx.pid](ctx, verdict, intensive=True)
    ctx.notes.append('search after %d broken obligation(s)/correspondence(s): window drivers rerun with the intensive scope, %d concrete failing schedule(s) found' % (
        len(problems), len(verdict.violations) - before))
    return any(not noinput for _, noinput, _ in verdict.violations[before:])


# ==========================================================================================
# C11: garbage through the receive loop (switchboard.deplex), not only through recvDataFromRemote
def c11_gen(ctx, intensive=False):
    rng = ctx.rng
    cases = []

    def hexr(n):
        return bytes(rng.randrange(256) for _ in range(n)).hex() or '-'

    def garbage(method, conn, stale=None):
        """one garbage record; for the plain method (no authentication) only what the length check refuses;
        stale = (sid, seq) of a frame an ordered stream has already been given: a well-formed frame that
        recvDataFromRemote refuses with an error (sequence number below the next expected)"""
        if stale and rng.random() < 0.2:
            return 'V:%d:%d:%d:0:%s' % (conn, stale[0], stale[1], hexr(3)), 'stale-seq'
        if method == 0:
            n = rng.choice([0, 1, 5, 21])
            return 'R:%d:%s' % (conn, hexr(n)), 'too-short(%d)' % n
        k = rng.randrange(6)
        sid, seq, pl = rng.choice([1, 2, 9]), rng.randrange(0, 8), hexr(rng.choice([1, 3, 40]))
        if k == 0:
            n = rng.choice([22, 23, 30, 64, 300, 2000, 2000, 16640, 16641, 20000, 20475])   # up to what the 20480-byte receive buffer takes
            return 'R:%d:%s' % (conn, hexr(n)), 'random(%d)' % n
        if k == 1:
            n = rng.choice([0, 1, 13, 21])
            return 'R:%d:%s' % (conn, hexr(n)), 'too-short(%d)' % n
        if k == 2:
            keep = rng.choice([0, 5, 21, 22, 23, 29, 31])
            return 'T:%d:%d:%d:%d:%s' % (conn, keep, sid, seq, pl), 'truncated(%d)' % keep
        if k == 3:
            return 'K:%d:%d:%d:%s' % (conn, sid, seq, pl), 'foreign-key'
        bit = rng.randrange(0, 4000)
        return 'F:%d:%d:%d:%d:%s' % (conn, bit, sid, seq, pl), 'bit-flip'

    def build(cid, method, unordered, nconn, ngarb_fn, nvalid=4):
        toks, plan = [], []
        nxt = {1: 0, 2: 0}
        closed = set()
        for step in range(nvalid):
            sid = 1 if step % 3 != 2 else 2
            if sid in closed:
                sid = 2
            conn = rng.randrange(nconn)
            closing = 1 if (step == nvalid - 1 and rng.random() < 0.4) else 0
            pl = hexr(rng.choice([1, 2, 17]))
            toks.append('V:%d:%d:%d:%d:%s' % (conn, sid, nxt[sid], closing, pl))
            plan.append(('V', sid, closing, pl))
            nxt[sid] += 1
            if closing:
                closed.add(sid)
            toks.append('Q'); plan.append(('Q',))
            kinds = []
            for _ in range(ngarb_fn()):
                live = [(sd, rng.randrange(nxt[sd])) for sd in nxt if nxt[sd] > 0 and sd not in closed]
                g, kind = garbage(method, rng.randrange(nconn), rng.choice(live) if (live and not unordered) else None)
                toks.append(g); kinds.append(kind)
            if kinds:
                toks.append('Q'); plan.append(('Q',))
            plan.append(('G', kinds))
        toks.append('Q'); plan.append(('Q',))
        line = '%s L %d %d %d %s' % (cid, method, unordered, nconn, ' '.join(toks))
        return (cid, line, dict(method=method, unordered=unordered, nconn=nconn, plan=plan))

    n = 0
    # every single bit of a short valid frame, one at a time, between two valid frames (AEAD methods)
    for method in (1, 2, 3):
        nbits = 8 * (14 + 1 + 16 + 0) if ctx.quick() and not intensive else 8 * 60
        for bit in range(0, nbits, 1 if (intensive or not ctx.quick()) else 3):
            cid = 'lb%d' % n; n += 1
            toks = ['V:0:1:0:0:41', 'Q', 'F:0:%d:1:7:42' % bit, 'Q', 'V:0:1:1:0:43', 'Q']
            plan = [('V', 1, 0, '41'), ('Q',), ('G', ['bit-flip(%d)' % bit]), ('Q',), ('V', 1, 0, '43'), ('Q',)]
            cases.append((cid, '%s L %d 0 1 %s' % (cid, method, ' '.join(toks)), dict(method=method, unordered=0, nconn=1, plan=plan)))
    for i in range(120 if ctx.quick() and not intensive else 1500):
        cid = 'lg%d' % i
        cases.append(build(cid, i % 4, rng.randrange(2), rng.choice([1, 2, 3]), lambda: rng.choice([0, 1, 1, 2, 5])))
    # header bytes 12-13 (closing flag, extra length) are outside the AEAD (known finding F3): a frame with a bit of
    # them flipped still authenticates and is ACTED UPON - in order on a stream of its own, where its (now arbitrary)
    # closing flag takes effect at once.  Whatever it means, the process must not crash and the other stream goes on.
    for method in (0, 1, 2, 3):
        for un in (0, 1):
            for bit in range(16):
                if bit == 1:
                    continue        # closing flag 2 = a session-closing notice: the session closes, as it would for a genuine one
                for seq in ((0,) if ctx.quick() and not intensive else (0, 3)):
                    cid = 'lh%d' % n; n += 1
                    toks = ['V:0:1:0:0:41', 'Q', 'H:0:%d:2:%d:4242' % (bit, seq), 'Q', 'V:0:1:1:0:43', 'Q']
                    plan = [('V', 1, 0, '41'), ('Q',), ('G', ['header-bit(%d)' % bit]), ('Q',), ('V', 1, 0, '43'), ('Q',)]
                    cases.append((cid, '%s L %d %d 1 %s' % (cid, method, un, ' '.join(toks)), dict(method=method, unordered=un, nconn=1, plan=plan, relaxed=1)))
    # a record cut short by a connection drop (the header promises a whole frame, the body ends early, then EOF): under
    # the plain method the fragment would pass for a frame - nothing of it may reach a stream
    for method in (0, 1, 3):
        for un in (0, 1):
            for keep in (22, 30, 45, 61):
                cid = 'lp%d' % n; n += 1
                toks = ['V:0:1:0:0:41', 'Q', 'P:1:%d:9:0:%s' % (keep, '5a' * 40), 'Q']
                plan = [('V', 1, 0, '41'), ('Q',), ('G', ['record-cut-by-drop(%d)' % keep]), ('Q',)]
                cases.append((cid, '%s L %d %d 2 %s' % (cid, method, un, ' '.join(toks)), dict(method=method, unordered=un, nconn=2, plan=plan, relaxed=2)))
    return cases


def c11_expected(meta):
    """what the property demands at every Q: garbage has no effect, valid frames are delivered"""
    out = []
    pending = {}
    known, closed = [], set()
    for st in meta['plan']:
        if st[0] == 'V':
            _, sid, closing, pl = st
            if sid not in known:
                known.append(sid)
            if closing:
                closed.add(sid)
            else:
                pending.setdefault(sid, []).append(pl)
        elif st[0] == 'Q':
            ss = []
            for sid in sorted(known):
                parts = pending.pop(sid, [])
                data = ('/'.join(parts) if meta['unordered'] else ''.join(parts)) if parts else '-'
                ss.append('%d=%s%s' % (sid, data, '!' if sid in closed else '.'))
            out.append('q:0:0:0:' + ','.join(ss))
    return out


def c11_run(ctx, lines, tag):
    inp = '%s/%s.in' % (ctx.work, tag); out = '%s/%s.go.out' % (ctx.work, tag)
    open(inp, 'w').write('\n'.join(lines) + '\n')
    if os.path.exists(out):
        os.remove(out)
    rc, log, dt = vlib.go_test(ctx, 'multiplex', 'TestVerifC11Loop', files=['c11_loop_test.go'], env=dict(VERIF_IN=inp, VERIF_OUT=out), timeout=300)
    return rc, log, vlib.read_lines_by_id(out), dt


def c11_describe(meta, got, exp):
    steps = ['session: encryption method %d, %s, %d connection(s) (TLSConn over harness-owned byte streams), receive loops = switchboard.deplex' % (
        meta['method'], 'unordered' if meta['unordered'] else 'ordered', meta['nconn'])]
    qi = 0
    for st in meta['plan']:
        if st[0] == 'V':
            steps.append('valid %s frame for stream %d%s' % ('closing' if st[2] else 'data', st[1], '' if st[2] else ' payload ' + st[3]))
        elif st[0] == 'G' and st[1]:
            steps.append('garbage records: ' + ', '.join(st[1]))
        elif st[0] == 'Q':
            g = got[qi] if qi < len(got) else '(missing)'
            steps.append('settle -> observed %s%s' % (g, '' if g == exp[qi] else '   EXPECTED ' + exp[qi]))
            qi += 1
    return steps


def c11_loop(ctx, verdict, intensive=False):
    broken = []
    cases = c11_gen(ctx, intensive)
    rc, log, impl, dt = c11_run(ctx, [c[1] for c in cases], 'loop')
    if rc != 0 and 'panic' in log:
        # the process died inside a case: name it (the driver flushes one line per finished case)
        first = next(((cid, line, meta) for cid, line, meta in cases if cid not in impl), None)
        if first:
            m = re.search(r'panic: [^\n]*', log)
            verdict.oracle_failure('loop:process-crash', 'C11 oracle (records through the receive loop): the process crashed while the session was processing received records (%s)' % (m.group(0)[:160] if m else 'panic'),
                                   dict(kind='window', driver='c11', case=first[1], meta=first[2], implementation='PROCESS CRASHED', log_tail=log[-1500:],
                                        schedule=c11_describe(first[2], [], c11_expected(first[2])),
                                        how='python3 tools/check.py C11 --replay <this file>  (VERIF_IN=<file with the case line> go test -overlay .. -run TestVerifC11Loop ./internal/multiplex/)'))
            return broken
    if rc != 0 or not impl:
        broken.append(('Go driver TestVerifC11Loop (garbage through the receive loop) failed to build or run', log[-3000:]))
        return broken
    fails = []
    kinds = {}
    for cid, line, meta in cases:
        io = impl.get(cid)
        if io is None:
            continue
        if meta.get('relaxed'):
            # a frame that authenticates although it was altered (known finding): only "no crash, the session and the
            # other stream go on" is demanded here
            got = io.split()
            for st in meta['plan']:
                if st[0] == 'G':
                    for k in st[1]:
                        kk = re.sub(r'\(.*', '', k) + '/m%d' % meta['method']
                        kinds[kk] = kinds.get(kk, 0) + 1
            if meta['relaxed'] == 2:
                # the dropped connection takes the session down (that is C12's business); the fragment must not have
                # become a stream or data
                listed = [x.split('=')[0] for x in got[-1].split(':', 4)[-1].split(',')] if got else []
                bad = io.startswith('PANIC') or len(got) != 2 or not got[0].endswith('1=41.') or any(x not in ('1', '') for x in listed)
                if bad:
                    msg = 'the receive path panicked: ' + io[:200] if io.startswith('PANIC') else 'a record cut short by a connection drop was handed to the session as a frame (a stream appeared that no whole frame ever named): ' + io[:200]
                    fails.append((len(line), cid, line, meta, io, msg, got, c11_expected(meta)))
                continue
            f = got[-1].split(':') if got else []
            s1 = [x for x in (f[4].split(',') if len(f) > 4 else []) if x.startswith('1=')]
            ok = (not io.startswith('PANIC')) and len(got) == 3 and f[1] == '0' and got[0].endswith('1=41.') and s1 and s1[0] in ('1=43.',)
            if not ok:
                msg = 'the receive path panicked: ' + io[:200] if io.startswith('PANIC') else 'after a frame whose unauthenticated header bytes were altered the other stream or the session did not go on: ' + io[:200]
                fails.append((len(line), cid, line, meta, io, msg, got, c11_expected(meta)))
            continue
        for st in meta['plan']:
            if st[0] == 'G':
                for k in st[1]:
                    kk = re.sub(r'\(.*', '', k) + '/m%d' % meta['method']
                    kinds[kk] = kinds.get(kk, 0) + 1
        got, exp = io.split(), c11_expected(meta)
        if got != exp:
            i = next((j for j in range(min(len(got), len(exp))) if got[j] != exp[j]), min(len(got), len(exp)))
            g = got[i] if i < len(got) else '(nothing)'
            f = g.split(':')
            if io.startswith('PANIC'):
                msg = 'the receive path panicked: ' + io[:200]
            elif len(f) >= 4 and (f[1] == '1' or f[2] != '0'):
                msg = ('after garbage on a connection the session was closed (%s Close calls on its connections): one undecodable message tore the whole session down instead of being dropped' % f[2]) if f[1] == '1' else \
                    ('after garbage on a connection Close was called %s time(s) on connections of the session (the session itself stays open): an undecodable message must be dropped with no effect' % f[2])
            elif len(f) >= 4 and f[3] != '0':
                msg = 'the session sent %s frame(s) of its own in reaction to received records' % f[3]
            else:
                msg = 'observation %d is %s, the property demands %s (valid frames before and after delivered, garbage without effect)' % (i, g, exp[i] if i < len(exp) else '(nothing)')
            fails.append((len(line), cid, line, meta, io, msg, got, exp))
    seen = set()
    for _, cid, line, meta, io, msg, got, exp in sorted(fails)[:30]:
        key = re.sub(r'\d+', 'N', msg)[:40]
        if key in seen or len(seen) >= 2:
            continue
        seen.add(key)
        verdict.oracle_failure('loop:' + key, 'C11 oracle (garbage through the receive loop): ' + msg,
                               dict(kind='window', driver='c11', case=line, meta=meta, implementation=io, schedule=c11_describe(meta, got, exp),
                                    how='python3 tools/check.py C11 --replay <this file>  (VERIF_IN=<file with the case line> go test -overlay .. -run TestVerifC11Loop ./internal/multiplex/)'))
    verdict.cov['receive_loop_cases'] = dict(cases=len(cases), ran=len(impl), garbage_kinds=dict(sorted(kinds.items())), oracle_failures=len(fails), go_seconds=round(dt, 1),
                                             rule='real Session over TLSConns on harness-owned byte streams (1-3 connections, 4 methods, ordered/unordered); valid frames interleaved with garbage records (random bytes, too short, empty record, truncated valid frame, every single-bit flip of a short valid frame except header bytes 12-13, frame under another key; for the plain method only what the length check refuses); after every batch: session open, no Close on any connection, no frame sent, exactly the valid frames delivered, no other stream')
    verdict.cov['evaluations'] = verdict.cov.get('evaluations', 0) + len(cases)
    return broken


def c11_replay(ctx, r):
    rc, log, impl, dt = c11_run(ctx, [r['case']], 'replay')
    io = impl.get(r['case'].split()[0]) or ''
    exp = c11_expected(r['meta'])
    for s in c11_describe(r['meta'], io.split(), exp):
        print('  ', s)
    bad = io.split() != exp
    print('oracle:', 'differs from what the property demands' if bad else None)
    return 1 if bad else 0


REPLAY['c11'] = c11_replay
WINDOWS['C11'] = c11_loop


# ==========================================================================================
# C10: the send path of a stream and its error branches (nothing on the wire for a frame that cannot be encoded)
def c10s_gen(ctx, intensive=False):
    rng = ctx.rng
    cases = []
    fixed = [
        'O W:1:5 W:1:0 F:1:3,0,4 W:1:2 X:1', 'O F:1:0', 'O F:1:0,0,5', 'O F:1:7,0 B:1:100:50 B:1:0:500 Z',
        'O W:1:1 F:1:1,1,0,1 F:1:0 F:1:2 X:1 W:1:3', 'O O F:2:5,0 F:1:0,5 W:2:9 X:2 X:2 Z',
        'O W:1:1000 W:1:700 X:1', 'O O W:2:50000 W:1:3 W:2:1325 X:2',
    ]
    k = 0
    for method in range(4):
        for un in (0, 1):
            for limit in (16401, 600):
                for f in fixed:
                    cases.append(('se%d' % k, 'se%d S %d %d %d %s' % (k, method, un, limit, f), dict(method=method, unordered=un, limit=limit))); k += 1
    for i in range(150 if ctx.quick() and not intensive else 2000):
        method, un, limit = i % 4, rng.randrange(2), rng.choice([16401, 16401, 600, 1000])
        mx = limit - 14 - 255
        ns = rng.choice([1, 2, 3])
        toks = ['O'] * ns
        for _ in range(rng.randrange(2, 9)):
            sid = rng.randrange(1, ns + 1)
            r = rng.random()
            if r < 0.3:
                toks.append('W:%d:%d' % (sid, rng.choice([0, 1, 2, mx - 1, mx, mx + 1, 2 * mx + 3, rng.randrange(1, 300)])))
            elif r < 0.75:
                lens = [rng.choice([0, 0, 1, 5, mx, mx + 1, rng.randrange(1, 200)]) for _ in range(rng.randrange(1, 5))]
                toks.append('F:%d:%s' % (sid, ','.join(map(str, lens))))
            elif r < 0.87:
                toks.append('B:%d:%d:%d' % (sid, rng.choice([0, 0, 1, 100]), rng.choice([0, 5, 13, 14, 20])))
            elif r < 0.97:
                toks.append('X:%d' % sid)
            else:
                toks.append('Z'); break
        cases.append(('sr%d' % i, 'sr%d S %d %d %d %s' % (i, method, un, limit, ' '.join(toks)), dict(method=method, unordered=un, limit=limit)))
    return cases


def c10s_oracle(line, meta, io):
    """property: every buffer on the connection is one well-formed record that decodes to one frame of
    the stream the operation was issued on; an operation whose frame cannot be encoded writes nothing"""
    if io.startswith('PANIC'):
        return 'the send path panicked: ' + io[:200]
    ops = line.split()[5:]
    obs = io.split()
    if len(obs) != len(ops):
        return '%d observations for %d operations' % (len(obs), len(ops))
    limit = meta['limit']; mx = limit - 14 - 255
    closed = set(); seen = set(); nopen = 0; sclosed = False
    for opi, (op, ob) in enumerate(zip(ops, obs)):
        if ob == 'nostream':
            continue
        parts = ob.split(';')
        ret, recs = parts[0], parts[1:]
        n, err = ret.split(':')
        p = op.split(':')
        sid = p[1] if len(p) > 1 else None
        frames = []
        for r in recs:
            wlen, hdr, d = r.split(':', 2)
            where = 'operation %d (%s)' % (opi, op)
            if hdr != '1' or int(wlen) <= 5 or int(wlen) - 5 > limit:
                return '%s put a buffer of %s bytes on the connection that is not one application-data record with 0 < length <= %d%s' % (
                    where, wlen, limit, ' (an EMPTY record 17 03 03 00 00)' if wlen == '5' else '')
            if d == 'X':
                return '%s put a record of %d bytes on the connection whose body is not a Cloak frame under the session key' % (where, int(wlen) - 5)
            fsid, fseq, fcl, pl = d.split('.', 3)
            if (fsid, fseq) in seen:
                return '%s: stream %s sequence number %s used twice' % (where, fsid, fseq)
            seen.add((fsid, fseq))
            frames.append((fsid, fcl, pl))
        want_sid = '4294967295' if p[0] == 'Z' else sid
        for fsid, fcl, pl in frames:
            if fsid != want_sid:
                return 'operation %d (%s) emitted a frame of stream %s' % (opi, op, fsid)
        data = [pl for _, fcl, pl in frames if fcl == '0']
        ncl = len(frames) - len(data)
        reprs = lambda tag, chunks: [_c05_repr(_c05_payload(off + l, tag)[off:]) for off, l in chunks]
        if sclosed and p[0] != 'O':
            if frames:
                return 'operation %d (%s) after Session.Close put %d record(s) on the connection' % (opi, op, len(frames))
            continue
        if p[0] == 'O':
            nopen += 1
            if frames:
                return 'OpenStream put a record on the connection'
        elif p[0] == 'W':
            L = int(p[2])
            if sid in closed:
                exp, expret = [], ('0', 'B')
            elif L == 0:
                exp, expret = [], ('0', '0')
            elif meta['unordered'] and L > mx:
                exp, expret = [], ('0', 'S')
            else:
                chunks = [(o, min(mx, L - o)) for o in range(0, L, mx)]
                exp, expret = reprs(opi, chunks), (str(L), '0')
            if data != exp or ncl:
                return 'operation %d (%s): records on the connection carry %s, expected %s' % (opi, op, data, exp)
        elif p[0] == 'F':
            lens = [int(x) for x in p[2].split(',')]
            chunks, off, stop_at = [], 0, None
            for l in lens:
                if l == 0:
                    if stop_at is None:
                        stop_at = len(chunks)
                    continue
                while l > 0:
                    c = min(l, mx); chunks.append((off, c)); off += c; l -= c
            allr = reprs(opi, chunks)
            if sid in closed:
                ok = data == [] or data == allr[:1]        # ReadFrom notices the closed stream after its first read
            else:
                ok = data == allr or (stop_at is not None and data == allr[:stop_at])
            if not ok or ncl:
                return ('operation %d (%s): a source whose reads return %s bytes: records on the connection carry %s; expected one frame per non-empty read%s' % (
                    opi, op, lens, data, ' up to the empty one (or all of them), and nothing for the empty read' if stop_at is not None else ''))
        elif p[0] == 'B':
            if frames:
                return 'operation %d (%s): a frame that cannot be encoded (payload %s bytes, send buffer %s bytes) still put %d record(s) on the connection' % (opi, op, p[2], p[3], len(frames))
            if err == '0':
                return 'operation %d (%s): the encoding error was swallowed' % (opi, op)
        elif p[0] == 'X':
            if sid in closed:
                if frames:
                    return 'second Close of stream %s sent a frame' % sid
            else:
                if ncl != 1 or data or frames[0][1] != '1':
                    return 'Stream.Close: expected exactly one stream-closing frame, got %s' % (frames,)
                closed.add(sid)
        elif p[0] == 'Z':
            if ncl != 1 or data or frames[0][1] != '2':
                return 'Session.Close: expected exactly one session-closing frame, got %s' % (frames,)
            sclosed = True
    return None


def c10s_run(ctx, lines, tag):
    inp = '%s/%s.in' % (ctx.work, tag); out = '%s/%s.go.out' % (ctx.work, tag)
    open(inp, 'w').write('\n'.join(lines) + '\n')
    if os.path.exists(out):
        os.remove(out)
    rc, log, dt = vlib.go_test(ctx, 'multiplex', 'TestVerifC10Send', files=['c10_send_test.go'], env=dict(VERIF_IN=inp, VERIF_OUT=out), timeout=300)
    return rc, log, vlib.read_lines_by_id(out), dt


def c10_send_errors(ctx, verdict, intensive=False):
    broken = []
    cases = c10s_gen(ctx, intensive)
    rc, log, impl, dt = c10s_run(ctx, [c[1] for c in cases], 'send')
    if rc != 0 or not impl:
        broken.append(('Go driver TestVerifC10Send (send path of a stream and its error branches) failed to build or run', log[-3000:]))
        return broken
    fails = []
    nrec = nzero = 0
    for cid, line, meta in cases:
        io = impl.get(cid)
        if io is None:
            continue
        nrec += io.count(';'); nzero += len(re.findall(r'F:\d+:(?:\d+,)*0', line))
        msg = c10s_oracle(line, meta, io)
        if msg:
            fails.append((len(line), cid, line, meta, io, msg))
    seen = set()
    for _, cid, line, meta, io, msg in sorted(fails):
        key = re.sub(r'\d+', 'N', re.sub(r'operation \d+ \(\S+\):?', 'op', msg))[:45]
        if key in seen or len(seen) >= 2:
            continue
        seen.add(key)
        verdict.oracle_failure('send:' + key, 'C10 oracle (send path of a stream): ' + msg,
                               dict(kind='window', driver='c10s', case=line, meta=meta, implementation=io,
                                    schedule=['real Session (method %d, %s, MsgOnWireSizeLimit %d) over a TLSConn over a recording connection; operations in order: %s' % (
                                        meta['method'], 'unordered' if meta['unordered'] else 'ordered', meta['limit'], ' '.join(line.split()[5:])),
                                        'per operation: <n>:<err>;<bytes written>:<record header ok>:<stream>.<seq>.<closing>.<payload> ...', io],
                                    how='python3 tools/check.py C10 --replay <this file>  (VERIF_IN=<file with the case line> go test -overlay .. -run TestVerifC10Send ./internal/multiplex/)'))
    verdict.cov['send_path_cases'] = dict(cases=len(cases), ran=len(impl), records_checked=nrec, readfrom_sources_with_empty_reads=nzero, oracle_failures=len(fails), go_seconds=round(dt, 1),
                                          rule='Stream.Write (0, 1, max-1, max, max+1, several frames), Stream.ReadFrom over sources whose reads return 0 bytes with a nil error / more than a frame / nothing, obfuscateAndSend with an empty payload and with a send buffer that is too small, Stream.Close (also repeated), Session.Close; 4 methods, ordered and unordered, MsgOnWireSizeLimit 16401/1000/600; every buffer handed to the connection checked and decoded')
    verdict.cov['evaluations'] = verdict.cov.get('evaluations', 0) + len(cases)
    return broken


def c10s_replay(ctx, r):
    rc, log, impl, dt = c10s_run(ctx, [r['case']], 'replay')
    io = impl.get(r['case'].split()[0]) or ''
    print('case:          ', r['case']); print('implementation:', io)
    msg = c10s_oracle(r['case'], r['meta'], io) if io else 'driver failed ' + log[-400:]
    print('oracle:', msg)
    return 1 if msg else 0


REPLAY['c10s'] = c10s_replay
_c10_windows_pool = c10_windows


def c10_windows(ctx, verdict, intensive=False):
    broken = c10_send_errors(ctx, verdict, intensive)
    return broken + _c10_windows_pool(ctx, verdict, intensive)


WINDOWS['C10'] = c10_windows


# ==========================================================================================
# C01: the relay keeps working after StreamTimeout has elapsed (deadlines armed on the local connection)
def c01dl_gen(ctx, intensive=False):
    cases = []
    for T in (5000, 300000):
        for d1 in (0, 100, T - 100):
            for gap in (0, T // 2, T - d1, T - d1 + 1, T + 1000, 3 * T):
                for script in (['D:100', 'U:50'], ['U:100', 'D:50'], ['D:1', 'G:%d' % T, 'D:20000', 'U:3', 'G:%d' % (2 * T), 'U:70000', 'D:5']):
                    steps = (['G:%d' % gap] if gap else []) + script
                    cid = 'dl%d' % len(cases)
                    cases.append((cid, '%s DL %d %d %s' % (cid, T, d1, ' '.join(steps)), dict(T=T, d1=d1, steps=steps, late=False)))
        cid = 'dl%d' % len(cases)
        cases.append((cid, '%s DL %d %d U:10 D:10' % (cid, T, T + 1000), dict(T=T, d1=T + 1000, steps=['U:10', 'D:10'], late=True)))
    return cases


def c01dl_oracle(meta, d):
    if 'streams' not in d:
        return 'trial did not complete'
    if meta['late']:
        return None
    if d['streams'] != '1':
        return '%s streams at the far end for one local connection' % d['streams']
    if d['upok'] != '1' or d['downok'] != '1' or d['closed'] != '0' or d['eos'] != '0':
        lost = []
        if d['downok'] != '1':
            lost.append('remote->local: %s bytes arrived' % d['down'])
        if d['upok'] != '1':
            lost.append('local->remote: %s bytes arrived' % d['up'])
        return ('a local connection still in use after StreamTimeout has elapsed since it was accepted (StreamTimeout %d ms, first packet after %d ms): %s%s%s; nothing failed and nobody closed anything (deadline calls on the local connection: %s; still armed at the end: %s)' % (
            meta['T'], meta['d1'], '; '.join(lost) or 'all bytes arrived',
            '; the relay closed the local connection' if d['closed'] == '1' else '', '; the stream ended at the far end' if d['eos'] == '1' else '',
            d.get('calls'), d.get('armed')))
    return None


def c01dl_schedule(meta, d):
    return ['client.RouteTCP(StreamTimeout = %d ms) on a harness-owned listener and local connection that enforces the deadlines armed on it; real Session pair; virtual clock (testing/synctest)' % meta['T'],
            't0: local connection accepted; t0 + %d ms: its first packet (64 bytes)' % meta['d1'],
            'then: ' + ', '.join({'G': 'idle %s ms', 'U': 'local->remote %s bytes', 'D': 'remote->local %s bytes'}[s[0]] % s[2:] for s in meta['steps']),
            'deadline calls seen by the local connection: %s' % d.get('calls'),
            'result: local->remote %s bytes, remote->local %s bytes, local connection closed by the relay: %s, stream ended: %s, deadlines still armed: %s' % (d.get('up'), d.get('down'), d.get('closed'), d.get('eos'), d.get('armed'))]


def c01dl_run(ctx, lines, tag):
    inp = '%s/%s.in' % (ctx.work, tag); out = '%s/%s.go.out' % (ctx.work, tag)
    open(inp, 'w').write('\n'.join(lines) + '\n')
    if os.path.exists(out):
        os.remove(out)
    rc, log, dt = vlib.go_test(ctx, 'client', 'TestVerifC01Deadline', files=['c01_deadline_test.go', 'c01_route_test.go'], env=dict(VERIF_IN=inp, VERIF_OUT=out), timeout=300, synctest=True)
    return rc, log, vlib.read_lines_by_id(out), dt


def c01_deadlines(ctx, verdict, intensive=False):
    broken = []
    cases = c01dl_gen(ctx, intensive)
    rc, log, impl, dt = c01dl_run(ctx, [c[1] for c in cases], 'deadline')
    if rc != 0 or not impl:
        broken.append(('Go driver TestVerifC01Deadline (RouteTCP on a deadline-enforcing local connection, virtual clock) failed to build or run', log[-3000:]))
        return broken
    fails = []
    for cid, line, meta in cases:
        io = impl.get(cid)
        if io is None:
            continue
        d = c12_parse(io)
        if meta['late'] and not (d.get('closed') == '1' and d.get('streams') == '0'):
            broken.append(('driver sanity: a first packet later than StreamTimeout was not timed out by RouteTCP (the harness connection must enforce deadlines)', io))
        msg = c01dl_oracle(meta, d)
        if msg:
            fails.append((len(line), line, meta, io, d, msg))
    for _, line, meta, io, d, msg in sorted(fails, key=lambda f: f[0])[:1]:
        verdict.oracle_failure('route-tcp:deadline', 'C01 oracle (client.RouteTCP, connection outliving StreamTimeout): ' + msg,
                               dict(kind='window', driver='c01dl', case=line, meta=meta, implementation=io, schedule=c01dl_schedule(meta, d),
                                    how='python3 tools/check.py C01 --replay <this file>  (GOEXPERIMENT=synctest VERIF_IN=<file with the case line> go test -overlay .. -run TestVerifC01Deadline ./internal/client/)'))
    verdict.cov['route_tcp_deadlines'] = dict(cases=len(cases), ran=len(impl), oracle_failures=len(fails), go_seconds=round(dt, 1),
                                              rule='RouteTCP with StreamTimeout 5 s and 300 s on a local connection that enforces SetDeadline/SetReadDeadline/SetWriteDeadline, virtual clock; first packet at 0 / 100 ms / StreamTimeout-100 ms; transfers in both directions (1..70000 bytes) after idle gaps of 0, T/2, exactly up to the armed instant, one ms later, T+1 s, 3T, and again after further gaps; plus the late-first-packet sanity case')
    verdict.cov['evaluations'] = verdict.cov.get('evaluations', 0) + len(cases)
    return broken


def c01dl_replay(ctx, r):
    rc, log, impl, dt = c01dl_run(ctx, [r['case']], 'replay')
    io = impl.get(r['case'].split()[0]) or ''
    d = c12_parse(io)
    for s in c01dl_schedule(r['meta'], d):
        print('  ', s)
    msg = c01dl_oracle(r['meta'], d)
    print('oracle:', msg)
    return 1 if msg else 0


REPLAY['c01dl'] = c01dl_replay
_c01_windows_route = c01_windows


def c01_windows(ctx, verdict, intensive=False):
    broken = _c01_windows_route(ctx, verdict, intensive)
    return broken + c01_deadlines(ctx, verdict, intensive)


WINDOWS['C01'] = c01_windows


# ==========================================================================================
# C12 / C01: session pair over BOUNDED connections (a Write returns when the peer's receive loop has taken it)
def bd_gen(ctx, intensive=False):
    cases = []
    arrive = {'closing-same': lambda me, sid, other: 'X:%s:%d' % (me, sid), 'closing-other': lambda me, sid, other: 'X:%s:%d' % (me, other),
              'data-same': lambda me, sid, other: 'W:%s:%d:7' % (me, sid), 'data-other': lambda me, sid, other: 'W:%s:%d:7' % (me, other),
              'session-closing': lambda me, sid, other: 'Z:%s' % me}
    mids = {'Write': lambda me, sid: 'W:%s:%d:100' % (me, sid), 'ReadFrom': lambda me, sid: 'F:%s:%d:100' % (me, sid), 'Close': lambda me, sid: 'X:%s:%d' % (me, sid)}
    pingpong = ['W:A:3:5', 'R:B:3', 'W:B:3:5', 'R:A:3']
    k = 0
    for mid in mids:
        for arr in arrive:
            for nconn in (1, 2):
                # (a) the frames are taken first and held by the receive loops, then the senders start, then everything is released
                for two in (0, 1):
                    for rel in (0, 1):
                        toks = ['H:A:1', 'H:B:1']
                        toks.append(arrive[arr]('B', 1, 2))            # arrives at A, concerning A's stream 1 (or 2)
                        if two:
                            toks.append(arrive[arr]('A', 2, 1))        # arrives at B, concerning B's stream 2 (or 1)
                        toks += ['N:A:1', 'N:B:1']
                        toks.append(mids[mid]('A', 1))
                        if two:
                            toks.append(mids[mid]('B', 2))
                        toks += ['N:A:0', 'N:B:0', 'H:A:0', 'H:B:0'] if rel else ['H:A:0', 'H:B:0', 'N:A:0', 'N:B:0']
                        z = arr == 'session-closing'
                        if not z:
                            toks += pingpong
                        cid = 'bd%d' % k; k += 1
                        cases.append((cid, '%s B %d %d %s' % (cid, k % 4, nconn, ' '.join(toks)),
                                      dict(mid=mid, arriving=arr, two_sided=two, nconn=nconn, order='frames held by the receive loops first, then the senders', session_close=z)))
                # (b) the sender is mid-send first (its peer is slow to read), then the frame arrives and is processed at once
                toks = ['N:B:1', mids[mid]('A', 1), arrive[arr]('B', 1, 2), 'N:B:0']
                z = arr == 'session-closing'
                if not z:
                    toks += pingpong
                cid = 'bd%d' % k; k += 1
                cases.append((cid, '%s B %d %d %s' % (cid, k % 4, nconn, ' '.join(toks)),
                              dict(mid=mid, arriving=arr, two_sided=0, nconn=nconn, order='sender mid-send first (peer slow to read), then the frame arrives', session_close=z)))
    return cases


def bd_parse(io):
    if '|' not in io:
        return None
    steps, fin = io.split('|', 1)
    d = dict(t.split('=', 1) for t in fin.split() if '=' in t)
    d['steps'] = steps.split()          # (the case id has already been stripped by read_lines_by_id)
    return d


def bd_oracle(line, meta, io):
    d = bd_parse(io)
    if d is None:
        return 'scenario did not complete: ' + io[:200]
    toks = line.split()[4:]
    blocked = [o for o in d['ops'].split(',') if ':b:' in o or o.endswith(':b')]
    if blocked or d['stuck'] != '-':
        names = []
        opt = [t for t in toks if t[0] in 'WFXZR']
        for o in blocked:
            i = int(o.split(':')[0])
            names.append('%s blocked (%s)' % (opt[i] if i < len(opt) else '?', o.split(':b:', 1)[1] if ':b:' in o else '?'))
        return ('after everything parked was released, with no connection failed%s: %s; receive loops back in Read: %s%s' % (
            '' if meta['session_close'] else ' and no session closed', '; '.join(names) or 'every call returned', d['loops'],
            '' if d['stuck'] == '-' else ', receive loop(s) stuck at ' + d['stuck']))
    want_closed = '11' if meta['session_close'] else '00'
    if d['closed'] != want_closed:
        return 'sessions closed (A,B) = %s, expected %s' % (d['closed'], want_closed)
    if not meta['session_close']:
        # ping-pong on the third stream
        res = dict(zip(toks, d['steps']))
        idx = {t: i for i, t in enumerate(toks)}
        for wtok, rtok in (('W:A:3:5', 'R:B:3'), ('W:B:3:5', 'R:A:3')):
            want = 'd:' + (bytes([ord('a') + idx[wtok] % 26]) * 5).hex() + ':ok'
            if res.get(rtok) != want:
                return 'ping-pong on the third stream: %s gave %s, expected %s' % (rtok, res.get(rtok), want)
    return None


def bd_describe(line, meta, io):
    d = bd_parse(io) or dict(steps=[])
    names = {'H': 'receive loops of side %s: take one message and hold it = %s', 'N': 'receive loops of side %s: take nothing = %s'}
    steps = ['session pair over %d bounded connection(s) (a Write returns when the peer\'s receive loop has taken the message); streams 1,2,3 open; %s; mid-send operation: %s; arriving frame: %s%s' % (
        meta['nconn'], meta['order'], meta['mid'], meta['arriving'], '; mirrored on both sides' if meta['two_sided'] else '')]
    for t, o in zip(line.split()[4:], d['steps'] + [''] * 99):
        p = t.split(':')
        if p[0] in names:
            steps.append(names[p[0]] % (p[1], p[2]))
        else:
            what = {'W': 'Stream.Write(%s bytes) on stream %s' % (p[3] if len(p) > 3 else '', p[2] if len(p) > 2 else ''), 'F': 'Stream.ReadFrom(one read of %s bytes) on stream %s' % (p[3] if len(p) > 3 else '', p[2] if len(p) > 2 else ''),
                    'X': 'Stream.Close on stream %s' % (p[2] if len(p) > 2 else ''), 'Z': 'Session.Close', 'R': 'Stream.Read on stream %s' % (p[2] if len(p) > 2 else '')}[p[0]]
            steps.append('side %s: %s -> %s' % (p[1], what, {'d': 'returned ', 'b': 'BLOCKED at '}.get(o[:1], '') + o[2:]))
    if '|' in io:
        steps.append('final quiescence: ' + io.split('|', 1)[1].strip())
    return steps


def bd_run(ctx, lines, tag):
    inp = '%s/%s.in' % (ctx.work, tag); out = '%s/%s.go.out' % (ctx.work, tag)
    open(inp, 'w').write('\n'.join(lines) + '\n')
    if os.path.exists(out):
        os.remove(out)
    rc, log, dt = vlib.go_test(ctx, 'multiplex', 'TestVerifC12Bounded', files=['c12_bounded_test.go', 'c02_win_test.go'], env=dict(VERIF_IN=inp, VERIF_OUT=out), timeout=300)
    return rc, log, vlib.read_lines_by_id(out), dt


def bounded(ctx, verdict, intensive=False):
    broken = []
    cases = bd_gen(ctx, intensive)
    rc, log, impl, dt = bd_run(ctx, [c[1] for c in cases], 'bounded')
    if rc != 0 or not impl:
        broken.append(('Go driver TestVerifC12Bounded (session pair over bounded connections) failed to build or run', log[-3000:]))
        if not impl:
            return broken
    fails = []
    midsend = 0
    for cid, line, meta in cases:
        io = impl.get(cid)
        if io is None:
            continue
        midsend += io.count('b:cond@(*switchboard).send')
        msg = bd_oracle(line, meta, io)
        if msg:
            fails.append((0 if meta['nconn'] == 1 else 1, len(line), line, meta, io, msg))
    # the verdicts of this driver are read off goroutine states; a case that fails in the batch is run again alone,
    # twice, in fresh processes, and is reported only if it fails again (a violation placed by parking goroutines is
    # deterministic; a judgement disturbed by machine load is not)
    confirmed = []
    for f in sorted(fails, key=lambda f: f[:2])[:4]:
        _, _, line, meta, io, msg = f
        again = 0
        for k in range(2):
            rc2, log2, impl2, _ = bd_run(ctx, [line], 'bounded_alone%d' % k)
            io2 = impl2.get(line.split()[0])
            if io2 is None or bd_oracle(line, meta, io2):
                again += 1
        if again:
            confirmed.append(f)
        else:
            ctx.notes.append('bounded-connection case "%s" failed once inside the batch (%s) and passed twice when run alone: not reported' % (line[:120], msg[:120]))
    fails = confirmed + [f for f in fails if f not in confirmed][:0]
    for _, _, line, meta, io, msg in sorted(fails, key=lambda f: f[:2])[:1]:
        verdict.oracle_failure('bounded:' + re.sub(r'\d+', 'N', msg)[:50], '%s oracle (session pair over bounded connections): ' % ctx.pid + msg,
                               dict(kind='window', driver='bd', case=line, meta=meta, implementation=io, schedule=bd_describe(line, meta, io), failing_cases=len(fails),
                                    how='python3 tools/check.py %s --replay <this file>  (VERIF_IN=<file with the case line> go test -overlay .. -run TestVerifC12Bounded ./internal/multiplex/)' % ctx.pid))
    verdict.cov['bounded_connection_cases'] = dict(cases=len(cases), ran=len(impl), senders_parked_inside_conn_write=midsend, oracle_failures=len(fails), go_seconds=round(dt, 1),
                                                   rule='{Write, ReadFrom, Close} mid-send (holding the stream\'s write mutex inside a blocking conn.Write) x {closing frame, data frame for the same / another stream, session-closing frame} arriving at that side\'s receive loop, one-sided and mirrored on both sides, 1 and 2 connections, frames held first or sender first, both release orders; afterwards every call has returned, every receive loop is back in Read, sessions closed only if one was closed, ping-pong on a third stream; quiescence and blocked calls read off runtime.Stack')
    verdict.cov['evaluations'] = verdict.cov.get('evaluations', 0) + len(cases)
    return broken


def bd_replay(ctx, r):
    rc, log, impl, dt = bd_run(ctx, [r['case']], 'replay')
    io = impl.get(r['case'].split()[0]) or ''
    for s in bd_describe(r['case'], r['meta'], io):
        print('  ', s)
    msg = bd_oracle(r['case'], r['meta'], io)
    print('oracle:', msg)
    return 1 if msg else 0


REPLAY['bd'] = bd_replay
_c01_windows_before_bounded = c01_windows


def c01_windows(ctx, verdict, intensive=False):
    return _c01_windows_before_bounded(ctx, verdict, intensive) + bounded(ctx, verdict, intensive)


WINDOWS['C01'] = c01_windows
_c12_close_race_only = c12_close_race


def c12_close_race(ctx, verdict):
    return _c12_close_race_only(ctx, verdict) + bounded(ctx, verdict)

# ---- C13 on the send path: numbering of what actually reaches the wire (same driver as c10s) ----
def c13s_oracle(line, meta, io):
    """property C13: the frames a side puts on the wire for a stream carry 0,1,2,.. in emission order - a
    sequence number must not be consumed by a frame that never reaches the wire (the reader of an ordered
    stream would wait for it for ever)"""
    if io.startswith('PANIC'):
        return None
    ops = line.split()[5:]
    obs = io.split()
    if len(obs) != len(ops):
        return None
    due = {}
    for opi, (op, ob) in enumerate(zip(ops, obs)):
        if ob == 'nostream':
            continue
        for r in ob.split(';')[1:]:
            try:
                wlen, hdr, d = r.split(':', 2)
                fsid, fseq, fcl, pl = d.split('.', 3)
            except ValueError:
                continue
            if fsid == '4294967295':
                continue
            want = due.get(fsid, 0)
            if int(fseq) != want:
                return 'stream %s: operation %d (%s) put the frame numbered %s on the wire where %d was due (operations so far: %s): a sequence number was consumed without a frame' % (
                    fsid, opi, op, fseq, want, ' '.join(ops[:opi + 1]))
            due[fsid] = want + 1
    return None


def c13_send_numbering(ctx, verdict):
    broken = []
    cases = c10s_gen(ctx, False)
    rc, log, impl, dt = c10s_run(ctx, [c[1] for c in cases], 'c13send')
    if rc != 0 or not impl:
        broken.append(('Go driver TestVerifC10Send (send path of a stream) failed to build or run', log[-3000:]))
        return broken
    fails = []
    for cid, line, meta in cases:
        io = impl.get(cid)
        if io is None:
            continue
        msg = c13s_oracle(line, meta, io)
        if not msg:
            # "data frames carry the written bytes in the order the writes were accepted": the content and
            # reuse clauses of the send-path oracle belong to C13 as well
            m2 = c10s_oracle(line, meta, io)
            if m2 and ('records on the connection carry' in m2 or 'used twice' in m2):
                msg = m2
        if msg:
            fails.append((len(line), cid, line, meta, io, msg))
    for _, cid, line, meta, io, msg in sorted(fails)[:1]:
        verdict.oracle_failure('send-gap', 'C13 oracle (send path of a stream): ' + msg,
                               dict(kind='window', driver='c13s', case=line, meta=meta, implementation=io,
                                    schedule=['real Session (method %d, %s, MsgOnWireSizeLimit %d) over a TLSConn over a recording connection; operations in order: %s' % (
                                        meta['method'], 'unordered' if meta['unordered'] else 'ordered', meta['limit'], ' '.join(line.split()[5:])),
                                        'per operation: <n>:<err>;<bytes written>:<record header ok>:<stream>.<seq>.<closing>.<payload> ...', io],
                                    how='python3 tools/check.py C13 --replay <this file>'))
    verdict.cov['send_path_numbering'] = dict(cases=len(cases), ran=len(impl), oracle_failures=len(fails), go_seconds=round(dt, 1),
                                              rule='the send-path cases of C10 (Write incl. writes split into 2..152 frames/ReadFrom incl. empty reads/obfuscateAndSend error branches/Close): per stream the frames on the wire are numbered 0,1,2,.. in emission order, no (stream, number) pair twice, and the data frames in that order carry exactly the written bytes')
    return broken


def c13s_replay(ctx, r):
    rc, log, impl, dt = c10s_run(ctx, [r['case']], 'replay')
    io = impl.get(r['case'].split()[0]) or ''
    print('case:          ', r['case']); print('implementation:', io)
    msg = c13s_oracle(r['case'], r['meta'], io) if io else 'driver failed ' + log[-400:]
    if not msg:
        m2 = c10s_oracle(r['case'], r['meta'], io)
        if m2 and ('records on the connection carry' in m2 or 'used twice' in m2):
            msg = m2
    print('oracle:', msg)
    return 1 if msg else 0


REPLAY['c13s'] = c13s_replay
