"""C08 - a captured handshake can never be replayed successfully."""
import os, json, threading
import vlib

PROP_FILES = ['Properties/C08']
EXTRA_OBLIGATION_FILES = ['Proofs/AtomReplay']
TRUSTED = [
    'atomic steps of the hand-written model as GENERATED obligations (Proofs/AtomReplay.v, re-proved on every run about coq/Gen/Atomicity.v; in a private re-generated copy under VERIF_EXTRA_OVERLAY): tools/lockscan (go/ast, syntactic types) is trusted to list, per function of internal/{server,multiplex,common,client}, every field access / call / sync/atomic operation with the critical sections (Lock..Unlock / RLock..RUnlock / deferred unlock, mutex identity by name) it lies in, every sync.Pool.Put with the later mentions of the object, and every variable a go statement shares with its spawner (anything it cannot resolve is in atomicity_errors, which must be empty); it does not follow calls (a region is what one function writes between Lock and Unlock), does no alias analysis, treats callbacks as running with no lock held, and counts call sites, not executions (a loop around one call site is invisible); who removes entries (AtomReplay/AtomPanel/AtomMux): the scanner distinguishes element stores (w), delete/clear (del), assignment of the whole field (set), address-of (addr) and the map being handed on as a value (val); a delete on a local map is recorded under the name of that local',
    'Coq 8.16.1 kernel incl. vm_compute (no native_compute); theorems of Properties/C08.v: Closed under the global context',
    'hand-written model coq/Model/Replay.v of registerRandom / UsedRandomCleaner / the order test-and-set -> decrypt in AuthFirstPacket / the window of decryptClientInfo (Go map modelled as an association list; time in integer ns)',
    'Section hypothesis sealed_block_binds (C08_at_most_once only): one sealed 64-byte block opens under at most one ephemeral value up to bit 255, and then yields one timestamp - rests on AES-GCM (nonce = bytes 0..11 of the random, key = X25519 shared secret); idealisation (collision chance ~2^-96), probed on every run by the sweep over all 256 single-bit variants and random multi-bit variants of a valid packet (only bit 255 may still authenticate); inhabited by a toy scheme (C08_at_most_once_inhabited)',
    'that X25519 ignores bit 255 of the public value is observed on the real code (the bit-255 variant authenticates on a fresh server) rather than proved about a ladder here; C08_bit255 proves that the cache key is invariant under that bit',
    'registerRandom is one atomic step: it runs under usedRandomM (checked by the -race run of N simultaneous presentations and by their outcome counts)',
    'correspondence: in-package Go driver harness/server/c08_test.go on the real State / AuthFirstPacket / UsedRandomCleaner goroutine under the virtual clock of testing/synctest (Go 1.24.2, GOEXPERIMENT=synctest), real ClientHellos from client.DirectTLS.Handshake (uTLS), vs the extracted OCaml model (ExtrOcamlBasic only), ocaml/c08_driver.ml; the abstract view of each packet (parses / 32-byte random / sealed block / opens with timestamp) is computed by the driver with the package\'s own processFirstPacket and AES-GCM',
    'Go runtime: map, sync.RWMutex, timers under synctest',
    'deterministic overlap (D: tokens): State.WorldState.Now is replaced by a function that parks the first caller coming from registerRandom; lock-out of the other presenters is read off runtime.Stack goroutine states inside the synctest bubble; a window that contains no clock read (e.g. between an RUnlock and a Lock) is NOT reachable through this seam and is only sampled by the N-goroutine histories and the -race run',
]
ASSUMPTIONS = [
    'the server clock does not run backwards (histories with non-decreasing times)',
    'the two reads of WorldState.Now in AuthFirstPacket (inside registerRandom, then for decryptClientInfo) fall into the same whole second - they are the same instant under the virtual clock; on a real clock they are microseconds apart and if they straddle a second boundary there is a theoretical 1-second gap 360..361 s after the sighting (Coq: C08_two_reads_gap), needing a client clock 181 s ahead and a clean-up inside that very second',
    'the server is not restarted (the replay memory is not persistent): "a running server"',
]

T0 = 946684800 * 10**9          # the synctest bubble starts at 2000-01-01 00:00:00 UTC
S = 10**9
TOL = 180 * S
PERIOD = 12 * 3600 * S


class Hist:
    """one history; tracks virtual time so that timestamps can be chosen relative to it"""

    def __init__(self, cid, start, kind):
        self.id, self.start, self.kind = cid, start, kind
        self.now = start
        self.toks = []
        self.npk = 0
        self.pk_meta = []      # per packet: dict(kind=..., base=index of the packet it derives from, bits=[...])
        self.times = []        # expected absolute time after each op

    def new(self, kind, ts=None):
        self.toks.append('N:%s' % kind if ts is None else 'N:%s:%d' % (kind, ts))
        self.pk_meta.append(dict(kind=kind, ts=ts, base=self.npk))
        self.npk += 1
        return self.npk - 1

    def var_bits(self, k, bits):
        self.toks.append('V:%d:r:%s' % (k, ','.join(map(str, bits))))
        self.pk_meta.append(dict(kind='rbits', base=self.pk_meta[k]['base'], bits=list(bits)))
        self.npk += 1
        return self.npk - 1

    def var_off(self, k, off, mask):
        self.toks.append('V:%d:o:%d:%02x' % (k, off, mask))
        self.pk_meta.append(dict(kind='off', base=self.pk_meta[k]['base'], off=off, mask=mask))
        self.npk += 1
        return self.npk - 1

    def var_ws(self, k):
        self.toks.append('V:%d:ws' % k)
        self.pk_meta.append(dict(kind='ws', base=self.pk_meta[k]['base']))
        self.npk += 1
        return self.npk - 1

    def var_tls(self, k):
        self.toks.append('V:%d:tls' % k)
        self.pk_meta.append(dict(kind='tls-repack', base=self.pk_meta[k]['base']))
        self.npk += 1
        return self.npk - 1

    def sleep(self, d):
        assert d >= 0
        self.toks.append('S:%d' % d)
        self.now += d
        self.times.append(self.now)

    def sleep_to(self, t):
        if t >= self.now:
            self.sleep(t - self.now)

    def present(self, k):
        self.toks.append('P:%d' % k)
        self.times.append(self.now)

    def conc(self, k, n):
        self.toks.append('C:%d:%d' % (k, n))
        self.times.append(self.now)

    def flood(self, k, n):
        """n first packets with distinct fresh randoms (packet k's bytes otherwise): refused, but remembered"""
        self.toks.append('F:%d:%d' % (k, n))
        self.times.append(self.now)

    def det(self, k, n):
        """n presentations overlapping deterministically: the first is parked inside registerRandom's clock read
        (WorldState.Now is the seam), the others are started meanwhile, then the first is released"""
        self.toks.append('D:%d:%d' % (k, n))
        self.times.append(self.now)

    def line(self):
        return '%s %d %s' % (self.id, self.start, ' '.join(self.toks))

    def ops(self):
        return [t for t in self.toks if t[0] in 'SPCDF']


def gen_histories(ctx):
    rng = ctx.rng
    hs = []
    cur = [T0 + 1000 * S]

    def begin(kind, phase=None):
        if phase is None:
            phase = rng.choice([0, 1, 999999999, rng.randrange(S)])
        start = (cur[0] // S + 1) * S + phase
        h = Hist('%s%d' % (kind, len(hs)), start, kind)
        hs.append(h)
        return h

    def end(h):
        cur[0] = h.now + 5 * S

    q = ctx.quick()
    # 1. random walks: presentations, replays, sleeps of every magnitude, several packets, clean-ups falling anywhere
    for _ in range(230 if q else 1500):
        h = begin('w')
        if rng.random() < 0.5:   # bring the first clean-up close
            h.sleep(PERIOD - rng.choice([10, 100, 200, 359, 360, 361, 400, 1000]) * S - rng.randrange(S))
        pk = []
        tr = rng.choice(['tls', 'ws', 'mixed'])         # transport of the history: TLS ClientHello / WebSocket Hidden header / both
        for _ in range(rng.randrange(3, 14)):
            r = rng.random()
            if r < 0.3 or not pk:
                off = rng.choice([0, 0, 1, -1, 100, -100, 179, -179, 180, -180, 181, -181, 178, 300, -300, 10**6])
                pk.append(h.new(tr if tr != 'mixed' else rng.choice(['tls', 'ws']), h.now // S + off))
                h.present(pk[-1])
            elif r < 0.6:
                k0 = rng.choice(pk)
                if tr == 'mixed' and rng.random() < 0.5:    # the captured credentials replayed through the other transport
                    k0 = h.var_ws(k0) if rng.random() < 0.5 else h.var_tls(k0)
                h.present(k0)
            else:
                d = rng.choice([0, 1, 999999999, S, 60 * S, 179 * S, 180 * S, 181 * S, 359 * S, 360 * S, 361 * S,
                                rng.randrange(400 * S), rng.randrange(PERIOD), PERIOD, PERIOD + 1, PERIOD - 1, 2 * PERIOD])
                if rng.random() < 0.3:   # land just before / on / after the next clean-up
                    nxt = h.start + ((h.now - h.start) // PERIOD + 1) * PERIOD
                    d = nxt - h.now + rng.choice([-2, -1, 0, 1, 2, S, -S])
                    d = max(d, 0)
                h.sleep(d)
        if pk:
            h.present(pk[0])
        end(h)
    # 2. the edge of the retention rule: sighting in second s, clean-up at (s+360) s + delta ns, timestamps at the
    #    edge of the window, with and without a refreshing replay in between
    deltas = [-1, 0, 1] if q else [-2, -1, 0, 1, 2, -S, S, -S + 1, S - 1]
    for delta in deltas:
        for frac in [0, 1, 500000000, 999999999]:
            for tsoff in [180, 179, 0, -179]:
                for refresh in ([0, 100] if q else [0, 1, 100, 359]):
                    h = begin('e', phase=delta % S)
                    clean = h.start + PERIOD
                    s = (clean - 360 * S - delta) // S         # second of the sighting
                    t = s * S + frac
                    if t < h.start:
                        hs.pop(); continue
                    h.sleep_to(t)
                    k = h.new(('tls', 'ws')[len(hs) % 2], s + tsoff)
                    h.present(k)
                    if refresh:
                        h.sleep(refresh * S)
                        h.present(k)
                    if clean - 1 > h.now:
                        h.sleep_to(clean - 1)
                        h.present(k)
                    h.sleep_to(clean)
                    h.present(k)
                    h.sleep(1)
                    h.present(k)
                    h.sleep(2 * S)
                    h.present(k)
                    end(h)
    # 3. F1 shape: present, clean-up right after, present again (clean-up 1 s / 1 ns / 100 s after the sighting)
    for gap in [1, S, 100 * S, 179 * S, 181 * S, 359 * S]:
        for tsoff in [0, 179, -179]:
            h = begin('f')
            h.sleep_to(h.start + PERIOD - gap)
            k = h.new(('tls', 'ws')[len(hs) % 2], h.now // S + tsoff)
            h.present(k)
            h.sleep(gap)
            h.present(k)
            h.sleep(S)
            h.present(k)
            end(h)
    # 4. N simultaneous presentations
    for n in (list(range(2, 65)) if not q else list(range(2, 65, 2)) + [63]):
        h = begin('c')
        k = h.new(('tls', 'ws')[n % 3 == 0], h.now // S + rng.choice([0, 10, -10]))
        h.conc(k, n)
        h.present(k)
        if n % 8 == 0:
            k2 = h.new(('ws', 'tls')[n % 3 == 0], h.now // S)
            h.present(k2)
            h.conc(k2, n)
        end(h)
    # 4b. the same, deterministically through the clock seam: the first presenter parked between lookup and
    #     insertion (inside registerRandom's clock read), the others arriving meanwhile; fresh packet / packet
    #     seen before / packet whose entry has been evicted; followed by a sequential presentation
    for n, trd in ((2, 'tls'), (3, 'ws'), (5, 'tls'), (9, 'ws'), (2, 'ws'), (3, 'tls')):
        for shape in ('fresh', 'seen', 'after-sleep'):
            h = begin('d')
            k = h.new(trd, h.now // S + rng.choice([0, 10, -10]))
            if shape == 'seen':
                h.present(k)
            if shape == 'after-sleep':
                h.present(k)
                h.sleep(PERIOD + 400 * S)      # the entry has been evicted, the timestamp is out of the window
            h.det(k, n)
            h.present(k)
            end(h)
    # 5. every single-bit variant of the 32-byte random; original first / variant first
    for order, trb in (('orig-first', 'tls'), ('var-first', 'tls'), ('orig-first', 'ws'), ('var-first', 'ws')):
        h = begin('b')
        k = h.new(trb, h.now // S)
        vs = [h.var_bits(k, [b]) for b in range(256)]
        if order == 'orig-first':
            h.present(k)
            for v in vs:
                h.present(v)
        else:
            h.present(vs[255])
            h.present(k)
            for v in vs[:255]:
                h.present(v)
            h.present(k)
        end(h)
    # 6. random multi-bit variants of the random, flips anywhere in the packet, the WebSocket re-packaging
    for _ in range(12 if q else 200):
        h = begin('m')
        k = h.new(('tls', 'ws')[len(hs) % 2], h.now // S + rng.choice([0, 50, -50]))
        vs = []
        for _ in range(12):
            r = rng.random()
            if r < 0.12:      # through the other transport, with or without bit 255 flipped there
                v = h.var_tls(k) if rng.random() < 0.5 else h.var_ws(k)
                vs.append(h.var_bits(v, [255]) if rng.random() < 0.5 else v)
                continue
            if r < 0.35:
                bits = sorted(set(rng.sample(range(256), rng.randrange(2, 6))) | ({255} if rng.random() < 0.6 else set()))
                if bits == [255]:
                    bits = [254, 255]
                vs.append(h.var_bits(k, bits))
            elif r < 0.5:
                vs.append(h.var_bits(k, [255]))
            elif r < 0.9:
                vs.append(h.var_off(k, rng.randrange(0, 520), 1 << rng.randrange(8)))
            else:
                vs.append(h.var_ws(k))
        first = rng.choice([k] + vs)
        h.present(first)
        for v in vs:
            h.present(v)
            if rng.random() < 0.2:
                h.sleep(rng.choice([1, S, 100 * S]))
        h.present(k)
        end(h)
    # 7. malformed stream: garbage, sealed block that does not open, mixed with valid ones
    for _ in range(10 if q else 100):
        h = begin('g')
        a = h.new('garbage')
        b = h.new('badtag', h.now // S)
        c = h.new('tls', h.now // S)
        d = h.new('wsbadtag', h.now // S)
        e = h.new('ws', h.now // S)
        for _ in range(10):
            h.present(rng.choice([a, b, c, d, e]))
            if rng.random() < 0.3:
                h.sleep(rng.choice([S, 200 * S, PERIOD]))
        end(h)
    # 7b. floods of distinct fresh randoms between a sighting and its replay, the cache size crossing every power of two
    #     up to 2^10 (+-1); the model follows packet by packet.  (The large ones, up to 2^17+1, run in their own process:
    #     big_floods.)
    for trs in (('tls',), ('ws',), ('tls', 'ws')):
        h = flood_history('F%d' % len(hs), (cur[0] // S + 1) * S + rng.choice([0, 1, 999999999]), rng, range(2, 11), trs, 'F')
        hs.append(h)
        end(h)
    # 8. captured on one transport, presented again on either transport, plain and with bit 255 of the random
    #    flipped THERE (the canonical cache key must not depend on which parser handled the packet), every order
    import itertools
    for cap in ('tls', 'ws'):
        for first, second in itertools.product(('same', 'other', 'same255', 'other255'), repeat=2):
            if first == second == 'same':
                continue
            h = begin('x')
            k = h.new(cap, h.now // S + rng.choice([0, 100, -100]))

            def form(f):
                v = k
                if f.startswith('other'):
                    v = h.var_ws(k) if cap == 'tls' else h.var_tls(k)
                if f.endswith('255'):
                    v = h.var_bits(v, [255])
                return v
            a, b = form(first), form(second)
            h.present(a)
            if rng.random() < 0.5:
                h.sleep(rng.choice([1, S, 100 * S]))
            h.present(b)
            h.present(k)
            end(h)
    return hs


def fold_flood(mo, ops):
    """the model presents a flood packet by packet: fold its observations into the driver's f<a>,<r>,<o>/<size>"""
    if mo is None or not any(t[0] == 'F' for t in ops):
        return mo
    toks = mo.split()
    out, i = [], 0
    for t in ops:
        if t[0] != 'F':
            out.append(toks[i] if i < len(toks) else '?'); i += 1
            continue
        n = int(t.split(':')[2])
        part = toks[i:i + n]; i += n
        cnt = {'a': 0, 'r': 0, 'o': 0}
        for x in part:
            cnt[x[0]] = cnt.get(x[0], 0) + 1
        out.append('f%d,%d,%d/%s' % (cnt['a'], cnt['r'], cnt['o'], part[-1].split('/')[1] if part else '?'))
    return ' '.join(out)


MAX_MODEL_FLOOD = 1100      # the model's cache is an association list: larger floods are judged by the oracle only


def flood_history(hid, start, rng, ks, transports, kind):
    """Staged flood: sightings G_0.. (accepted) at second T; from T+1 s on, floods of distinct fresh randoms that take the
    cache size across 2^k-1, 2^k, 2^k+1 for k in ks; after each stage ONE not yet replayed G is presented again (same
    packet, or its bit-255 copy, or through the other transport) - inside its window, so it must be refused; at the end
    (T+3 s) a new genuine packet is accepted once and only once, and every G is still refused."""
    h = Hist(hid, start, kind)
    targets = sorted(set(t for k in ks for t in (2**k - 1, 2**k, 2**k + 1)))
    gs = [h.new(transports[i % len(transports)], h.now // S + rng.choice([0, 60, 170, -170])) for i in range(len(targets) + 1)]
    for g in gs:
        h.present(g)
    size = len(gs)
    h.sleep(S)
    for i, c in enumerate(targets):
        if c > size:
            h.flood(gs[0], c - size)
            size = c
        g = gs[i]
        form = rng.choice(['same', 'same', '255', 'other'])
        if form == '255':
            g = h.var_bits(g, [255])
        elif form == 'other':
            g = h.var_ws(g) if h.pk_meta[g]['kind'] == 'tls' else h.var_tls(g)
        h.present(g)
        if i % 5 == 4:
            h.sleep(rng.choice([1, S // 10]))
    h.sleep(2 * S)
    n = h.new(transports[0], h.now // S)
    h.present(n); h.flood(n, 3); h.present(n)
    for g in gs:
        h.present(g)
    return h


DET_PATTERNS = {}     # history id -> {op index: per presenter P parked in the clock read | L waiting for a lock | F finished}


def parse_go(out_path):
    """-> {id: (facts tokens, [(obs, size, time)])}"""
    res = {}
    done = False
    if not os.path.exists(out_path):
        return res, done
    for ln in open(out_path):
        ln = ln.strip()
        if ln == '# done':
            done = True
        if ln.startswith('#det '):
            f = ln.split()
            DET_PATTERNS.setdefault(f[1], {})[int(f[2])] = f[3]
        if not ln or ln.startswith('#'):
            continue
        head, _, tail = ln.partition(' | ')
        hf = head.split()
        obs = []
        for tok in tail.split():
            o, _, t = tok.partition('@')
            ob, _, sz = o.partition('/')
            obs.append((ob, int(sz), int(t)))
        res[hf[0]] = (hf[1:], obs)
    return res, done


def model_line(h_id, start, facts, op_toks, mode=None):
    ks = []
    for f in facts:
        p = f.split(':')           # K:parses:random:ts:block
        ks.append('K:%s:%s:%s' % (p[1], p[2], p[3]))
    op_toks = [('C' + t[1:]) if t[0] == 'D' else t for t in op_toks]     # the model's step for both: C08_concurrent
    if any(t[0] == 'F' for t in op_toks):
        # a flood = that many presentations of packets that parse, do not authenticate and have distinct randoms
        out, ctr = [], 0
        for t in op_toks:
            if t[0] != 'F':
                out.append(t); continue
            for _ in range(int(t.split(':')[2])):
                ctr += 1
                ks.append('K:1:%016x%016xf1%030x:-' % (ctr, (1 << 64) - 1 - ctr, 0))
                out.append('P:%d' % (len(ks) - 1))
        op_toks = out
    return '%s %d %s%s %s' % (h_id, start, ('M:%s ' % mode) if mode else '', ' '.join(ks), ' '.join(op_toks))


def oracle(facts, op_toks, obs):
    """The property itself, on what the implementation did: packets carrying the same sealed block are accepted
    at most once in a history.  Returns None or (signature, message)."""
    block = [f.split(':')[4] for f in facts]
    acc = {}
    for i, (tok, (ob, sz, t)) in enumerate(zip(op_toks, obs)):
        p = tok.split(':')
        if p[0] == 'S':
            continue
        k = int(p[1])
        n = 1 if ob == 'a' else (int(ob[1:].split(',')[0]) if ob[0] in 'cf' else 0)
        if n == 0 or block[k] == '-':
            continue
        prev = acc.get(block[k], [])
        if prev or n > 1:
            first = prev[0] if prev else (i, k, t)
            same = (first[1] == k)
            what = ('sealed block %s.. accepted again: op #%d (%s, packet %d) at t=%d ns after op #%d (packet %d) at t=%d ns'
                    % (block[k][:16], i, tok, k, t, first[0], first[1], first[2])) if prev else \
                   (('%d of the simultaneous presentations %s were accepted at t=%d ns' % (n, tok, t)) if p[0] != 'D' else
                    ('%d of the %s overlapping presentations %s were accepted at t=%d ns (deterministic schedule: the first presenter is held inside the clock read of registerRandom, the others present the same packet meanwhile, then the first is released)' % (n, p[2], tok, t)))
            sig = 'replay-accepted:' + ('concurrent' if not prev and n > 1 else ('same-packet' if same else 'altered-copy'))
            return sig, what, first[0], i
        acc.setdefault(block[k], []).append((i, k, t))
    return None


def run_go(ctx, lines, tag, race=False):
    inp = '%s/%s.in' % (ctx.work, tag)
    out = '%s/%s.go.out' % (ctx.work, tag)
    open(inp, 'w').write('\n'.join(lines) + '\n')
    if os.path.exists(out):
        os.remove(out)
    rc, log, dt = vlib.go_test(ctx, 'server', 'TestVerifC08', files=['c08_test.go'], synctest=True, race=race,
                               env=dict(VERIF_IN=inp, VERIF_OUT=out), timeout=600)
    res, done = parse_go(out)
    return rc, log, res, done


def run_model_lines(ctx, lines, tag):
    inp = '%s/%s.model.in' % (ctx.work, tag)
    out = '%s/%s.model.out' % (ctx.work, tag)
    open(inp, 'w').write('\n'.join(lines) + '\n')
    rc, err = vlib.run_model('c08', inp, out)
    return rc, err, vlib.read_lines_by_id(out)


def check_case(ctx, line, tag):
    """run one history on the implementation; returns oracle result"""
    rc, log, res, done = run_go(ctx, [line], tag)
    cid = line.split()[0]
    if cid not in res:
        return None, None
    facts, obs = res[cid]
    ops = [t for t in line.split()[2:] if t[0] in 'SPCDF']
    return oracle(facts, ops, obs), res[cid]


def compact(line):
    """drop packet declarations no op (or kept variant) refers to and renumber"""
    f = line.split()
    head, toks = f[:2], f[2:]
    decl = [t for t in toks if t[0] in 'NV']
    ops = [t for t in toks if t[0] in 'SPCDF']
    used = set(int(t.split(':')[1]) for t in ops if t[0] in 'PCDF')
    for i in range(len(decl) - 1, -1, -1):          # a variant needs its base
        if i in used and decl[i][0] == 'V':
            used.add(int(decl[i].split(':')[1]))
    remap, nd = {}, []
    for i, d in enumerate(decl):
        if i in used:
            remap[i] = len(nd)
            if d[0] == 'V':
                p = d.split(':'); p[1] = str(remap[int(p[1])]); d = ':'.join(p)
            nd.append(d)
    no = []
    for t in ops:
        if t[0] in 'PCDF':
            p = t.split(':'); p[1] = str(remap[int(p[1])]); t = ':'.join(p)
        no.append(t)
    return ' '.join(head + nd + no)


def shrink(ctx, line, budget=8):
    """shrink a failing history: cut after the violating op, keep only the ops on that sealed block (and the
    sleeps), then delta-debug the rest; packet declarations stay until the end (timestamps are absolute)"""
    f = line.split()
    head, toks = f[:2], f[2:]
    decl = [t for t in toks if t[0] in 'NV']
    ops = [t for t in toks if t[0] in 'SPCDF']
    n = [0]

    def run(cand):
        n[0] += 1
        r, got = check_case(ctx, ' '.join(head + decl + cand), 'shrink%d' % n[0])
        return r, got

    def fails(cand):
        if n[0] >= budget:
            return False
        return run(cand)[0] is not None
    r, got = run(ops)
    if r is None:
        return line
    facts = got[0]
    block = [x.split(':')[4] for x in facts]
    ops = ops[:r[3] + 1]
    # the first acceptance, the sleeps after it, the violating op
    cand = [t for i, t in enumerate(ops) if i == r[2] or i == r[3] or t[0] == 'S']
    if len(cand) < len(ops) and fails(cand):
        ops = cand
    blk = block[int(ops[-1].split(':')[1])]
    cand = [t for t in ops if t[0] == 'S' or block[int(t.split(':')[1])] == blk]
    if len(cand) < len(ops) and fails(cand):
        ops = cand
    # merge adjacent sleeps
    merged = []
    for t in ops:
        if t[0] == 'S' and merged and merged[-1][0] == 'S':
            merged[-1] = 'S:%d' % (int(merged[-1][2:]) + int(t[2:]))
        else:
            merged.append(t)
    if len(merged) < len(ops) and fails(merged):
        ops = merged
    ops = vlib.ddmin(ops, fails, max_tests=budget)
    return compact(' '.join(head + decl + ops))


def shrink_flood(ctx, line, r=None):
    """first acceptance, then the sleeps and ONE merged flood per run of floods, then the violating presentation"""
    f = line.split()
    head, toks = f[:2], f[2:]
    decl = [t for t in toks if t[0] in 'NV']
    ops = [t for t in toks if t[0] in 'SPCDF']
    if r is None:
        return line
    first, viol = r[2], r[3]
    mid = []
    # the presentations that are dropped made cache entries too: the merged flood makes as many instead
    pad = len([t for t in ops[:first] + ops[first + 1:viol] if t[0] in 'PCD'])
    for t in ops[first + 1:viol]:
        if t[0] not in 'SF':
            continue
        if t[0] == 'F' and pad:
            a = t.split(':')
            t = 'F:%s:%d' % (a[1], int(a[2]) + pad)
            pad = 0
        if mid and mid[-1][0] == t[0] == 'S':
            mid[-1] = 'S:%d' % (int(mid[-1][2:]) + int(t[2:]))
        elif mid and mid[-1][0] == t[0] == 'F':
            a = mid[-1].split(':')
            mid[-1] = 'F:%s:%d' % (a[1], int(a[2]) + int(t.split(':')[2]))
        else:
            mid.append(t)
    return compact(' '.join(head + decl + [ops[first]] + mid + [ops[viol]]))


def big_floods(ctx, dense=False):
    """the large staged floods (cache size crossing 2^10 .. 2^17, +-1), each ~131 000 presentations of ~80 us"""
    import random
    rng = random.Random(ctx.seed * 7919 + 8)
    combos = [('ws', 'tls')] if (ctx.quick() and not dense) else [('ws', 'tls'), ('tls', 'ws'), ('ws',), ('tls',)]
    return [flood_history('FL%d' % i, T0 + (3000 + 200 * i) * S + rng.choice([0, 1, 999999999]), rng, range(10, 18), trs, 'F')
            for i, trs in enumerate(combos)]


def judge_floods(hs, impl):
    """-> (oracle failures [(h, (sig, what, i, j))], size errors [text], presentations)"""
    bad, sizes, total = [], [], 0
    for h in hs:
        if h.id not in impl:
            continue
        facts, obs = impl[h.id]
        ops = h.ops()
        r = oracle(facts, ops, obs)
        if r:
            bad.append((h, r))
        prev = 0
        for t, (ob, sz, _) in zip(ops, obs):
            if t[0] == 'F':
                n = int(t.split(':')[2]); total += n
                if sz != prev + n and not r:
                    sizes.append('%s: after %s the cache holds %d entries, %d before + %d distinct randoms presented' % (h.id, t, sz, prev, n))
            prev = sz
    return bad, sizes, total


def correspondence(ctx, verdict, pr):
    res = dict(broken=[])
    hs = []
    cdir = vlib.V + '/corpus/C08'
    corpus_lines = []
    if os.path.isdir(cdir):
        for fn in sorted(os.listdir(cdir)):
            corpus_lines.append(json.load(open(os.path.join(cdir, fn)))['line'])
    hs = gen_histories(ctx)
    # corpus cases are re-based after the generated ones (absolute start times must increase): they carry their own start
    lines = [h.line() for h in hs]
    byid = {h.id: h for h in hs}
    # the concurrent histories additionally under the race detector, in parallel with the main run
    race_out = {}

    def race_run():
        cl = [h.line() for h in hs if h.kind == 'c']
        race_out['r'] = run_go(ctx, cl, 'race', race=True)
    th = threading.Thread(target=race_run)
    th.start()
    # the large floods in their own process, alongside
    fl_hs = big_floods(ctx)
    flood_out = {}
    thf = threading.Thread(target=lambda: flood_out.update(r=run_go(ctx, [h.line() for h in fl_hs], 'flood')))
    thf.start()
    rc, log, impl, done = run_go(ctx, lines, 'cases')
    if rc != 0 or not done:
        res['broken'].append(('Go driver TestVerifC08 failed to build or run (rc=%d, finished=%s)' % (rc, done), log[-3000:]))
    # corpus: each as its own process (own bubble, own absolute times)
    for i, cl in enumerate(corpus_lines):
        r, got = check_case(ctx, cl, 'corpus%d' % i)
        if r:
            verdict.oracle_failure(r[0], 'C08 oracle (corpus case): ' + r[1], dict(case=cl, implementation=got))
    # model on the same histories, fed with the observed abstract packets
    mlines = []
    for h in hs:
        if h.id in impl:
            mlines.append(model_line(h.id, h.start, impl[h.id][0], h.ops()))
    mrc, merr, model = run_model_lines(ctx, mlines, 'cases')
    if mrc != 0:
        res['broken'].append(('extracted model c08 failed', (merr or '')[-2000:]))
    mism, time_mism, orc, bind_viol = [], [], 0, []
    kinds, outcomes_seen = [], {}
    nsteps = 0
    for h in hs:
        kinds.append(h.kind)
        if h.id not in impl:
            continue
        facts, obs = impl[h.id]
        ops = h.ops()
        nsteps += len(ops)
        for (ob, sz, t) in obs:
            outcomes_seen[ob[0]] = outcomes_seen.get(ob[0], 0) + 1
        # 1. the clock of the harness is the clock of the generator
        if [o[2] for o in obs] != h.times:
            time_mism.append((h.id, h.line()))
        # 2. oracle (property text)
        r = oracle(facts, ops, obs)
        if r:
            orc += 1
            if orc <= 2:
                small = shrink(ctx, h.line())
                r2, got = check_case(ctx, small, 'confirm')
                if not r2:
                    small, r2, got = h.line(), r, impl[h.id]
                verdict.oracle_failure(r2[0], 'C08 oracle: ' + r2[1],
                                       dict(case=small, original_case=h.line() if small != h.line() else None, implementation=got,
                                            how='python3 tools/check.py C08 --replay <this file>  (runs the history on the real State under synctest)'))
        # 3. sealed_block_binds probe: variants of the random other than bit 255 alone must not open the same block
        for k, (f, m) in enumerate(zip(facts, h.pk_meta)):
            p = f.split(':')
            if m['kind'] == 'rbits' and m['bits'] != [255] and p[3] != '-':
                bind_viol.append((h.id, k, m['bits']))
            if m['kind'] == 'rbits' and m['bits'] == [255] and p[3] == '-':
                bind_viol.append((h.id, k, 'bit 255 variant does not authenticate'))
        # 4. model == implementation
        mo = fold_flood(model.get(h.id), ops)
        io = ' '.join('%s/%d' % (o[0], o[1]) for o in obs)
        if mo is not None and mo != io:
            mism.append((h.id, h.line(), io, mo))
    th.join()
    rrc, rlog, rimpl, rdone = race_out.get('r', (1, 'race run did not start', {}, False))
    if rrc != 0 or not rdone:
        if 'DATA RACE' in rlog:
            res['broken'].append(('race detector: data race during simultaneous presentations', rlog[rlog.find('DATA RACE') - 50:][:3000]))
        else:
            res['broken'].append(('Go driver TestVerifC08 under -race failed (rc=%d)' % rrc, rlog[-3000:]))
    for h in hs:
        if h.kind == 'c' and h.id in rimpl:
            r = oracle(rimpl[h.id][0], h.ops(), rimpl[h.id][1])
            if r:
                orc += 1
                verdict.oracle_failure(r[0], 'C08 oracle (-race run): ' + r[1], dict(case=h.line(), implementation=rimpl[h.id]))
                break
    thf.join()
    frc, flog, fimpl, fdone = flood_out.get('r', (1, 'flood run did not start', {}, False))
    if frc != 0 or not fdone:
        res['broken'].append(('Go driver TestVerifC08 (large floods) failed (rc=%d)' % frc, flog[-3000:]))
    fbad, fsizes, fpres = judge_floods(fl_hs, fimpl)
    for h, r in fbad[:1]:
        orc += 1
        small = shrink_flood(ctx, h.line(), r)
        r2, got = check_case(ctx, small, 'confirm_flood')
        if not r2:
            small, r2, got = h.line(), r, fimpl[h.id]
        verdict.oracle_failure(r2[0], 'C08 oracle (flood of distinct fresh randoms between a sighting and its replay): ' + r2[1],
                               dict(case=small if len(small) < 4000 else small[:4000] + ' ...', original_case=h.line()[:3000], implementation=str(got)[:3000],
                                    how='python3 tools/check.py C08 --replay <this file>'))
    if fsizes:
        res['broken'].append(('replay memory does not remember every first packet (model: registerRandom inserts unconditionally)', '\n'.join(fsizes[:5])))
    if bind_viol:
        res['broken'].append(('hypothesis sealed_block_binds contradicted by the implementation', repr(bind_viol[:5])))
    if time_mism and rc == 0:
        res['broken'].append(('virtual clock of the harness differs from the generator\'s in %d histories' % len(time_mism), time_mism[0][1][:1500]))
    if mism and rc == 0 and mrc == 0:
        cid, line, io, mo = min(mism, key=lambda m: len(m[1]))
        res['broken'].append(('model Replay.v vs real State/AuthFirstPacket/UsedRandomCleaner: %d of %d histories differ' % (len(mism), len(hs)),
                              'smallest differing history: %s\nimplementation: %s\nmodel:          %s' % (line[:3000], io[:1500], mo[:1500])))
        ctx.mismatch = (cid, line)
    distinct = set(' '.join(t for t in h.toks) + str(h.start % S) for h in hs if len(h.ops()) >= 2)
    verdict.cov.update(
        evaluations=len(hs), distinct_nontrivial=len(distinct), steps=nsteps,
        rule='seeded histories on the real State under virtual time: random walks (presentations / replays / sleeps 0 ns..24 h, clean-ups at every phase), the retention edge (sighting second s, clean-up at (s+360) s + {-1,0,+1} ns x sub-second phase x timestamp offset +180/+179/0/-179 x refreshing replay), F1 shape, N=2..64 simultaneous presentations (also under -race) and N=2..9 presentations overlapping deterministically through the clock seam (first presenter held between lookup and insertion), all 256 single-bit variants of the random (both orders), random multi-bit / whole-packet flips, malformed stream - every family on BOTH transports (TLS ClientHello and WebSocket Hidden header) and across them (captured on one, presented again on the other, with and without bit 255 flipped there, every order). distinct = distinct token lists with >= 2 ops',
        samples=[hs[0].line()[:300], [h for h in hs if h.kind == 'e'][0].line()[:300], [h for h in hs if h.kind == 'c'][0].line()[:300]],
        traces_validated_against_impl=len(impl), mismatches=len(mism), oracle_failures=orc,
        input_distribution=dict(kinds=vlib.summarize_dist(kinds), outcomes=outcomes_seen), corpus_cases=len(corpus_lines),
        race_run=dict(histories=len(rimpl), rc=rrc), exhaustive=False,
        large_floods=dict(histories=len(fimpl), presentations=fpres, what='sightings, then floods of distinct fresh randoms taking the cache across 2^k-1, 2^k, 2^k+1 for k=10..17 with a not yet replayed sighting presented again after every stage (same packet / bit-255 copy / other transport), then a new sighting; oracle only (the model follows the small ones, k<=10, packet by packet)'),
        deterministic_overlap=dict(histories=len([h for h in hs if h.kind == 'd']),
                                   what='D:<k>:<n>: the first presenter is parked inside the clock read of registerRandom (State.WorldState.Now is the seam; in the unchanged code it holds usedRandomM there), n-1 further presentations of the same packet are started meanwhile and watched until finished or waiting for a lock, then the first is released; patterns per presenter before the release (P parked, L waiting for the lock, F finished)',
                                   patterns=vlib.summarize_dist([p for d in DET_PATTERNS.values() for p in d.values()])))
    return res


def search(ctx, verdict, problems):
    """proof or correspondence broken and the seeded histories showed no property failure: try the model's own
    counter-example shapes (F1, retention edge, bit 255, concurrency) in isolation, densely."""
    found = False
    base = T0 + 5 * S
    cands = []
    for gap in [1, S, 100 * S, 181 * S, 359 * S]:
        h = Hist('srch%d' % len(cands), base, 'f')
        h.sleep_to(h.start + PERIOD - gap)
        k = h.new('tls', h.now // S + 179)
        h.present(k); h.sleep(gap); h.present(k); h.sleep(S); h.present(k)
        cands.append(h)
    for trb in ('tls', 'ws'):
        h = Hist('srchb' + trb, base, 'b')
        k = h.new(trb, h.now // S); v = h.var_bits(k, [255]); h.present(k); h.present(v)
        o = h.var_ws(k) if trb == 'tls' else h.var_tls(k)
        h.present(o); h.present(h.var_bits(o, [255]))
        cands.append(h)
    # deterministic overlap first (clock seam), then the statistical one
    for n in (2, 3, 8):
        h = Hist('srchd%d' % n, base, 'd')
        k = h.new('tls', h.now // S)
        h.det(k, n); h.present(k)
        cands.append(h)
    for n in (2, 8, 64):
        h = Hist('srchc%d' % n, base, 'c')
        k = h.new('tls', h.now // S)
        for _ in range(1):
            h.conc(k, n)
        cands.append(h)
    for h in cands:
        r, got = check_case(ctx, h.line(), 'search_' + h.id)
        if r:
            verdict.oracle_failure(r[0], 'C08 oracle (search): ' + r[1], dict(case=h.line(), implementation=got))
            found = True
            break
    if not found:
        # cache pressure: staged floods of distinct fresh randoms between sightings and their replays (2^10 .. 2^17, +-1)
        fl = big_floods(ctx, dense=True)
        rc, log, res, done = run_go(ctx, [h.line() for h in fl], 'search_flood')
        fbad, fsizes, fpres = judge_floods(fl, res)
        for h, r in fbad[:1]:
            small = shrink_flood(ctx, h.line(), r)
            r2, got = check_case(ctx, small, 'search_flood_confirm')
            if not r2:
                small, r2, got = h.line(), r, res[h.id]
            verdict.oracle_failure(r2[0], 'C08 oracle (search, flood of distinct fresh randoms between a sighting and its replay): ' + r2[1],
                                   dict(case=small[:4000], original_case=h.line()[:3000], implementation=str(got)[:3000]))
            found = True
        ctx.notes.append('search: %d large flood histories, %d presentations, %d oracle failures' % (len(fl), fpres, len(fbad)))
    if not found:
        # a window the clock seam does not reach (no clock read inside it) can only be hit by chance: many
        # batches of simultaneous presentations, plain and under the race detector (which changes the timing)
        batch = []
        t = base + 100 * S
        for i in range(60):
            h = Hist('srchs%d' % i, t, 'c')
            k = h.new('tls', h.now // S)
            h.conc(k, [2, 3, 4, 8, 16, 32, 64][i % 7]); h.present(k)
            batch.append(h); t = h.now + 5 * S
        for race in (False, True):
            rc, log, res, done = run_go(ctx, [h.line() for h in batch], 'search_batch%d' % race, race=race)
            for h in batch:
                if h.id in res:
                    r = oracle(res[h.id][0], h.ops(), res[h.id][1])
                    if r:
                        verdict.oracle_failure(r[0], 'C08 oracle (search, %d simultaneous goroutines%s): %s' % (int(h.ops()[0].split(':')[2]), ', -race' if race else '', r[1]),
                                               dict(case=h.line(), implementation=res[h.id], note='statistical: found in a batch of 60 simultaneous presentations'))
                        found = True
                        break
            if found:
                break
    return found


def replay(ctx, verdict):
    r = ctx.replay
    line = r.get('case')
    if not line:
        print(json.dumps(r, indent=1)); return 0
    res, got = check_case(ctx, line, 'replay')
    print('history:', line)
    print('implementation:', got)
    if got:
        ops = [t for t in line.split()[2:] if t[0] in 'SPCDF']
        mrc, merr, model = run_model_lines(ctx, [model_line(line.split()[0], int(line.split()[1]), got[0], ops)], 'replay')
        print('model:         ', model.get(line.split()[0]))
    print('oracle:', res)
    return 1 if res else 0


MANIFEST = dict(
    technique='Coq proof by invariant over all histories (presentations, replays, clean-ups, any times) and all schedules of a hand-written model of the replay memory; model tied to the real State/AuthFirstPacket/UsedRandomCleaner by differential execution under a virtual clock (testing/synctest), race detector for the atomicity claim',
    level_text='C08_cache_sound / C08_cache_at_most_one: proved in Coq for every history with a non-decreasing clock - any number of packets, presentations, refreshing replays and clean-ups at arbitrary nanosecond times: once a packet is accepted, every later presentation with the same (bit-255-masked) cache key is ErrReplay for as long as its timestamp is inside the window (invariant: entry present with stored second s and ts <= s+180, or window closed). C08_concurrent: for every schedule of N threads exactly one is told "new". C08_bit255: the cache key ignores bit 255. C08_at_most_once lifts this to "same sealed block" under the named hypothesis sealed_block_binds. Refutations document the two fixed defects (pre-fix cleaner condition, raw cache key), that 1 x tolerance is not enough, and what the lock is for. On every run ~400 seeded histories (retention edge at +-1 ns, 12 h sleeps, N=2..64 goroutines also under -race, all 256 single-bit variants, multi-bit / whole-packet variants, WebSocket re-packaging) are executed on the real code with the real cleaner goroutine under virtual time and compared step by step (outcome and cache size) with the extracted model; an independent oracle counts acceptances per sealed block.',
    level_note='Trusted: Coq kernel; extraction; synctest; sealed_block_binds (cryptographic idealisation, probed by the variant sweeps); single clock read per presentation (see assumptions); X25519 ignoring bit 255 is observed, not proved.',
    design_ref='DESIGN.md section 6, C08; findings F1, F2 (both fixed in /repo, reverts kept in seeded/fixed_replay_*)')
