"""C15 - connections join the right session; the per-user session cap is never exceeded."""
import os, json, re
import vlib
from props import panellib

panellib.refresh_gen()

PROP_FILES = ['Properties/C15']
EXTRA_OBLIGATION_FILES = ['Proofs/AtomPanel', 'Proofs/LockOrder', 'Proofs/PanelLocks', 'Proofs/PanelWF', 'Proofs/PanelOwn',
                          'Proofs/PanelC15', 'Proofs/PanelRefute', 'Extract/C15']
TRUSTED = [
    'atomic steps of the hand-written model as GENERATED obligations (Proofs/AtomPanel.v, re-proved on every run about coq/Gen/Atomicity.v; in a private re-generated copy under VERIF_EXTRA_OVERLAY): tools/lockscan (go/ast, syntactic types) is trusted to list, per function of internal/{server,multiplex,common,client}, every field access / call / sync/atomic operation with the critical sections (Lock..Unlock / RLock..RUnlock / deferred unlock, mutex identity by name) it lies in, every sync.Pool.Put with the later mentions of the object, and every variable a go statement shares with its spawner (anything it cannot resolve is in atomicity_errors, which must be empty); it does not follow calls (a region is what one function writes between Lock and Unlock), does no alias analysis, treats callbacks as running with no lock held, and counts call sites, not executions (a loop around one call site is invisible); who removes entries (AtomReplay/AtomPanel/AtomMux): the scanner distinguishes element stores (w), delete/clear (del), assignment of the whole field (set), address-of (addr) and the map being handed on as a value (val); a delete on a local map is recorded under the name of that local',
    'Coq 8.16.1 kernel incl. vm_compute; all C15 theorems: Closed under the global context',
    'hand-written LTS coq/Model/Panel.v (GetSession = one atomic lookup-or-authorise-and-create step under sessionsM: generated obligation C15_sessions_guarded_by_sessionsM, re-proved from the Go source by tools/lockscan on every run); the session key is modelled as the identity of the session (dispatcher.go seals the reply with sesh.GetSessionKey() of the joined session; the fresh key is only used by MakeSession on creation)',
    'correspondence: harness/server/c15_test.go - batches of 2..32 simultaneous REAL handshakes (client.DirectTLS.Handshake, real ClientHello, real reply decryption) against the real dispatchConnection, real userPanel, real localManager on bolt, admin changes through the real API router, run with -race; compared with the extracted model (ocaml/c15_driver.ml) executing the same connections one after the other: NumSession per user after every phase',
    'the model is sequential per batch: theorems quantify over all interleavings, the comparison only uses order-independent observables',
]
ASSUMPTIONS = ['closures of a user\'s last session concurrent with a new connection are excluded by the property (C17\'s race); batches and closures alternate',
               'the cap is per ActiveUser record; with finding F5 a user can have two records (see C17)']

BIG = 10**9


class Tracker:
    """what the generator knows for sure about each user (independent of model and implementation)"""
    def __init__(self, users):
        self.u = {}
        for e in users:
            self.u[e['uid']] = dict(cap=e.get('cap', BIG), up=e.get('up', BIG), down=e.get('down', BIG), exp=e.get('exp', BIG), exists=not e.get('bypass'),
                                    bypass=bool(e.get('bypass')), live=set(), count=0, contested=set(), nextsid=1)
        self.now = 1000

    def ok(self, uid):
        x = self.u[uid]
        if x['bypass']:
            return True
        return x['exists'] and x['up'] > 0 and x['down'] > 0 and x['exp'] >= self.now

    def capr(self, uid):
        x = self.u[uid]
        return BIG if x['bypass'] else x['cap'] % 2**32


def gen_scenario(rng, idx):
    nusers = rng.choice([1, 2, 2, 3])
    users = []
    for i in range(nusers):
        users.append(dict(uid=i + 1, cap=rng.choice([0, 1, 1, 2, 2, 3, 4]), up=BIG, down=BIG, exp=2000))
    if rng.random() < 0.4:
        users.append(dict(uid=9, bypass=True))
    tr = Tracker(users)
    ustr = ','.join(('b%d' % e['uid']) if e.get('bypass') else '%d:%d:%d:%d:%d' % (e['uid'], e['cap'], e['up'], e['down'], e['exp'])
                    for e in users)
    phases = []
    expect = []     # per phase: dict(pairs=[(uid,sid,n,kind)], table_max={uid:...})
    uids = [e['uid'] for e in users]
    for _ in range(rng.choice([5, 7, 9])):
        r = rng.random()
        if r < 0.6 or not phases:
            npairs = rng.choice([1, 1, 2, 3])
            total = rng.choice([2, 3, 4, 6, 8, 12, 16, 24, 32])
            pairs = []
            used = set()
            newcount = {}
            for _ in range(npairs):
                uid = rng.choice(uids)
                x = tr.u[uid]
                if x['live'] and rng.random() < 0.4:
                    sid = rng.choice(sorted(x['live'])); kind = 'join'
                else:
                    sid = x['nextsid']; x['nextsid'] += 1; kind = 'new'
                if (uid, sid) in used:
                    continue
                used.add((uid, sid))
                pairs.append([uid, sid, 0, kind])
                if kind == 'new':
                    newcount[uid] = newcount.get(uid, 0) + 1
            for i in range(total):
                pairs[i % len(pairs)][2] += 1
            pairs = [p for p in pairs if p[2] > 0]
            ex = []
            for uid, sid, n, kind in pairs:
                x = tr.u[uid]
                if kind == 'join':
                    ex.append((uid, sid, n, 'all'))        # an existing session is joined whatever the credit
                elif not tr.ok(uid):
                    ex.append((uid, sid, n, 'none'))
                    x['contested'].add(sid)
                elif x['count'] + newcount[uid] <= tr.capr(uid):
                    ex.append((uid, sid, n, 'all'))
                else:
                    ex.append((uid, sid, n, 'maybe'))
            for uid, sid, n, kind in pairs:
                x = tr.u[uid]
                if kind != 'new' or not tr.ok(uid):
                    continue
                if x['count'] + newcount[uid] <= tr.capr(uid):
                    x['live'].add(sid)
                else:
                    x['contested'].add(sid)
            for uid, m in newcount.items():
                if tr.ok(uid):
                    tr.u[uid]['count'] = min(max(tr.capr(uid), tr.u[uid]['count']), tr.u[uid]['count'] + m)
            phases.append('H' + ','.join('%d.%dx%d' % (p[0], p[1], p[2]) for p in pairs))
            expect.append(dict(kind='H', pairs=ex))
        elif r < 0.75:
            cands = [u for u in uids if tr.u[u]['live']]
            if not cands:
                continue
            uid = rng.choice(cands)
            sid = rng.choice(sorted(tr.u[uid]['live']))
            tr.u[uid]['live'].discard(sid); tr.u[uid]['count'] -= 1
            phases.append('E%d.%d' % (uid, sid)); expect.append(dict(kind='E'))
        elif r < 0.92:
            lim = [u for u in uids if not tr.u[u]['bypass']]
            uid = rng.choice(lim)
            x = tr.u[uid]
            k = rng.choice(['cap', 'cap', 'credit', 'exp', 'del', 'topup'])
            if k == 'cap':
                x['cap'] = rng.choice([0, 1, 2, 3, 4]); x['exists'] = True
                phases.append('Aw%d.c%d' % (uid, x['cap']))
            elif k == 'credit':
                f = rng.choice(['u', 'd']); x['up' if f == 'u' else 'down'] = 0; x['exists'] = True
                phases.append('Aw%d.%s0' % (uid, f))
            elif k == 'topup':
                x['up'] = BIG; x['down'] = BIG; x['exp'] = max(x['exp'], tr.now + 1000)
                if not x['exists']:
                    x['cap'] = 0
                x['exists'] = True
                phases.append('Aw%d.u%d.d%d.e%d' % (uid, BIG, BIG, x['exp']))
            elif k == 'exp':
                x['exp'] = rng.choice([tr.now - 1, tr.now + 5000]); x['exists'] = True
                phases.append('Aw%d.e%d' % (uid, x['exp']))
            else:
                x['exists'] = False; x['cap'] = 0; x['up'] = 0; x['down'] = 0; x['exp'] = 0
                phases.append('Ad%d' % uid)
            expect.append(dict(kind='A'))
        else:
            d = rng.choice([10, 1500])
            tr.now += d
            phases.append('K%d' % d); expect.append(dict(kind='K'))
    return dict(id='s%d' % idx, users=ustr, phases=phases, expect=expect,
                caps={e['uid']: e.get('cap', BIG) for e in users})


def model_line(sc):
    steps = []
    bounds = []
    for ph in sc['phases']:
        if ph[0] == 'H':
            for e in ph[1:].split(','):
                pair, n = e.split('x')
                steps += ['D' + pair] * int(n)
        else:
            steps.append(ph)
        bounds.append(len(steps) - 1)
    return '%s 00 1000 %s - %s' % (sc['id'], sc['users'], ' '.join(steps)), bounds


def parse_h(tok):
    """'[1.1:a4:k0:n0;...;w0|1=1,2=-]' -> (pairs{name:(ans,[keys],refused)}, redirects, table)"""
    body, table = tok[1:-1].split('|')
    pairs = {}
    red = 0
    for e in body.split(';'):
        if not e:
            continue
        if e[0] == 'w':
            red = int(e[1:]); continue
        name, a, k, n = e.split(':')
        pairs[name] = (int(a[1:]), [int(x) for x in k[1:].split('+') if x != ''], int(n[1:]))
    return pairs, red, table


def oracle(sc, obs_tokens):
    """The property's own predicate on what the implementation did.  Returns list of (signature, message)."""
    bad = []
    keyof = {}      # key id -> pair name
    lastkey = {}    # pair -> key id while we know the session lived on
    caps = dict(sc['caps'])
    prev_table = {}
    if len(obs_tokens) != len(sc['phases']):
        return [('driver:observation-count', 'expected %d observations, got %d' % (len(sc['phases']), len(obs_tokens)))]
    for ph, ex, tok in zip(sc['phases'], sc['expect'], obs_tokens):
        if ph[0] == 'A' and ph[1] == 'w':
            m = re.search(r'\.c(\d+)', ph)
            if m:
                caps[int(ph[2:].split('.')[0])] = int(m.group(1))
        pairs, red, table = parse_h(tok)
        tab = {}
        for e in table.split(','):
            u, v = e.split('=')
            tab[int(u)] = 0 if v == '-' else int(v)
        if ph[0] == 'H':
            for uid, sid, n, want in ex['pairs']:
                name = '%d.%d' % (uid, sid)
                ans, keys, ref = pairs.get(name, (0, [], n))
                if len(keys) > 1:
                    bad.append(('two-keys-for-one-session-id', 'phase %s: connections presenting (uid %d, session id %d) were given %d different session keys' % (ph, uid, sid, len(keys))))
                for k in keys:
                    if k in keyof and keyof[k] != name:
                        bad.append(('session-shared', 'phase %s: %s and %s were given the same session key' % (ph, name, keyof[k])))
                    keyof[k] = name
                if want == 'all' and ans != n:
                    bad.append(('not-answered', 'phase %s: %d of %d connections for %s were answered, all should have been' % (ph, ans, n, name)))
                if want == 'none' and ans != 0:
                    bad.append(('session-without-credit', 'phase %s: %d connections for %s were answered although the user is exhausted, expired or deleted' % (ph, ans, name)))
                if want == 'all' and keys and name in lastkey and lastkey[name] != keys[0]:
                    bad.append(('key-changed', 'phase %s: %s joined a live session but got key %d, earlier connections had key %d' % (ph, name, keys[0], lastkey[name])))
                if keys:
                    lastkey[name] = keys[0]
        if ph[0] == 'E':
            lastkey.pop(ph[1:], None)
        for u, v in tab.items():
            if u in caps and caps[u] < BIG and v > max(caps[u], prev_table.get(u, 0)):
                bad.append(('cap-exceeded', 'after phase %s user %d has %d sessions, cap %d (had %d before)' % (ph, u, v, caps[u], prev_table.get(u, 0))))
        prev_table = tab
    return bad


def correspondence(ctx, verdict, pr):
    res = dict(broken=[])
    gen = panellib.check_generated_obligations(ctx)
    if gen['error']:
        res['broken'].append(('generated obligation about the lock graph / guarded-by sets (Proofs/LockOrder.v)', gen['error']))
    rng = ctx.rng
    nsc = 40 if ctx.quick() else 400
    scs = []
    cdir = vlib.V + '/corpus/C15'
    if os.path.isdir(cdir):
        for fn in sorted(os.listdir(cdir)):
            scs.append(json.load(open(os.path.join(cdir, fn))))
    ncorpus = len(scs)
    scs += [gen_scenario(rng, i) for i in range(nsc)]
    lines = ['%s 1000 %s %s' % (sc['id'], sc['users'], ' '.join(sc['phases'])) for sc in scs]
    rc, log, out, dt = panellib.run_go(ctx, lines, 'cases', test='TestVerifC15', files=('c15_test.go', 'c17_common_test.go'), race=True)
    go = panellib.parse_go(out)
    race = 'DATA RACE' in log
    if rc != 0 or not go['obs']:
        detail = log[-3000:]
        if race:
            i = log.find('WARNING: DATA RACE')
            detail = log[i:i + 3000]
        res['broken'].append(('Go driver TestVerifC15 failed (race detector: %s)' % ('DATA RACE reported' if race else 'no report'), detail))
    mls = []; bounds = {}
    for sc in scs:
        ln, b = model_line(sc)
        mls.append(ln); bounds[sc['id']] = b
    mrc, merr, model = panellib.run_model(ctx, mls, 'cases', name='c15')
    if mrc != 0:
        res['broken'].append(('extracted model c15 failed', merr[-2000:]))
    mism = []
    orc = 0
    nconn = 0
    dist = dict(H=0, E=0, A=0, K=0, contested=0, refused_by_credit=0, batch_sizes={})
    reported = {}
    for sc in scs:
        io = go['obs'].get(sc['id'])
        if io is None:
            continue
        toks = io.split(' ')
        for ph, ex in zip(sc['phases'], sc['expect']):
            dist[ph[0]] = dist.get(ph[0], 0) + 1
            if ph[0] == 'H':
                n = sum(p[2] for p in ex['pairs']); nconn += n
                dist['batch_sizes'][n] = dist['batch_sizes'].get(n, 0) + 1
                dist['contested'] += sum(1 for p in ex['pairs'] if p[3] == 'maybe')
                dist['refused_by_credit'] += sum(1 for p in ex['pairs'] if p[3] == 'none')
        for sig, msg in oracle(sc, toks):
            orc += 1
            reported[sig] = reported.get(sig, 0) + 1
            if reported[sig] <= 2:
                verdict.oracle_failure(sig + ':' + sc['id'], 'C15 oracle: ' + msg,
                                       dict(case=dict(id=sc['id'], users=sc['users'], phases=sc['phases'], expect=sc['expect'], caps=sc['caps']),
                                            implementation=io, how='python3 tools/check.py C15 --replay <this file>'))
        mo = model.get(sc['id'])
        if mo is not None:
            mt = panellib.split_obs(mo)
            it = [t[1:-1].split('|')[1] for t in toks]
            mtab = [mt[b][1] if b < len(mt) else '?' for b in bounds[sc['id']]]
            if mtab != it:
                k = next(i for i in range(min(len(mtab), len(it))) if mtab[i] != it[i]) if len(mtab) == len(it) else -1
                mism.append((sc, k, it, mtab))
    if mism and rc == 0 and mrc == 0:
        sc, k, it, mtab = min(mism, key=lambda m: len(m[0]['phases']))
        res['broken'].append(('model Panel.v vs real dispatcher/panel: NumSession differs in %d of %d scenarios' % (len(mism), len(scs)),
                              'scenario %s users %s phases %s\nfirst difference after phase %d (%s)\nimplementation: %s\nmodel:          %s' % (
                                  sc['id'], sc['users'], ' '.join(sc['phases']), k, sc['phases'][k] if k >= 0 else '-', it, mtab)))
    verdict.cov.update(
        evaluations=len(scs), distinct_nontrivial=len(set(' '.join(sc['phases']) + sc['users'] for sc in scs)),
        rule='distinct (users, phase list); each scenario = 5..9 phases: batches of 2..32 simultaneous real handshakes for 1..3 (uid, sid) pairs (joins of live sessions, new sessions within and beyond the cap), session endings, cap / credit / expiry edits and deletions through the API router, clock jumps; caps 0..4, 1..3 limited users, optional bypass user',
        samples=lines[ncorpus:ncorpus + 2], traces_validated_against_impl=len(go['obs']), mismatches=len(mism), oracle_failures=orc,
        input_distribution=dict(phases={k: v for k, v in dist.items() if k != 'batch_sizes'}, batch_sizes=dist['batch_sizes'],
                                real_handshakes=nconn),
        corpus_cases=ncorpus, exhaustive=False, go_driver_seconds=round(dt, 1), race_detector='on; %s' % ('DATA RACE reported' if race else 'clean'))
    return res


def replay(ctx, verdict):
    r = ctx.replay
    sc = r.get('case')
    if not isinstance(sc, dict):
        print(json.dumps(r, indent=1)[:3000]); return 0
    line = '%s 1000 %s %s' % (sc['id'], sc['users'], ' '.join(sc['phases']))
    rc, log, out, dt = panellib.run_go(ctx, [line], 'replay', test='TestVerifC15', files=('c15_test.go', 'c17_common_test.go'), race=True)
    go = panellib.parse_go(out)
    io = go['obs'].get(sc['id'], '')
    print('scenario:      ', line); print('implementation:', io)
    if 'DATA RACE' in log:
        print(log[log.find('WARNING: DATA RACE'):][:2000])
    bad = oracle(sc, io.split(' ')) if io else [('driver', log[-1500:])]
    for sig, msg in bad:
        print('oracle:', sig, msg)
    return 1 if bad else 0


MANIFEST = dict(
    technique='Coq proofs by invariant over all interleavings of the panel LTS (session tables are partial injections, admissions logged as ghost state, cap and credit checked at the admitting step); atomicity of lookup-or-create tied to the source by a generated guarded-by obligation; differential execution of simultaneous real handshakes (race detector on) against the extracted model',
    level_text='C15_one_session_per_id, C15_no_sharing, C15_cap and C15_no_credit_no_session are proved for every reachable state of every interleaving of any number of connections, closures, terminations, uploads, admin changes (no bound). The cap theorem is per ActiveUser record and per period in which the configured cap is bounded; "same UID and session id => same session" across records needs C17\'s ownership (C15_same_uid_sid_given_ownership), which is false of the code as it is (F5) and proved for the repaired model.',
    level_note='The key is modelled as session identity; the reply sealing itself is C06\'s. Trusted: Coq kernel, the hand model, lockscan, the harness.',
    design_ref='DESIGN.md section 6, C15; O4')


# ---- a fault on ONE connection of a session (the server cannot write its reply): its siblings keep their session and key,
# later connections of the pair join it (oracle only: the panel model has no failing writes)
def reply_faults(ctx, verdict):
    scs = []
    for i, (uid, others) in enumerate([(9, 3), (1, 2), (9, 8)]):
        phases = ['H%d.1x%d,%d.2x2' % (uid, others, uid), 'W%d.1' % uid, 'H%d.1x%d' % (uid, others), 'W%d.1' % uid, 'W%d.1' % uid, 'H%d.1x2,%d.2x1' % (uid, uid)]
        expect = [dict(kind='H', pairs=[[uid, 1, others, 'all'], [uid, 2, 2, 'all']]), dict(kind='W'), dict(kind='H', pairs=[[uid, 1, others, 'all']]),
                  dict(kind='W'), dict(kind='W'), dict(kind='H', pairs=[[uid, 1, 2, 'all'], [uid, 2, 1, 'all']])]
        scs.append(dict(id='rf%d' % i, users='1:9:1000000000:1000000000:2000,2:9:1000000000:1000000000:2000,b9', phases=phases, expect=expect, caps={1: 9, 2: 9, 9: BIG}))
    lines = ['%s 1000 %s %s' % (sc['id'], sc['users'], ' '.join(sc['phases'])) for sc in scs]
    rc, log, out, dt = panellib.run_go(ctx, lines, 'replyfaults', test='TestVerifC15', files=('c15_test.go', 'c17_common_test.go'), race=True)
    go = panellib.parse_go(out)
    broken = []
    if rc != 0 or len(go['obs']) < len(scs):
        broken.append(('Go driver TestVerifC15 (reply-write faults) failed rc=%d' % rc, log[-3000:]))
    n = 0
    for sc in scs:
        io = go['obs'].get(sc['id'])
        if io is None:
            continue
        for sig, msg in oracle(sc, io.split(' ')):
            n += 1
            if n <= 2:
                verdict.oracle_failure(sig + ':' + sc['id'], 'C15 oracle (one connection of the pair could not be sent its reply in the W phases): ' + msg,
                                       dict(case=dict(id=sc['id'], users=sc['users'], phases=sc['phases'], expect=sc['expect'], caps=sc['caps']), implementation=io,
                                            how='python3 tools/check.py C15 --replay <this file>'))
    verdict.cov['reply_fault_scenarios'] = dict(scenarios=len(scs), oracle_failures=n)
    return broken


_corr_before_faults = correspondence


def correspondence(ctx, verdict, pr):
    res = _corr_before_faults(ctx, verdict, pr)
    res['broken'] += reply_faults(ctx, verdict)
    return res
