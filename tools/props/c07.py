"""C07 - only holders of valid, timely credentials are treated as Cloak clients."""
import base64, json, os
import vlib
from props import c09 as c9

PROP_FILES = ['Properties/C07']
EXTRA_OBLIGATION_FILES = ['Proofs/AtomFront']
TRUSTED = [
    'hand-written model coq/Model/ServerInit.v of InitState / parseProxyBook / parseRedirAddr / IsBypass (net.ResolveIPAddr, ResolveTCPAddr/UDPAddr and bolt.Open are parameters; strings.ToLower modelled on ASCII; Go map iteration order not represented: ProxyBook is its key set), tied to the code by the configuration cases of the correspondence (error class, AdminUID, bypass key set, ProxyBook keys, manager kind, KeepAlive, StaticPv, redirect host and port compared on every run)',
    'Coq 8.16.1 kernel incl. vm_compute; theorems C07_*: Closed under the global context. X25519 and AES-GCM are universally quantified parameters of the decision model (hypothesis in the statements: opening strips the 16-byte tag - proved of the Gallina AES-GCM, Proofs/Crypto.v gcm_open_length)',
    'SECTION HYPOTHESIS dh_rejects_low_order (forall pv u, low_order u = true -> dh pv u = None) of C07_accepted_not_low_order / C07_session_not_low_order / C07_low_order_tls_is_web / C07_low_order_ws_is_web: the key agreement fails on small-order input, as crypto/ecdh documents ("bad X25519 remote ECDH input: low order point"). It is a THEOREM (C07_x25519_rejects_low_order, all 2^256 private keys, ladder invariant in Proofs/LowOrder.v) of the Gallina X25519 the correspondence runs; for Go\'s X25519 it is observed on every run: the driver checks that Go\'s error occurs exactly on the ephemeral values Model/LowOrder.v calls small-order (all 14 encodings x both transports, and none of the other ~11 000 values)',
    'hypotheses dh_nonzero (a shared secret has 32 bytes and is not all-zero) and open_is_seal (whatever opens under (k, n) is the AES-GCM sealing under (k, n)) of C07_accepted_key_nonzero / C07_accepted_is_sealed are theorems of the Gallina X25519 / AES-GCM (C07_accepted_key_nonzero_x25519, C07_accepted_is_sealed_x25519_gcm have no hypothesis)',
    'COMPUTATIONAL ASSUMPTION, not a theorem of any model: nobody computes X25519(server private key, r) without the server private key, or the private key of r together with the server PUBLIC key (the credential), and nobody produces an AES-GCM sealing without the key. The theorems reduce "unauthenticated senders are never accepted" to exactly this; the degenerate case in which the secret is predictable without any key (small-order r, secret all-zero) is excluded by theorem',
    'hand-written models coq/Model/Dispatch.v (AuthFirstPacket, decryptClientInfo, registerRandom, admin gate, ProxyBook, GetUser/GetBypassUser, AuthenticateUser, AuthoriseNewSession, GetSession, MakeObfuscator), coq/Model/Hello.v (parsers), coq/Model/FirstPacket.v',
    'correspondence: real AuthFirstPacket and real dispatchConnection (in-package driver harness/server/c07_test.go + c09_rig_test.go, fresh hand-built State per case, real localManager on a temporary bolt file, injected clock) vs the extracted OCaml model ocaml/c07_driver.ml; AES-GCM is ALWAYS computed by the Gallina model; X25519 results come from the Go run as a table keyed by the ephemeral value, and a seeded sample is recomputed with the Gallina X25519 ladder',
    'admin and proxy sessions are told apart by the dispatch.gotUser schedule point (-tags verif)',
    'time.Time arithmetic of the standard library is modelled (seconds since year 1 in an int64, nanoseconds separately), not verified; net/http + base64 (WebSocket hidden header), uTLS, bbolt are black boxes',
]
ASSUMPTIONS = [
    'configuration layer: the State is built by the REAL InitState from generated RawConfigs (no admin / admin only / bypass lists with duplicates, adjacent duplicates, the admin listed as bypass / database path with and without admin / ProxyBook names and networks in mixed case, unknown networks, wrong pair lengths, bad addresses / RedirAddr forms / KeepAlive / empty and short private key / CncMode) and first packets of the all-zero UID, the admin UID, each bypass UID, a database UID and one-bit neighbours are run against it; offline: RedirAddr and proxy addresses are IP literals (the resolvers are parameters of the model, their results are taken from the Go run), the database is a fresh bolt file in a temporary directory',
    'wf_uids: the configuration theorems (C07_config_*) and the oracle assume every configured BypassUID / AdminUID has exactly 16 bytes. InitState copies all entries into ONE shared 16-byte array: an entry shorter than 16 bytes inherits the tail of the entry before it (zeros for the first - an EMPTY first entry registers the all-zero UID), a longer one is cut (C07_config_short_entry_inherits). Such configurations are generated too; for them only model and implementation are compared (they agree), the oracle is silent - reported to the integrator as an observation about the unchanged code',
    'the sealed block binds the ephemeral value only cryptographically: "unmodified" in the oracle means random (bit 255 excepted: X25519 ignores it), session id and X25519 key share bytes are those of the genuine packet',
    'forged first packets (oracle: never accepted): ephemeral value = each of the 14 small-order encodings and the 5 encodings that are small-order only without bit-255 masking, block sealed by the sender under the all-zero key (and under 0x01.. as a control), plaintext naming a bypass UID or the admin UID with session id 0, on both transports',
    'timestamps below 2^62 for the window theorems (time.Unix wraps beyond; the model reproduces the wrap and the run samples it)',
    'user rates are positive (rate <= 0 panics MakeValve: F8, C18); GetSession refusals (session cap) drop the connection: C15',
]

PV, PV2 = c9.PV, c9.PV2
ADMIN, BYPASS, DBUSER, UNKNOWN = c9.ADMIN, c9.BYPASS, c9.DBUSER, c9.UNKNOWN
NOUP, NODOWN, NEGUP, EXPIRED, EXPNOW, CAP0, ACTIVEU = 'd0' * 16, 'd1' * 16, 'd2' * 16, 'e0' * 16, 'e1' * 16, 'ca' * 16, 'ac' * 16
NOW_S = c9.NOW_S
NOW = c9.NOW
GOOD = dict(up=10**9, down=10**9, exp=NOW_S + 10**6, cap=5, uprate=10**7, downrate=10**7)


def user(uid, **kw):
    u = dict(GOOD)
    u.update(kw)
    u['uid'] = uid
    return u


USERS = [user(DBUSER), user(NOUP, up=0), user(NODOWN, down=0), user(NEGUP, up=-5), user(EXPIRED, exp=NOW_S - 1),
         user(EXPNOW, exp=NOW_S), user(CAP0, cap=0)]


def mkstate(name, **kw):
    sp = dict(state=name, pv=PV, admin=ADMIN, bypass=[BYPASS], book=['shadowsocks', 'openvpn'], users=USERS, used=[], active=[])
    sp.update(kw)
    return sp


STATES = {
    'S0': mkstate('S0'),
    'S_adminbypass': mkstate('S_adminbypass', bypass=[BYPASS, ADMIN]),     # what InitState builds
    'S_noadmin': mkstate('S_noadmin', admin=''),
    'S_nobook': mkstate('S_nobook', book=['openvpn']),
    'S_wrongkey': mkstate('S_wrongkey', pv=PV2),
    'S_active': mkstate('S_active', active=[dict(uid=NOUP, bypass=False, sids=[3]), dict(uid=ACTIVEU, bypass=True, sids=[]),
                                            dict(uid=UNKNOWN, bypass=False, sids=[9])]),
    'S_void': mkstate('S_void', nodb=True, users=[]),
}

BASE = dict(uid=BYPASS, sid=3, method='shadowsocks', enc=1, unordered=False, ts=NOW_S, pv=PV)
AUTH_VARIANTS = [
    ('dbuser', dict(uid=DBUSER, sid=7)), ('noup', dict(uid=NOUP)), ('nodown', dict(uid=NODOWN)), ('negup', dict(uid=NEGUP)),
    ('expired', dict(uid=EXPIRED)), ('expnow', dict(uid=EXPNOW)), ('cap0', dict(uid=CAP0)), ('unknown', dict(uid=UNKNOWN)),
    ('unknown9', dict(uid=UNKNOWN, sid=9)),
    ('activeu', dict(uid=ACTIVEU)), ('noup4', dict(uid=NOUP, sid=4)),
    ('admin0', dict(uid=ADMIN, sid=0)), ('admin5', dict(uid=ADMIN, sid=5)), ('bypass0', dict(sid=0)),
    ('badmethod', dict(method='nosuchmethod')), ('openvpn', dict(method='openvpn')), ('method12', dict(method='abcdefghijkl')),
    ('enc9', dict(enc=9)), ('enc0', dict(enc=0)), ('enc2', dict(enc=2)), ('enc3', dict(enc=3)), ('enc255', dict(enc=255)),
    ('unordered', dict(unordered=True)), ('sidmax', dict(sid=2**32 - 1)),
    ('ts_2p62', dict(ts=2**62)), ('ts_max', dict(ts=2**63 - 1)), ('ts_min', dict(ts=-2**63)), ('ts_m1', dict(ts=-1)),
    ('ts_wrap', dict(ts=2**63 - 62135596800)), ('ts_wrap1', dict(ts=2**63 - 62135596801)),
]


def gen_specs(seed0):
    specs = []
    for ki, (kind, br) in enumerate(c9.KINDS):
        g = dict(id='%s_%s_ok' % (kind, br), kind=kind, browser=br, seed=seed0 * 1000 + ki)
        g.update(BASE)
        specs.append(g)
        if br in ('firefox',) or kind == 'ws':
            for vi, (vn, ov) in enumerate(AUTH_VARIANTS):
                g = dict(id='%s_%s_%s' % (kind, br, vn), kind=kind, browser=br, seed=seed0 * 1000 + 100 + ki * 50 + vi)
                g.update(BASE)
                g.update(ov)
                specs.append(g)
    return specs


def sealed_positions(kind, pkt):
    """byte positions of the genuine packet that carry the ephemeral value and the sealed block"""
    if kind == 'tls':
        # genuine, well-formed hello: walk it (record 5, handshake header 4, version 2, random 32, sid, suites, compression, extensions)
        pos = set(range(11, 43))
        p = 43
        sl = pkt[p]
        assert sl == 32
        pos |= set(range(p + 1, p + 1 + sl))
        p += 1 + sl
        p += 2 + ((pkt[p] << 8) | pkt[p + 1])
        p += 1 + pkt[p]
        end = p + 2 + ((pkt[p] << 8) | pkt[p + 1])
        p += 2
        found = False
        while p < end:
            typ = (pkt[p] << 8) | pkt[p + 1]
            ln = (pkt[p + 2] << 8) | pkt[p + 3]
            if typ == 0x33:
                q = p + 4 + 2
                qe = p + 4 + ln
                while q < qe:
                    grp = (pkt[q] << 8) | pkt[q + 1]
                    kl = (pkt[q + 2] << 8) | pkt[q + 3]
                    if grp == 0x1d:
                        assert kl == 32
                        pos |= set(range(q + 4, q + 4 + kl))
                        found = True
                    q += 4 + kl
            p += 4 + ln
        assert found
        return pos
    low = pkt.lower()
    h = low.find(b'hidden:')
    e = pkt.find(b'\r\n', h)
    v = h + len(b'hidden:')
    while pkt[v:v + 1] == b' ':
        v += 1
    return set(range(v, e))


# ------------------------------------------------------------------------------------------ oracle (property text)
def authorised(sp, uid, now):
    if uid in sp.get('bypass', []):
        return True
    if any(a['uid'] == uid for a in sp.get('active', [])):
        return True
    if sp.get('nodb'):
        return False
    for u in sp.get('users', []):
        if u['uid'] == uid:
            return u['up'] > 0 and u['down'] > 0 and u['exp'] >= now // 10**9
    return False


def oracle(c, sp, o):
    """o: dict of the Go observation.  Returns (signature, message) or None."""
    m = c['meta']
    g = m['spec']
    if 'PANIC' in o:
        return 'panic', 'panic: ' + o['PANIC'][:200]
    if m.get('no_oracle') or o.get('auth') == '-':
        return None      # configuration with UID entries that are not 16 bytes / InitState refused it: model comparison only
    accepted_auth = o['auth'] == 'ok'
    disp = o['disp']
    unmodified = m['sealed_intact']
    ts_ns = g['ts'] * 10**9
    in_window = (c['now'] - 180 * 10**9 < ts_ns < c['now'] + 180 * 10**9)
    key_ok = (sp['pv'] == g['pv'])
    uid_admin = bool(sp.get('admin')) and g['uid'] == sp['admin']
    why = []
    if m.get('forged'):
        why.append('payload not encrypted to the server\'s static public key: ' + m['forged'])
    elif not unmodified:
        why.append('sealed payload / ephemeral value modified')
    if not in_window:
        why.append('timestamp %d not strictly within 180 s of server clock %d ns' % (g['ts'], c['now']))
    if not key_ok and not m.get('forged'):
        why.append('payload sealed to another server key')
    # exactly one of {relayed to the redirect target, served as a Cloak session} per connection, and the bytes the
    # peer gets are those of that outcome only
    dials, fdials = int(o.get('dials', 0)), int(o.get('fdials', 0))
    if max(dials, fdials) > 1:
        return 'relayed-twice', 'the connection was handed to the redirect target %d times' % max(dials, fdials)
    if max(dials, fdials) > 0 and max(int(o.get('srv', 0)), int(o.get('fpeerlen', 0))) > 3:
        return 'relayed-and-answered', ('the connection was relayed to the redirect target AND the server wrote bytes of its own to the peer '
                                        '(%s bytes reached the peer; the target replied 3)' % max(int(o.get('srv', 0)), int(o.get('fpeerlen', 0))))
    auth_bad = ('auth-accepts-invalid', 'AuthFirstPacket accepted a first packet although: ' + '; '.join(why)) if accepted_auth and why else None
    if auth_bad and disp not in ('admin', 'proxy'):
        return auth_bad
    if disp == 'admin':
        w = list(why)
        if not uid_admin:
            w.append('UID is not the configured admin UID' if sp.get('admin') else 'no admin UID is configured')
        if g['sid'] != 0:
            w.append('session id %d is not 0' % g['sid'])
        if w:
            return 'admin-reached', 'user-management API session granted although: ' + '; '.join(w)
    elif disp == 'proxy':
        w = list(why)
        if not authorised(sp, g['uid'], c['now']):
            w.append('UID %s.. is not authorised (not bypass, not active, database refuses)' % g['uid'][:8])
        if g['method'] not in sp.get('book', []):
            w.append('proxy method %r is not served' % g['method'])
        if w:
            return 'session-for-invalid', 'Cloak session granted although: ' + '; '.join(w)
        if auth_bad:
            return auth_bad
    else:
        # handled as ordinary web traffic: relayed untouched (or closed when the record is incomplete)
        if disp == 'web' and (o['tgtok'] != '1' or o['peerweb'] != '1'):
            return 'web-not-transparent', 'redirected but target input / peer output are not byte-exact'
        if disp == 'drop' and not (unmodified and in_window and key_ok and authorised(sp, g['uid'], c['now'])):
            return 'dropped', 'connection left open and unserved for a peer without valid credentials'
        if disp == 'close' and c9.py_complete(bytes.fromhex(c['pkt'])):
            return 'closed-not-web', 'complete first packet neither accepted nor redirected'
        if o['uns'] == '1':
            return 'wedged', 'connection neither served nor closed'
        # a pristine, valid, authorised, served packet must be accepted (sanity of the whole rig)
        if m['pristine'] and in_window and key_ok and g['enc'] in (0, 1, 2, 3) and (
                (uid_admin and g['sid'] == 0) or (g['method'] in sp.get('book', []) and authorised(sp, g['uid'], c['now']))) \
                and not m.get('expect_drop'):
            return 'valid-rejected', 'valid fresh credential of an authorised user was not accepted (%s/%s)' % (o['auth'], disp)
    return None


# ------------------------------------------------------------------------------------------ cases
def build_cases(ctx, packets, specs):
    rng = ctx.rng
    quick = ctx.quick()
    cases = []

    def add(cat, name, pkt, st='S0', now=NOW, changed=None, expect_drop=False, intact_override=None, forged=None, kind=None):
        g = specs[name]
        kind = kind or g['kind']
        sealed = SEALED.get(name, ())
        intact = True
        if changed is not None and kind == 'ws':
            # the sealed payload travels base64-coded in the `hidden` header: compare what it decodes to
            def hidden_of(p):
                v = p[min(sealed):max(sealed) + 1]       # the 128 base64 characters of the genuine request
                try:
                    return base64.b64decode(v, validate=True)
                except Exception:
                    return None
            h0, h1 = hidden_of(packets[name]), hidden_of(pkt)
            if h1 is None or len(h1) != len(h0):
                intact = False
            else:
                d = [i for i in range(len(h0)) if h0[i] != h1[i]]
                intact = (d == [] or (d == [31] and h0[31] ^ h1[31] == 0x80))   # bit 255: ignored by X25519
        elif changed is not None:
            orig = packets[name]
            for i in sealed:
                if i >= len(pkt):
                    intact = False
                elif pkt[i] != orig[i]:
                    if i == 42 and (pkt[i] ^ orig[i]) == 0x80:
                        continue          # bit 255 of the ephemeral value: X25519 ignores it, payload unmodified
                    intact = False
        if intact_override is not None:
            intact = intact_override
        cases.append(dict(id='c%d' % len(cases), st=st, now=now, kind=kind, pkt=pkt.hex(),
                          meta=dict(cat=cat, base=name, spec=g, sealed_intact=intact, pristine=changed is None and not forged,
                                    changed=sorted(changed)[:8] if changed else None, expect_drop=expect_drop, forged=forged)))

    SEALED = {n: sealed_positions(specs[n]['kind'], p) for n, p in packets.items() if specs[n]['kind'] != 'seal'}
    oks = {(g['kind'], g['browser']): n for n, g in specs.items() if n.endswith('_ok') and g['kind'] != 'seal' and not n.startswith('cfg_')}
    # 0. forged: small-order ephemeral values (every one, every non-canonical encoding, both transports), payload sealed
    #    under a key the sender chose.  Not encrypted to the server's static public key => ordinary web traffic.
    for (kind, br), name in sorted(oks.items()):
        if quick and not (br == 'firefox' or kind == 'ws'):
            continue
        for sname, g in sorted(specs.items()):
            if g['kind'] != 'seal':
                continue
            pkt = c9.forge_packet(kind, packets[name], bytes.fromhex(g['u']), packets[sname])
            for st in (('S0', 'S_adminbypass') if g['plaintext'] == 'admin0' and g['keyname'] == 'zero' else ('S0',)):
                add('forged/%s-%s/%s/key-%s/%s' % (kind, br, g['point'], g['keyname'], g['plaintext']), sname, pkt, st=st, kind=kind,
                    forged='ephemeral value %s (%s), 64-byte block = AES-256-GCM(key %s.., nonce = first 12 bytes of it, plaintext uid %s.. sid %d method %s ts %d): '
                           'the server\'s public key was never used' % (g['point'], g['u'], g['key'][:8], g['uid'][:8], g['sid'], g['method'], g['ts']))
    # 1. single-bit flips
    for (kind, br), name in sorted(oks.items()):
        pkt = packets[name]
        nbits = len(pkt) * 8
        if not quick or br == 'firefox' or kind == 'ws':
            bits = range(nbits)
        else:
            must = set()
            for i in list(range(0, 80)) + sorted(SEALED[name]):
                must |= set(range(8 * i, 8 * i + 8))
            others = [b for b in range(nbits) if b not in must]
            bits = sorted(must | set(rng.sample(others, min(len(others), 500))))
        for b in bits:
            m = bytearray(pkt)
            m[b // 8] ^= 1 << (b % 8)
            add('bitflip/%s-%s' % (kind, br), name, bytes(m), changed={b // 8})
    # 2. random multi-byte mutations
    for k in range(500 if quick else 5000):
        name = rng.choice(sorted(oks.values()))
        pkt = packets[name]
        m = bytearray(pkt)
        ch = set()
        for _ in range(rng.choice([2, 3, 5, 16])):
            i = rng.randrange(len(m))
            m[i] = rng.randrange(256)
            ch.add(i)
        mode = rng.random()
        if mode < 0.1:
            cut = rng.randrange(len(m) // 2, len(m))
            m = m[:cut]
        elif mode < 0.2:
            m = m + bytes(rng.randrange(256) for _ in range(rng.randrange(1, 30)))
        add('mutation', name, bytes(m), changed=ch)
    # 3. clock offsets around both edges (the client stamped NOW_S)
    for name in sorted(oks.values()):
        for off in (-181, -180, -179, -1, 0, 1, 179, 180, 181):
            for frac in (0, 1, 500000000, 999999999):
                add('clock', name, packets[name], now=(NOW_S + off) * 10**9 + frac)
        for edge in (-180, 180):
            for d in (-2, -1, 0, 1, 2):
                add('clock-subsecond', name, packets[name], now=(NOW_S + edge) * 10**9 + d)
    # 4. authorisation / configuration variants, both transports
    for name, g in sorted(specs.items()):
        if name.endswith('_ok') or g['kind'] == 'seal' or name.startswith('cfg_'):
            continue
        v = name.split('_', 2)[2]
        pkt = packets[name]
        add('auth/' + v, name, pkt, expect_drop=(v == 'cap0'))
        if v in ('admin0', 'admin5', 'bypass0'):
            add('auth/' + v + '@adminbypass', name, pkt, st='S_adminbypass')
            add('auth/' + v + '@noadmin', name, pkt, st='S_noadmin')
        if v in ('noup', 'noup4', 'activeu', 'unknown', 'unknown9', 'dbuser'):
            add('auth/' + v + '@active', name, pkt, st='S_active', expect_drop=(v in ('noup4', 'unknown')))
        if v == 'dbuser':
            add('auth/' + v + '@void', name, pkt, st='S_void')
        if v == 'expnow':
            for d in (-1, 0, 1):
                add('auth/expiry-edge', name, pkt, now=(NOW_S + d) * 10**9 + 7)
        if v == 'openvpn':
            add('auth/openvpn@nobook-has-it', name, pkt, st='S_nobook')
    for name in sorted(oks.values()):
        add('auth/wrongkey', name, packets[name], st='S_wrongkey')
        add('auth/nobook', name, packets[name], st='S_nobook')
        add('auth/pristine', name, packets[name])
        add('auth/pristine@void', name, packets[name], st='S_void')
    # 6. the configuration layer: State built by the real InitState (c07_init_test.go) from a RawConfig
    anyok = packets[sorted(oks.values())[0]]
    for cfg, probes in config_specs():
        gocfg = {k: cfg[k] for k in ('book', 'bypass', 'admin', 'pk', 'redir', 'db', 'dbbad', 'users', 'keepalive', 'cnc', 'hosts')}
        ostate = cfg_oracle_state(cfg)
        mine = sorted(n for n, g in specs.items() if g.get('cfgname') == cfg['name'])
        for n in mine or [None]:
            g = specs[n] if n else dict(BASE, kind='tls', pv=None)
            pkt = packets[n] if n else anyok
            cases.append(dict(id='c%d' % len(cases), st='S0', now=NOW, kind=g['kind'], pkt=pkt.hex(), cfg=gocfg,
                              meta=dict(cat='config/%s%s' % (cfg['name'], '' if n else '/init-only'), base=n or 'init-only', spec=g, sealed_intact=True,
                                        pristine=bool(n) and cfg['wf'], changed=None, expect_drop=False, forged=None, cfg=cfg, ostate=ostate,
                                        no_oracle=not cfg['wf'] or not n)))
            # the same packet when the server's clock is 1000 s further on: stale under ANY configuration (the window is
            # the documented +-180 s whatever the options say); decided by the model comparison
            cases.append(dict(id='c%d' % len(cases), st='S0', now=NOW + 1000 * 10**9, kind=g['kind'], pkt=pkt.hex(), cfg=gocfg,
                              meta=dict(cat='config/%s/stale' % cfg['name'], base=n or 'init-only', spec=g, sealed_intact=True,
                                        pristine=False, changed=None, expect_drop=False, forged=None, cfg=cfg, ostate=ostate, no_oracle=True)))
    # 5. parser quirks the model reproduces (Go slice capacity, map overwrite): rebuilt extension blocks
    for (kind, br), name in sorted(oks.items()):
        if kind != 'tls':
            continue
        for qn, q, intact in rebuild_variants(packets[name]):
            add('quirk/' + qn, name, q, changed=set(), intact_override=intact)
    return cases


def split_hello(pkt):
    """genuine hello -> (bytes before the extensions length field, [(type, body)])"""
    p = 43
    p += 1 + pkt[p]
    p += 2 + ((pkt[p] << 8) | pkt[p + 1])
    p += 1 + pkt[p]
    head = pkt[:p]
    end = p + 2 + ((pkt[p] << 8) | pkt[p + 1])
    p += 2
    exts = []
    while p < end:
        typ = (pkt[p] << 8) | pkt[p + 1]
        ln = (pkt[p + 2] << 8) | pkt[p + 3]
        exts.append((typ, pkt[p + 4:p + 4 + ln]))
        p += 4 + ln
    return head, exts


def join_hello(head, raw_exts):
    """raw_exts: bytes of the extension block.  Fixes extension, handshake and record lengths."""
    body = head[9:] + len(raw_exts).to_bytes(2, 'big') + raw_exts      # after record(5)+type(1)+len(3)
    hs = b'\x01' + len(body).to_bytes(3, 'big') + body
    return head[:3] + len(hs).to_bytes(2, 'big') + hs


def ext(typ, body, declared=None):
    return typ.to_bytes(2, 'big') + (len(body) if declared is None else declared).to_bytes(2, 'big') + body


def rebuild_variants(pkt):
    head, exts = split_hello(pkt)
    ks = [b for t, b in exts if t == 0x33][0]
    others = b''.join(ext(t, b) for t, b in exts if t != 0x33)
    out = []
    # identity (sanity of the rebuild): accepted
    out.append(('rebuild-identity', join_hello(head, b''.join(ext(t, b) for t, b in exts)), True))
    # a bogus key_share BEFORE the genuine one: ret[typ] = data overwrites, the last one wins -> accepted
    out.append(('dup-keyshare-last-wins', join_hello(head, ext(0x33, b'\x00\x02\x00\x00') + others + ext(0x33, ks)), True))
    # the genuine one first, a bogus one last -> rejected although the sealed bytes are all there
    out.append(('dup-keyshare-bogus-last', join_hello(head, ext(0x33, ks) + others + ext(0x33, b'\x00\x02\x00\x00')), True))
    # key_share with declared length 0 as the LAST extension, followed by bytes that parse as one more extension:
    # parseKeyShare's input has len 0 but cap > 0, so input[0:2] does not panic and it reads the follower
    follower = b'\x00\x05\x00\x1d' + b'\x00\x07' + bytes(27)
    out.append(('keyshare-cap-overread', join_hello(head, others + ext(0x33, b'', 0) + follower), False))
    # same with nothing behind it: cap 0 -> input[0:2] panics -> "malformed key_share"
    out.append(('keyshare-empty-last', join_hello(head, others + ext(0x33, b'', 0)), False))
    # no key_share at all: nil slice -> panic -> "malformed key_share"
    out.append(('keyshare-missing', join_hello(head, others), False))
    # the genuine key share reachable only THROUGH the over-read: declared length 2 (just the list length), body behind it
    # parses as extension 0x001d of length 0x20: accepted, the sealed bytes are intact
    out.append(('keyshare-via-overread', join_hello(head, others + ext(0x33, ks[:2], 2) + ks[2:]), True))
    return out


def parse_go(line):
    if line is None:
        return None, None, None
    parts = line.split(' | ')
    o = dict(t.split('=', 1) for t in parts[0].split() if '=' in t)
    tb = dict(t.split('=', 1) for t in parts[1].split() if '=' in t) if len(parts) > 1 else {}
    tb2 = dict(t.split('=', 1) for t in parts[2].split() if '=' in t) if len(parts) > 2 else {}
    if len(parts) > 3:
        o['_init'] = dict(t.split('=', 1) for t in parts[3].split() if '=' in t)
    return o, tb, tb2


def model_line(c, sp, tb, tb2, x25519=False):
    dh = []
    hid = []
    if 'rand' in tb:
        dh.append('%s:%s' % (tb['rand'], tb['dh']))
    if 'rand' in tb2 and tb2['rand'] != tb.get('rand'):
        dh.append('%s:%s' % (tb2['rand'], tb2['dh']))
    if 'hid' in tb:
        hid.append('%s:%s' % (c['pkt'], tb['hid']))
    if 'hid' in tb2:
        n = int(tb2['n'])
        d = c['pkt'][:2 * n]
        if d != c['pkt'] or 'hid' not in tb:
            hid.append('%s:%s' % (d or '-', tb2['hid']))
    st_tok = c9.state_tokens(sp)
    if c.get('cfg'):
        cfg = c['meta']['cfg']
        dbonly = [t for t in c9.state_tokens(dict(pv='00', users=cfg['users'])).split() if t.startswith('db=')][0]
        ini = (c['meta'].get('_init') or {})
        st_tok = '%s %s rres=%s ares=%s' % (cfg_tokens(cfg), dbonly, ini.get('rres', '-'), ini.get('ares', '-'))
    return '%s now=%s kind=%s pkt=%s %s dh=%s hid=%s%s' % (
        c['id'], c9.zhex(c['now']), c['kind'], c['pkt'] or '-', st_tok, ','.join(dh) or '-', ','.join(hid) or '-',
        ' x25519=1' if x25519 else '')


def norm_model(ml):
    m = dict(t.split('=', 1) for t in ml.split() if '=' in t)
    auth = m.get('auth', '?')
    ci = m.get('ci', '-')
    if ci != '-':
        u, sid, me, enc, un = ci.split(':')
        ci = '%s:%d:%s:%s:%s' % (u, int(sid, 16), me, enc, un)
    else:
        ci = ''
    return auth, ci, m.get('disp', '?'), m.get('dec', '?')


def compare(o, ml):
    if ml is None:
        return 'model produced no line'
    toks = ml.split()
    if len(toks) > 1 and toks[1] in ('MISS', 'FAIL'):
        return 'model: ' + ml[:200]
    if '_init' in o:
        # what InitState derived from the RawConfig vs Model/ServerInit.v
        gi = o['_init']
        mi = dict(t.split('=', 1) for t in toks[1:] if '=' in t)
        if gi.get('init') != mi.get('init'):
            return 'InitState: model %s, implementation %s' % (mi.get('init'), gi.get('init'))
        if gi.get('init') != 'ok':
            return None
        for k, what in (('adm', 'AdminUID'), ('byp', 'bypass set (State.BypassUID keys)'), ('mgr', 'user manager'), ('ka', 'KeepAlive of the proxy dialer (ns)'),
                        ('ipv', 'StaticPv'), ('rhost', 'redirect host'), ('rport', 'redirect port')):
            if gi.get(k) != mi.get(k):
                return 'InitState %s: model %s, implementation %s' % (what, mi.get(k), gi.get(k))
        gb = sorted(set(x.split(':')[0] for x in gi.get('ibook', '-').split(',') if x != '-'))
        mb = sorted(set(x for x in mi.get('ibook', '-').split(',') if x != '-'))
        if gb != mb:
            return 'InitState ProxyBook keys: model %s, implementation %s' % (mb, gb)
    auth, ci, disp, dec = norm_model(ml)
    if auth != o['auth']:
        return 'AuthFirstPacket: model %s, implementation %s' % (auth, o['auth'])
    if ci != o.get('ci', ''):
        return 'ClientInfo: model %s, implementation %s' % (ci, o.get('ci'))
    if disp != o['disp']:
        return 'dispatchConnection: model %s (%s), implementation %s' % (disp, dec, o['disp'])
    if ' lomis=0' not in ml + ' ':
        return 'small-order predicate: Model/LowOrder.v low_order and the X25519 error of the implementation disagree on the ephemeral value of this packet (%s)' % ml.split()[-1]
    return None


def run_cases(ctx, cases, tag, x_sample=0):
    lines = [json.dumps(sp) for sp in STATES.values()] + [json.dumps({k: v for k, v in c.items() if k != 'meta'}) for c in cases]
    rc, log, impl, dt = c9.run_go(ctx, 'run', lines, tag, test='TestVerifC07', files=('c07_test.go', 'c07_init_test.go', 'c09_rig_test.go', 'c09_test.go'),
                                  timeout=3000)
    parsed = {}
    mlines = []
    for c in cases:
        o, tb, tb2 = parse_go(impl.get(c['id']))
        parsed[c['id']] = o
        if o is not None and '_init' in o:
            c['meta']['_init'] = o['_init']
        if o is not None and 'auth' in o:
            mlines.append(model_line(c, STATES[c['st']], tb, tb2))
    xl = []
    if x_sample:
        pool = [c for c in cases if parsed.get(c['id']) and 'auth' in parsed[c['id']] and not parsed[c['id']]['auth'].startswith('parse')]
        acc = [c for c in pool if parsed[c['id']]['auth'] == 'ok']
        rej = [c for c in pool if parsed[c['id']]['auth'] != 'ok']
        pick = ctx.rng.sample(acc, min(len(acc), x_sample // 2)) + ctx.rng.sample(rej, min(len(rej), x_sample - x_sample // 2))
        # forged packets: the Gallina ladder itself must refuse every small-order ephemeral value (one case per point;
        # quick tier: five of them incl. both order-8 points and a bit-255 form)
        fpool = {}
        for c in cases:
            m = c['meta']
            if m.get('forged') and parsed.get(c['id']) and 'auth' in parsed[c['id']] and m['spec']['keyname'] == 'zero' and m['spec']['plaintext'] == 'bypass':
                fpool.setdefault(m['spec']['point'], c)
        want = sorted(fpool) if not ctx.quick() else [n for n in ('zero', 'order8a', 'order8b|bit255', 'p+1+p') if n in fpool]
        pick += [fpool[n] for n in want]
        for c in pick:
            o, tb, tb2 = parse_go(impl.get(c['id']))
            xl.append(model_line(dict(c, id='x' + c['id']), STATES[c['st']], tb, tb2, x25519=True))
    minp = '%s/%s.model.in' % (ctx.work, tag)
    mout = '%s/%s.model.out' % (ctx.work, tag)
    open(minp, 'w').write('\n'.join(mlines + xl) + '\n')
    mrc, merr = vlib.run_model('c07', minp, mout, timeout=3000)
    model = {}
    if os.path.exists(mout):
        for ln in open(mout):
            ln = ln.rstrip('\n')
            if ln:
                model[ln.split(' ', 1)[0]] = ln
    return rc, log, parsed, mrc, merr, model, dt, len(xl)


# forged first packets: the sender picks the ephemeral value (a small-order point, or an encoding that would be one
# without X25519's masking) and seals a well-formed plaintext under a key of his own choosing - he never uses the
# server's public key.  `zero` is the key an implementation ends up with if it loses the X25519 error.
FORGE_PLAINTEXTS = [('bypass', dict(uid=BYPASS, sid=3, method='shadowsocks')), ('admin0', dict(uid=ADMIN, sid=0, method='shadowsocks'))]
FORGE_KEYS = [('zero', '00' * 32), ('ones', '01' * 32)]


def forge_specs():
    out = []
    for pn, u in c9.FORGE_POINTS:
        for vn, ov in FORGE_PLAINTEXTS:
            for kn, key in FORGE_KEYS:
                if kn != 'zero' and pn not in ('zero', 'order8a', 'p|bit255'):
                    continue
                g = dict(id='seal_%s_%s_%s' % (pn, vn, kn), kind='seal', point=pn, plaintext=vn, keyname=kn, key=key, nonce=u[:12].hex(),
                         u=u.hex(), enc=1, unordered=False, ts=NOW_S, pv=None)
                g.update(ov)
                out.append(g)
    return out


# ------------------------------------------------------------------------------------------ configuration layer
# The State is built by the REAL InitState from a RawConfig.  UIDs: Z = all-zero, A = admin, B1/B2 = bypass entries,
# N* = one bit off, DBU = a database user.
ZERO, CA, CB1, CB2, CDB = '00' * 16, 'a1' * 16, 'b1' * 16, 'b2' * 16, 'db' * 16
CPK = '5c' * 32


def flip(uid, bit):
    b = bytearray(bytes.fromhex(uid)); b[bit // 8] ^= 1 << (bit % 8); return b.hex()


BOOK0 = {'shadowsocks': ['tcp', '127.0.0.1:8388'], 'openvpn': ['udp', '127.0.0.1:1194']}
CFG_USERS = [user(CDB)]


def mkcfg(name, **kw):
    c = dict(name=name, book=dict(BOOK0), bypass=[], admin='', pk=CPK, redir='127.0.0.1', db=False, users=[], keepalive=0, cnc=False,
             hosts=['127.0.0.1'], wf=True, dbbad=False)
    c.update(kw)
    return c


def config_specs():
    """(config, probes): probes = list of (uid, sid, method); every config is also run through InitState alone"""
    std = lambda *uids: [(u, 3, 'shadowsocks') for u in uids]
    out = [
        (mkcfg('none'), std(ZERO, CB1, flip(ZERO, 0), flip(ZERO, 127))),
        (mkcfg('bypass1', bypass=[CB1]), std(ZERO, CB1, flip(CB1, 0), flip(CB1, 127), CB2)),
        (mkcfg('bypass-dup', bypass=[CB1, CB2, CB1]), std(ZERO, CB1, CB2, flip(CB2, 64))),
        (mkcfg('bypass-dup-adjacent', bypass=[CB1, CB1, CB2, CDB, CDB]), std(CB1, CB2, CDB, ZERO)),
        (mkcfg('admin-only', admin=CA), std(ZERO, CA, flip(CA, 5), CB1) + [(CA, 0, 'shadowsocks'), (CA, 0, 'nosuchmethod'), (ZERO, 0, 'shadowsocks')]),
        (mkcfg('admin+bypass', admin=CA, bypass=[CB1, CA, CB2]), std(ZERO, CA, CB1, CB2, flip(CB1, 1)) + [(CA, 0, 'openvpn')]),
        (mkcfg('admin+db', admin=CA, db=True, users=CFG_USERS, bypass=[CB1]), std(ZERO, CDB, flip(CDB, 0), CB1, CA)),
        (mkcfg('admin-nodbpath', admin=CA, users=CFG_USERS), std(CDB, CA, ZERO)),
        (mkcfg('noadmin+dbpath', db=True, users=CFG_USERS, bypass=[CB2]), std(CDB, CB2, ZERO)),       # Voidmanager: the file is ignored
        # the served methods: names are lower-cased, the network is matched case-insensitively, other networks are skipped
        (mkcfg('book-case', bypass=[CB1], book={'ShadowSocks': ['TCP', '127.0.0.1:1'], 'OPENVPN': ['Udp', '[::1]:2'], 'sock': ['unix', '/tmp/x']}),
         [(CB1, 3, 'shadowsocks'), (CB1, 3, 'ShadowSocks'), (CB1, 3, 'openvpn'), (CB1, 3, 'sock')]),
        (mkcfg('book-empty', bypass=[CB1], book={}), [(CB1, 3, 'shadowsocks')]),
        # malformed UID entries (outside wf_uids: the oracle judges only the exact 16-byte entries; the model must agree on all)
        (mkcfg('short-after-full', bypass=[CB1, 'c3c3c3'], wf=False), std(CB1, 'c3c3c3' + 'b1' * 13, 'c3c3c3' + '00' * 13, ZERO)),
        (mkcfg('short-first', bypass=['c3c3c3', CB1], wf=False), std('c3c3c3' + '00' * 13, CB1, ZERO)),
        (mkcfg('long-entry', bypass=[CB1 + 'ffff'], wf=False), std(CB1, ZERO)),
        (mkcfg('empty-entry-first', bypass=['', CB1], wf=False), std(ZERO, CB1)),
        (mkcfg('empty-entry-after', bypass=[CB1, ''], wf=False), std(ZERO, CB1)),
        (mkcfg('short-admin', admin='a1a1', bypass=[CB1], wf=False), std('a1a1' + 'b1' * 14, CB1, ZERO) + [('a1a1' + 'b1' * 14, 0, 'shadowsocks')]),
        (mkcfg('long-admin', admin=CA + 'ee', wf=False), std(CA, ZERO) + [(CA, 0, 'shadowsocks')]),
        # other derived values / error exits
        (mkcfg('keepalive15', bypass=[CB1], keepalive=15, redir='10.1.2.3:8080', hosts=['10.1.2.3']), std(CB1)),
        (mkcfg('keepalive-neg', bypass=[CB1], keepalive=-7, redir='[::1]:443', hosts=['::1', '[::1]']), std(CB1)),
        (mkcfg('redir-v6-noport', bypass=[CB1], redir='fe80::1', hosts=['fe80::1']), std(CB1)),
        (mkcfg('redir-empty', bypass=[CB1], redir='', hosts=['']), std(CB1)),
        (mkcfg('redir-bad', bypass=[CB1], redir='999.1.1.1:80', hosts=['999.1.1.1']), []),
        (mkcfg('redir-bracket-noport', bypass=[CB1], redir='[::1]', hosts=['::1]', '[::1]', '::1']), []),
        (mkcfg('pk-empty', bypass=[CB1], pk=''), []),
        (mkcfg('pk-short', bypass=[CB1], pk='5c' * 16), []),
        (mkcfg('cnc', bypass=[CB1], cnc=True), []),
        (mkcfg('book-pair1', bypass=[CB1], book={'x': ['tcp']}), []),
        (mkcfg('book-pair3', bypass=[CB1], book={'x': ['tcp', '127.0.0.1:1', 'y']}), []),
        (mkcfg('book-badaddr', bypass=[CB1], book={'x': ['tcp', '127.0.0.1']}), []),
        (mkcfg('book-badudp', bypass=[CB1], book={'x': ['UDP', '127.0.0.1:99999']}), []),
        (mkcfg('db-unopenable', admin=CA, dbbad=True), []),
        (mkcfg('db-unopenable-noadmin', bypass=[CB1], dbbad=True), std(CB1)),       # Voidmanager: the path is never opened
        (mkcfg('book-badaddr-skipped-net', bypass=[CB1], book={'x': ['unix', '127.0.0.1'], 'shadowsocks': ['tcp', '127.0.0.1:1']}), std(CB1)),
    ]
    return out


def config_gen_specs(seed0):
    specs = []
    for ci, (cfg, probes) in enumerate(config_specs()):
        for pi, (uid, sid, method) in enumerate(probes):
            for kind, br in ((('tls', 'firefox'),) if pi % 3 else (('tls', 'firefox'), ('ws', 'chrome'))):
                specs.append(dict(id='cfg_%s_%d_%s' % (cfg['name'], pi, kind), kind=kind, browser=br, uid=uid, sid=sid, method=method, enc=1,
                                  unordered=False, ts=NOW_S, pv=(cfg['pk'] + '00' * 32)[:64], seed=seed0 * 1000 + 700 + ci * 20 + pi, cfgname=cfg['name']))
    return specs


def cfg_tokens(cfg):
    e = lambda h: h if h else 'e'
    book = ';'.join('%s:%s' % (e(n.encode().hex()), '.'.join(e(x.encode().hex()) for x in pair)) for n, pair in sorted(cfg['book'].items())) or '-'
    ka = cfg['keepalive']
    return 'cfg=1 rpk=%s radmin=%s rbypass=%s rbook=%s rredir=%s rdb=%d rka=%s rcnc=%d' % (
        cfg['pk'] or '-', cfg['admin'] or '-', ','.join(e(b) for b in cfg['bypass']) or '-', book, cfg['redir'].encode().hex() or '-',
        2 if cfg['dbbad'] else (1 if cfg['db'] else 0), c9.zhex(ka), 1 if cfg['cnc'] else 0)


def cfg_oracle_state(cfg):
    """the server configuration as the PROPERTY reads it (independent of InitState and of the model): who is authorised without
    the database = the configured 16-byte BypassUID entries and the configured 16-byte AdminUID; the database counts only when
    an AdminUID and a DatabasePath are configured; methods are matched by their lower-cased configured names"""
    book = [n.lower() for n, pair in cfg['book'].items() if len(pair) == 2 and pair[0].lower() in ('tcp', 'udp')]
    return dict(state='cfg:' + cfg['name'], pv=(cfg['pk'] + '00' * 32)[:64], admin=cfg['admin'] if len(cfg['admin']) == 32 else '',
                bypass=[b for b in cfg['bypass'] if len(b) == 32] + ([cfg['admin']] if len(cfg['admin']) == 32 else []),
                book=book, users=cfg['users'] if (cfg['db'] and cfg['admin']) else [], nodb=not (cfg['db'] and cfg['admin']), used=[], active=[])


def gen_packets(ctx):
    specs = gen_specs(ctx.seed) + config_gen_specs(ctx.seed)
    seals = forge_specs()
    rc, log, out, dt = c9.run_go(ctx, 'gen', [json.dumps(g) for g in specs + seals], 'gen', test='TestVerifC07',
                                 files=('c07_test.go', 'c07_init_test.go', 'c09_rig_test.go', 'c09_test.go'))
    packets = {g['id']: bytes.fromhex(out[g['id']]) for g in specs + seals if g['id'] in out}
    return rc, log, packets, {g['id']: g for g in specs + seals}


# Verdicts that rest on quiescence / a dead process / a possibly truncated observation rather than on what was decided:
# reported only if the case run ALONE in a fresh driver process gives the same verdict three times out of three
# (see c09.py); otherwise the evidence notes say "not reproduced in isolation (load)".
LOAD_SENSITIVE = {'wedged', 'dropped', 'closed-not-web', 'web-not-transparent', 'valid-rejected', 'server-crash'}


def load_sensitive(sig, o):
    return sig in LOAD_SENSITIVE or o.get('uns') == '1' or o.get('hard') == '1'


def reproduces_alone(ctx, c, what, judge, tag):
    for i in range(c9.ISOLATION_TRIES):
        rc1, log1, parsed1, mrc1, merr1, model1, _, _ = run_cases(ctx, [c], '%s%d' % (tag, i))
        o1 = parsed1.get(c['id'])
        if o1 is None:
            got = 'server-crash' if rc1 != 0 and ('panic:' in log1 or 'fatal error' in log1) else None
        elif 'auth' not in o1:
            got = 'panic'
        else:
            got = judge(o1, model1.get(c['id']))
        if got != what:
            return False
    return True


def state_of(c):
    return c['meta'].get('ostate') or STATES[c['st']]


def correspondence(ctx, verdict, pr):
    res = dict(broken=[])
    rc, log, packets, specs = gen_packets(ctx)
    if rc != 0 or len(packets) != len(specs):
        res['broken'].append(('Go driver TestVerifC07 (gen) failed to build or run', log[-3000:]))
        verdict.cov.update(evaluations=0, distinct_nontrivial=0, rule='-', samples=[], traces_validated_against_impl=0,
                           input_distribution={}, exhaustive=False)
        return res
    cases = build_cases(ctx, packets, specs)
    cdir = vlib.V + '/corpus/C07'
    ncorpus = 0
    if os.path.isdir(cdir):
        pre = []
        for fn in sorted(os.listdir(cdir)):
            r = json.load(open(os.path.join(cdir, fn)))
            c = r['case']
            c['id'] = 'k%d' % ncorpus
            pre.append(c)
            ncorpus += 1
        cases = pre + cases
    rc, log, parsed, mrc, merr, model, dt, nx = run_cases(ctx, cases, 'cases', x_sample=4 if ctx.quick() else 60)
    if rc != 0:
        attributed = crash_attribution(ctx, verdict, cases, parsed, log)
        rest = [c for c in cases if parsed.get(c['id']) is None]
        if not attributed and rest and len(rest) < len(cases):
            rc2, log2, parsed2, mrc2, merr2, model2, dt2, nx2 = run_cases(ctx, rest, 'rest')
            parsed.update({k: v for k, v in parsed2.items() if v is not None})
            model.update(model2)
            if rc2 == 0:
                ctx.notes.append('driver process ended early after %d of %d cases, not reproduced in isolation (load): the remaining cases were run in a fresh process' % (len(cases) - len(rest), len(cases)))
                rc, mrc = 0, max(mrc, mrc2)
            else:
                log = log2
        if rc != 0:
            res['broken'].append(('Go driver TestVerifC07 failed to build or run', log[-3000:]))
    if mrc != 0:
        res['broken'].append(('extracted model c07 failed', str(merr)[-2000:]))
    mism, fails, cats, outcomes = [], [], [], []
    distinct = set()
    nacc = 0
    for c in cases:
        o = parsed.get(c['id'])
        if o is None:
            continue
        if 'auth' not in o:
            fails.append((c, o, ('panic', 'AuthFirstPacket panicked: ' + o.get('PANIC', '?')[:200])))
            continue
        cats.append(c['meta']['cat'])
        outcomes.append('%s/%s' % (o['auth'].split(':')[0], o['disp']))
        distinct.add((c['pkt'], c['st'], c['now']))
        if o['disp'] in ('admin', 'proxy'):
            nacc += 1
        msg = oracle(c, state_of(c), o)
        if msg:
            fails.append((c, o, msg))
        if rc == 0 and mrc == 0:
            d = compare(o, model.get(c['id']))
            if d:
                mism.append((c, o, model.get(c['id']), d))
            xm = model.get('x' + c['id'])
            if xm is not None:
                d = compare(o, xm.replace('x' + c['id'], c['id'], 1))
                if d:
                    mism.append((c, o, xm, 'with the Gallina X25519: ' + d))
    seen, tried, nload = {}, {}, 0
    for c, o, (sig, msg) in sorted(fails, key=lambda f: (len(f[0]['pkt']), f[0]['id'])):
        if sig in seen:
            continue
        if load_sensitive(sig, o):
            tried[sig] = tried.get(sig, 0) + 1
            if tried[sig] > 4:
                continue
            if not reproduces_alone(ctx, c, sig, lambda o1, ml1: (oracle(c, state_of(c), o1) or (None,))[0], 'iso'):
                nload += 1
                ctx.notes.append('oracle verdict [%s] on case %s (%s on %s) not reproduced in isolation (load): %d runs alone did not all give it' % (
                    sig, c['id'], c['meta']['cat'], c['meta']['base'], c9.ISOLATION_TRIES))
                continue
        seen[sig] = 1
        m = c['meta']
        verdict.oracle_failure(sig, 'C07 oracle [%s]: %s (case %s: %s on %s, state %s, server clock %d ns, client stamp %d s, changed bytes %s)' % (
            sig, msg, c['id'], m['cat'], m['base'], c['st'], c['now'], m['spec']['ts'], m['changed']),
            dict(case=c, state=state_of(c), implementation=o, model=model.get(c['id']),
                 how='python3 tools/check.py C07 --replay <this file>'))
    if mism:
        n0 = len(mism)
        sub = [m[0] for m in mism]
        rcb, logb, parsedb, mrcb, merrb, modelb, _, _ = run_cases(ctx, sub, 'mism')
        still = []
        for c in sub:
            ob = parsedb.get(c['id'])
            d = compare(ob, modelb.get(c['id'])) if ob is not None and 'auth' in ob else 'no output'
            if d:
                still.append((c, ob, modelb.get(c['id']), d))
        confirmed = []
        for m in sorted(still, key=lambda m: (len(m[0]['pkt']), m[0]['id']))[:5]:
            if reproduces_alone(ctx, m[0], True, lambda o1, ml1: bool(compare(o1, ml1)), 'isom'):
                confirmed.append(m)
                break
        if not confirmed:
            ctx.notes.append('%d model/implementation differences of the main run not reproduced in isolation (load): %d still differed in a fresh batch, none three times out of three alone' % (n0, len(still)))
            nload += n0
            mism = []
        else:
            mism = confirmed + [m for m in still if m is not confirmed[0]]
    if mism:
        c, o, ml, d = min(mism, key=lambda m: (len(m[0]['pkt']), m[0]['id']))
        res['broken'].append(('model Dispatch.v/Hello.v vs AuthFirstPacket/dispatchConnection: %d of %d cases differ' % (len(mism), len(cases)),
                              'smallest differing case %s (%s on %s, state %s, now %d): %s\npacket: %s\nimplementation: %s\nmodel: %s' % (
                                  c['id'], c['meta']['cat'], c['meta']['base'], c['st'], c['now'], d, c['pkt'][:300], o, ml)))
    verdict.cov.update(
        evaluations=len(cases), distinct_nontrivial=len(distinct),
        rule='one evaluation = one (first packet, server state, server clock) through the real AuthFirstPacket AND the real dispatchConnection AND the extracted model; distinct = distinct triples, all non-trivial (each reaches the parser; %d reach a session). Single-bit flips of a genuine hello (firefox: every bit; WebSocket GET: every bit; chrome/safari: every bit of the first 80 bytes and of the sealed block + 500 sampled - thorough: every bit), random multi-byte mutations with truncation/extension, clock offsets {-181,-180,-179,-1,0,1,179,180,181} s x 4 sub-second phases and +-2 ns around both edges, %d authorisation/configuration variants on both transports (unknown UID, exhausted/negative credit, expiry edge, session cap, active users, admin with sid 0/5, empty AdminUID, unknown method, 12-byte method, unknown encryption byte, wrong server key, void manager, extreme timestamps incl. the int64 wrap)' % (nacc, len(AUTH_VARIANTS)),
        samples=[dict(id=c['id'], cat=c['meta']['cat'], base=c['meta']['base'], st=c['st'], now=c['now'], pkt=c['pkt'][:100])
                 for c in (cases[ncorpus], cases[len(cases) // 2], cases[-1])],
        traces_validated_against_impl=sum(1 for v in parsed.values() if v is not None),
        mismatches=len(mism), oracle_failures=len(fails), not_reproduced_in_isolation=nload, sessions_granted=nacc, gallina_x25519_recomputed=nx,
        input_distribution=dict(category=vlib.summarize_dist([k.split('@')[0] if k.startswith('auth') else
                                                              ('/'.join(k.split('/')[:3]) if k.startswith('forged') else k) for k in cats]),
                                outcome=vlib.summarize_dist(outcomes)),
        corpus_cases=ncorpus, go_seconds=round(dt, 1), exhaustive=False)
    return res


def crash_attribution(ctx, verdict, cases, parsed, log):
    """The driver writes one line per case and flushes: if the process died (a panic in a goroutine of the server,
    outside every recover), the first case without a line is the input that killed it.  Confirm by running it alone."""
    missing = [c for c in cases if parsed.get(c['id']) is None]
    if not missing or len(missing) == len(cases):
        return False
    # a stray goroutine may die a moment after its case has reported: try the first case without a line, then the
    # three before it, each alone (the driver lingers 30 ms at the end of a run so that such a goroutine gets to run)
    k = cases.index(missing[0])
    c = None
    for cand in [cases[k]] + cases[max(0, k - 3):k][::-1]:
        died = 0
        for i in range(c9.ISOLATION_TRIES):
            rc1, log1, parsed1, _, _, _, _, _ = run_cases(ctx, [cand], 'crash')
            if not (rc1 != 0 and ('panic:' in log1 or 'fatal error' in log1)):
                break
            died += 1
        if died == c9.ISOLATION_TRIES:
            c = cand
            break
    if c is None:
        ctx.notes.append('driver process died near case %s, not reproduced in isolation (load)' % cases[k]['id'])
        return False
    tail = [ln for ln in log1.splitlines() if ln.startswith(('panic:', 'goroutine ', '\t/repo', 'github.com/cbeuw/Cloak')) or '[signal' in ln][:14]
    m = c['meta']
    verdict.oracle_failure('server-crash', 'C07 oracle [server-crash]: the server process died while handling this first packet (panic outside every recover): %s '
                           '(case %s: %s on %s, state %s)' % (' | '.join(tail[:3]), c['id'], m['cat'], m['base'], c['st']),
                           dict(case=c, state=STATES[c['st']], implementation='process died', go_log=tail,
                                how='python3 tools/check.py C07 --replay <this file>'))
    return True


def replay(ctx, verdict):
    r = ctx.replay
    c = r.get('case')
    if not c:
        print(json.dumps(r, indent=1)[:4000])
        return 0
    if not c.get('cfg'):
        STATES[c['st']] = r['state']
    rc, log, parsed, mrc, merr, model, dt, nx = run_cases(ctx, [c], 'replay')
    o = parsed.get(c['id'])
    print('packet        :', c['pkt'][:200], '(%d bytes)' % (len(c['pkt']) // 2))
    print('state / clock :', c['st'], c['now'])
    print('implementation:', o)
    print('model         :', model.get(c['id']))
    if o is None:
        print(log[-2000:])
        return 1 if r.get('signature') == 'server-crash' and rc != 0 else 2
    msg = oracle(c, r['state'], o) if 'auth' in o else ('panic', o.get('PANIC'))
    print('oracle        :', msg)
    return 1 if msg else 0


MANIFEST = dict(
    technique='Coq proof that the decision function accepts exactly the valid credentials (iff theorems over all packets, states and clocks), window-edge arithmetic incl. the truncation to seconds; model tied to the code by differential execution of the real AuthFirstPacket and dispatchConnection against the extracted model (Gallina AES-GCM; X25519 from a Go table, sampled with the Gallina ladder); oracle from the property text',
    level_text='C07_sound_complete_proxy, C07_admin_gate, C07_auth_first_packet, C07_authorised_uid, C07_else_web, C07_else_no_server_byte are proved for every first packet (arbitrary bytes), every server state and clock and every X25519 / AES-GCM whose opening strips the tag; C07_window* state the strict window in nanoseconds and in whole seconds for timestamps below 2^62. Configuration: C07_config_bypass_exact / _nothing_configured / _get_user / _void_get_user / _admin / _book characterise the State InitState builds from a RawConfig (bypass set = exactly the configured BypassUID entries plus the configured AdminUID; nothing when none is configured; Voidmanager unless AdminUID and DatabasePath are both set; served methods = lower-cased names with network tcp/udp), and C07_config_proxy_sound / _bypass_served / _unconfigured_is_web compose them with the decision. Key agreement: X25519 is an option-valued function (error branch of crypto/ecdh); C07_x25519_rejects_low_order proves for the Gallina ladder that every small-order input is refused under every private key, C07_low_order_list that these are exactly 14 strings, C07_accepted_not_low_order(_x25519) / C07_low_order_tls_is_web / C07_low_order_ws_is_web that such packets are web traffic on both transports, C07_accepted_key_nonzero(_x25519) that the AEAD key of an accepted packet is never all-zero, C07_accepted_is_sealed(_x25519_gcm) that its block is the AES-GCM sealing under X25519(server private key, its ephemeral value). The model is hand-written; every run compares it with the real code on ~11 000 (quick) variants: all single-bit flips of a firefox hello and of a WebSocket GET, sampled ones of chrome/safari, random mutations, clock offsets around both edges at nanosecond resolution, 30 authorisation variants on both transports over 7 server configurations.',
    level_note='Trusted: Coq kernel, extraction, the Go X25519 table (sampled against the Gallina ladder; its error set compared with the proved small-order predicate on every case), time.Time modelled, net/http+base64 black box. Unforgeability of the sealed block (nobody computes the X25519 secret / an AES-GCM sealing without a key) is computational: probed by the flips and the forged packets, not proved.',
    design_ref='DESIGN.md section 6, C07')


# generated obligation of the front door (Proofs/AtomFront.v): every connection's first packet, parsed hello and reply are
# values of that connection alone - no byte buffer at package level, no pooled object (or a view of it) used after its
# Put, no goroutine sharing a buffer with its spawner
TRUSTED = list(TRUSTED) + ['generated obligations Proofs/AtomFront.v about coq/Gen/Atomicity.v (tools/lockscan, go/ast: package-level variables with the kind of their type, sync.Pool.Put sites with the later mentions of the object or of a local view of its memory - slicings, dereferences, appends, local function literals that mention it, results handed out by a function whose Put is deferred -, variables shared by go statements); re-proved on every run, in a private re-generated copy under VERIF_EXTRA_OVERLAY']
MANIFEST = dict(MANIFEST, level_note=MANIFEST.get('level_note', '') + ' Generated obligation Proofs/AtomFront.v (re-proved about the source on every run): in the front-door code no byte buffer lives at package level, no pooled object or local view of it is used after its Put, no goroutine shares a buffer with its spawner - what lets the models treat a connection\'s first packet, parsed hello and reply as values of that connection alone.')
