"""C13 - session-pair lock-step check (see muxlib.py and coq/Model/Mux.v)."""
import muxlib, vlib

PROP_FILES = ['Properties/C13']
EXTRACT_FILES = ['Extract/Mux']
EXTRA_OBLIGATION_FILES = ['Proofs/AtomMux', 'Proofs/MuxGuards']

PROFILES = ['data', 'close', 'mixed', 'fault', 'sendfail']
N_QUICK, N_THOROUGH = 260, 4000
RULE = 'wire tap on both endpoints of seeded lock-step scenarios (every message decoded with the session key): per direction of each stream the emitted (stream id, sequence number, closing, length) log; plus the concurrent stress driver (Write/ReadFrom/Close from several goroutines under -race); distinct = distinct concrete label sequences'
ORACLE = muxlib.oracle_c13
TRUSTED = ['atomic steps of the hand-written model as GENERATED obligations (Proofs/AtomMux.v, re-proved on every run about coq/Gen/Atomicity.v; in a private re-generated copy under VERIF_EXTRA_OVERLAY): tools/lockscan (go/ast, syntactic types) is trusted to list, per function of internal/{server,multiplex,common,client}, every field access / call / sync/atomic operation with the critical sections (Lock..Unlock / RLock..RUnlock / deferred unlock, mutex identity by name) it lies in, every sync.Pool.Put with the later mentions of the object, and every variable a go statement shares with its spawner (anything it cannot resolve is in atomicity_errors, which must be empty); it does not follow calls (a region is what one function writes between Lock and Unlock), does no alias analysis, treats callbacks as running with no lock held, and counts call sites, not executions (a loop around one call site is invisible); send-lock discipline (AtomMux: no mutex possibly held across the blocking conn.Write is acquired on the path from switchboard.deplex): the scanner supplies the in-package call graph over functions and their bool specialisations (interface receivers resolved to every in-package implementer; deferred calls, callbacks and function values count as calls, go statements do not; cross-package calls are not edges) and, per call, the locks possibly held - reachability to the conn.Write call and from deplex is computed inside Coq', 'Coq 8.16.1 kernel incl. vm_compute (no native_compute)', 'hand-written model coq/Model/Mux.v of Session/Stream/switchboard at the granularity "one harness label runs to quiescence"; re-sequencer = coq/Model/Reorder.v', 'frames are abstract (decoded) in this model: codec and record framing are the subject of C04/C05', 'correspondence: lock-step driver harness/multiplex/mux_test.go on two real Sessions over harness-owned in-memory connections under testing/synctest (virtual clock, quiescence barrier) vs extracted OCaml model (ExtrOcamlBasic only); connection picks of pickRandConn are read off the wire tap and fed to the model', 'goroutine interleavings INSIDE a label (e.g. preemption inside a critical section) are not enumerated: covered by the fine-grained sender LTS (C13), the race detector runs and the schedule-point hooks']
ASSUMPTIONS = ['connections are FIFO, deliver whole messages (C05) and a reset/EOF is seen by both ends', 'sequence numbers stay below 2^64-1, fewer than 2^32 streams per session']


def scenarios(ctx):
    rng = ctx.rng
    n = N_QUICK if ctx.quick() else N_THOROUGH
    scns = []
    for i in range(n):
        scns.append(muxlib.gen_scenario(rng, 's%d' % i, rng.choice(PROFILES)))
    return scns


def correspondence(ctx, verdict, pr):
    verdict.cov['rule'] = RULE
    return muxlib.check(ctx, verdict, 'C13', scenarios(ctx), ORACLE)


def replay(ctx, verdict):
    return muxlib.replay_scenario(ctx, verdict, 'C13', ORACLE)


# ---- concurrent stress part (not lock-step): wire tap + race detector ----------------------
def stress_oracle(frames, results):
    """frames: list of (sid, seq, closing, tag, len) in wire order; results: W/RF/C records."""
    by = {}
    for fr in frames:
        by.setdefault(fr[0], []).append(fr)
    writes = {}      # tag -> (sid, bytes, ok, doneAt)
    rf_ids = set()
    closes = {}
    for r in results:
        f = r.split(':')
        if f[0] == 'W':
            writes[f[2]] = (int(f[1]), int(f[3]), f[4] == '1', int(f[5]))
        elif f[0] == 'RF':
            rf_ids.add(f[2])
        elif f[0] == 'C':
            closes[int(f[1])] = (int(f[2]), f[3] == '1')
    for sid, frs in by.items():
        if sid == 4294967295:
            continue
        seqs = [f[1] for f in frs]
        if len(set(seqs)) != len(seqs):
            d = sorted(s for s in set(seqs) if seqs.count(s) > 1)
            return ('dup-seq', 'stream %d: sequence number(s) %s used more than once (nonce reuse)' % (sid, d[:5]))
        if sorted(seqs) != list(range(len(seqs))):
            return ('gap', 'stream %d: sequence numbers are not 0..%d: %s' % (sid, len(seqs) - 1, sorted(seqs)[:30]))
        frs_sorted = sorted(frs, key=lambda f: f[1])
        # frames of one Write call are contiguous in sequence order and add up to what was accepted
        seen_done = set()
        cur = None
        sums = {}
        last_call = {}
        closing_seq = None
        for f in frs_sorted:
            sid_, seq, cl, tag, ln = f
            if cl != 0:
                closing_seq = seq if closing_seq is None else closing_seq
                cur = None
                continue
            if tag != cur:
                if tag in seen_done and tag in writes:
                    return ('interleaved-write', 'stream %d: frames of write %s are not contiguous in sequence order' % (sid, tag))
                if cur is not None:
                    seen_done.add(cur)
                cur = tag
            sums[tag] = sums.get(tag, 0) + ln
            wid, call = tag[:8], int(tag[8:], 16)
            if wid in last_call and call < last_call[wid]:
                return ('write-order', 'stream %d: writer %s: call %d numbered after call %d' % (sid, wid, call, last_call[wid]))
            last_call[wid] = call
            if closing_seq is not None and wid not in rf_ids:
                return ('write-after-close', 'stream %d: frame of Write %s numbered %d after the closing frame %d' % (sid, tag, seq, closing_seq))
        for tag, (wsid, nbytes, ok, done_at) in writes.items():
            if wsid != sid:
                continue
            if ok and sums.get(tag, 0) != nbytes:
                return ('length', 'stream %d: write %s accepted %d bytes but its frames carry %d' % (sid, tag, nbytes, sums.get(tag, 0)))
            if sid in closes and closes[sid][1] and ok and done_at < closes[sid][0] and closing_seq is not None:
                mx = max([f[1] for f in frs_sorted if f[3] == tag] + [-1])
                if mx > closing_seq:
                    return ('close-before-completed-write', 'stream %d: write %s completed before Close was called but frame %d is numbered after the closing frame %d' % (sid, tag, mx, closing_seq))
    return None


def stress(ctx, verdict):
    rng = ctx.rng
    n = 40 if ctx.quick() else 600
    lines = []
    for i in range(n):
        lines.append('t%d m=%d streams=%d writers=%d readfroms=%d calls=%d close=%d seed=%d' % (
            i, rng.randrange(4), rng.choice([1, 1, 2, 4]), rng.choice([1, 2, 3]), rng.choice([0, 1, 2]),
            rng.choice([2, 5, 12]), rng.choice([0, 1, 1]), rng.randrange(10**6)))
    inp = '%s/stress.in' % ctx.work
    out = '%s/stress.out' % ctx.work
    open(inp, 'w').write('\n'.join(lines) + '\n')
    rc, log, dt = vlib.go_test(ctx, 'multiplex', 'TestVerifC13', files=['c13_test.go'], race=True,
                               env=dict(VERIF_IN=inp, VERIF_OUT=out), timeout=1200)
    broken = []
    got = vlib.read_lines_by_id(out)
    nfail = 0
    for ln in lines:
        tid = ln.split()[0]
        o = got.get(tid)
        if o is None:
            continue
        a, b = (o.split(' | ') + [''])[:2] if ' | ' in o else (o.rstrip(' |'), '')
        frames = []
        for t in a.split():
            f = t.split(':')
            if len(f) == 6:
                frames.append((int(f[1]), int(f[2]), int(f[3]), f[4], int(f[5])))
        msg = stress_oracle(frames, b.split())
        if msg:
            nfail += 1
            if nfail == 1:
                verdict.oracle_failure('stress-' + msg[0], 'C13 oracle (concurrent stress): ' + msg[1],
                                       dict(trial=ln, emission_log=a[:6000], calls=b[:3000],
                                            how='concurrent schedule: re-run tools/check.py C13 (stress part); the trial line seeds sizes and timing'))
    if 'DATA RACE' in log:
        i = log.find('WARNING: DATA RACE')
        if nfail == 0:
            verdict.oracle_failure('stress-data-race', 'C13: the race detector reports unsynchronised access while streams are written concurrently',
                                   dict(race_report=log[i:i + 4000], how='go test -race with harness/multiplex/c13_test.go'))
    elif rc != 0 or len(got) < len(lines):
        broken.append(('Go driver TestVerifC13 (stress) failed rc=%d, %d of %d trials' % (rc, len(got), len(lines)), log[-3000:]))
    verdict.cov['stress_trials'] = len(got)
    verdict.cov['stress_failures'] = nfail
    return broken


_corr = correspondence


def correspondence(ctx, verdict, pr):
    res = _corr(ctx, verdict, pr)
    res['broken'] += stress(ctx, verdict)
    return res


MANIFEST = {'technique': 'Coq theorems over all label sequences (numbering of emitted frames, payload accounting) + generated lock-discipline obligations from go/ast (lockscan) + wire-tap correspondence + concurrent stress under the race detector', 'level_text': 'Proved in Coq for every label sequence: C13_frames_numbered (the i-th frame a side emits on a stream carries sequence number i: unique, gap-free, in emission order; only the last may be a closing frame and it carries no data) and C13_frames_carry_written (data frames carry, in sequence order, exactly the bytes the writes accepted). Generated obligations re-proved on every run about coq/Gen/Guards.v (extracted from /repo by tools/lockscan): every access of writingFrame / writingFrame.Seq happens under Stream.writingM - this is what ties "numbering and sending are one atomic step" to the source. The wire tap of every lock-step scenario is compared with the model frame by frame; a concurrent stress driver (Write/ReadFrom/Close from several goroutines, -race) checks uniqueness, per-write contiguity and close-after-completed-writes on real interleavings.', 'level_note': 'Granularity: one harness label runs to quiescence; goroutine interleavings inside a label are covered by schedule-point replays, the race detector and (C13) the concurrent stress driver, not by the theorems. Hypotheses of the theorems: stream ids returned by OpenStream are fresh at the opener (fresh_run; in Cloak only the client opens streams), fewer than 2^64-2 frames per stream direction. Frames are abstract (decoded) in this model: codec = C04, record framing = C05. Trusted: Coq kernel, extraction (ExtrOcamlBasic), testing/synctest barrier, in-memory FIFO connections. Cross-stream nonce uniqueness relies on stream ids being distinct (atomic nextStreamID) and on the single session-closing frame; the latter two are checked by the oracle, not proved.', 'design_ref': 'DESIGN.md section 6, C13'}


# ---- numbering on the send path incl. its error branches (tools/props/winlib.py, driver shared with C10) ----
import winlib as _winlib
_corr_before_send = correspondence
_replay_before_send = replay


def correspondence(ctx, verdict, pr):
    res = _corr_before_send(ctx, verdict, pr)
    res['broken'] += _winlib.c13_send_numbering(ctx, verdict)
    return res


def replay(ctx, verdict):
    if ctx.replay.get('kind') == 'window':
        return _winlib.replay(ctx, verdict)
    return _replay_before_send(ctx, verdict)
