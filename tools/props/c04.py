"""C04 - frame encoding round-trips, respects the size limit, keeps the wire format."""
import os, json, struct, random
import vlib
import c04_sess

PROP_FILES = ['Properties/C04']
EXTRA_OBLIGATION_FILES = ['Proofs/AEAD', 'Proofs/Crypto', 'Proofs/CryptoVectors', 'Proofs/Codec', 'Proofs/SessionLimit']
TRUSTED = [
    'Coq 8.16.1 kernel incl. vm_compute (no native_compute); all C04 theorems: Closed under the global context',
    'hand-written model coq/Model/Codec.v of obfuscate / deobfuscate / MakeObfuscator / maxStreamUnitWrite (Go slices as checked zslice, randomness as input)',
    'Gallina re-implementations of Salsa20, ChaCha20-Poly1305, AES-128/256-GCM (coq/Model/Crypto/*.v): the theorems use only their structure (xor with a key stream of fixed block size, fixed tag length), never cryptographic strength; each primitive is compared with Go (golang.org/x/crypto, crypto/aes, crypto/cipher) on every run and evaluated on RFC 8439 / FIPS 197 / GCM-spec vectors inside Coq (Proofs/CryptoVectors.v)',
    'constants (frameHeaderLength, maxExtraLen, padFirstNFrames, salsa20NonceSize, Overhead()/NonceSize() of the three AEADs, both on-wire limits) are regenerated from /repo by the Go compiler into coq/Gen/Consts.v on every run',
    'correspondence: in-package Go driver harness/multiplex/c04_test.go on the real Obfuscator vs extracted OCaml model (ExtrOcamlBasic only; N, Z, nat kept as datatypes), ocaml/c04_driver.ml; crypto/rand.Reader is replaced by a seeded byte source for part of the cases so that the two buffer placements can be compared byte for byte',
    'pure-Python Salsa20 + Cloak-v2 header/plain-body layout in tools/props/c04.py (third, model-independent implementation used by the oracle)',
    'hand-written model coq/Model/SessionLimit.v of the size derivations of MakeSession and of Stream.Write / Stream.ReadFrom / the closing notices of closeStream and Session.Close as functions of the configured MsgOnWireSizeLimit; its length-only plans (proved equal to the model: C04_session_plans_agree) are what the extracted driver runs',
    'session correspondence: harness/multiplex/c04_sess_test.go builds real Session pairs through MakeSession with a family of configured limits on a connection pair it owns (one message per Write, FIFO, no timing: the barrier is "the peer\'s deplex is back in Read with nothing pending"); crypto/rand.Reader is replaced by a reader whose single-byte reads follow a script (they decide padding lengths and notice sizes); tools/props/c04_sess.py generates the cases, compares with the model and holds the oracle',
]
ASSUMPTIONS = [
    'stream id < 2^32, sequence number < 2^64, closing < 256 (the Go field types); payload non-empty',
    'padding length padLen <= maxExtraLen - tagLen (what RandInt(maxExtraLen - tagLen + 1) can return)',
    'session theorems: switchboard.send succeeds (a broken connection is C01/C12 territory); the reader handed to ReadFrom keeps the io.Reader contract (0 <= n <= len(p)); a limit is any Go int (<= 0 selects the default); the peer takes one message per Read into a connReceiveBufferSize buffer, so limits above connReceiveBufferSize (20480) or, on the TLS transport, above 16640 are outside what a deployed pair can carry (C04_session_limits_in_use proves the limits in use are below both)',
]

TAG = {0: 8, 1: 16, 2: 16, 3: 16}
MNAME = {0: 'plain', 1: 'aes-256-gcm', 2: 'chacha20-poly1305', 3: 'aes-128-gcm'}
LIMITS = [16401, 16640]
HDR, MAXEXTRA, PADFIRST = 14, 255, 5          # Cloak v2 layout constants as in the property text / source comments
SEQS = [0, 4, 5, 2 ** 32, 2 ** 64 - 1]


def hx(b):
    return b.hex() if b else '-'


def unhx(s):
    return b'' if s == '-' else bytes.fromhex(s)


# ---- independent Salsa20 (pure Python) ---------------------------------------------------
def _rotl(x, k):
    return ((x << k) | (x >> (32 - k))) & 0xffffffff


def salsa20_block(key, nonce, ctr):
    k = struct.unpack('<8I', key)
    n = struct.unpack('<2I', nonce)
    st = [0x61707865, k[0], k[1], k[2], k[3], 0x3320646e, n[0], n[1], ctr & 0xffffffff, ctr >> 32,
          0x79622d32, k[4], k[5], k[6], k[7], 0x6b206574]
    x = list(st)

    def qr(a, b, c, d):
        x[b] ^= _rotl((x[a] + x[d]) & 0xffffffff, 7)
        x[c] ^= _rotl((x[b] + x[a]) & 0xffffffff, 9)
        x[d] ^= _rotl((x[c] + x[b]) & 0xffffffff, 13)
        x[a] ^= _rotl((x[d] + x[c]) & 0xffffffff, 18)
    for _ in range(10):
        qr(0, 4, 8, 12); qr(5, 9, 13, 1); qr(10, 14, 2, 6); qr(15, 3, 7, 11)
        qr(0, 1, 2, 3); qr(5, 6, 7, 4); qr(10, 11, 8, 9); qr(15, 12, 13, 14)
    return struct.pack('<16I', *[(a + b) & 0xffffffff for a, b in zip(x, st)])


def py_header(key, msg):
    """decrypt the 14 header bytes the way the Cloak v2 layout says: Salsa20(key, nonce = last 8 bytes)"""
    ks = salsa20_block(key, msg[-8:], 0)
    h = bytes(a ^ b for a, b in zip(msg[:HDR], ks))
    return struct.unpack('>I', h[0:4])[0], struct.unpack('>Q', h[4:12])[0], h[12], h[13]


# ---- case generation ----------------------------------------------------------------------
def frame_fields(rng, seq=None):
    sid = rng.choice([0, 1, 2, 0xffffffff, rng.randrange(2 ** 32)])
    closing = rng.choice([0, 0, 1, 2, rng.randrange(256)])
    if seq is None:
        seq = rng.choice(SEQS + [rng.randrange(2 ** 64), rng.randrange(10)])
    return sid, seq, closing


def gen_cases(ctx):
    rng = ctx.rng
    q = ctx.quick()
    G = []   # Go encodes
    M = []   # the model encodes
    cid = [0]

    def add_g(m, plen, seq, limit, kind, seed=None):
        sid, _, closing = frame_fields(rng)
        key = rng.randbytes(32)
        payload = rng.randbytes(plen)
        if seed is None:
            seed = 'real' if rng.random() < 0.25 else str(rng.randrange(1, 2 ** 62))
        c = dict(id='g%d' % cid[0], kind=kind, m=m, key=key, sid=sid, seq=seq, closing=closing, payload=payload,
                 seed=seed, buflen=limit, limit=limit)
        cid[0] += 1
        G.append(c)
        return c

    def add_m(m, plen, seq, kind, pad=None):
        sid, _, closing = frame_fields(rng)
        key = rng.randbytes(32)
        payload = rng.randbytes(plen)
        if pad is None:
            pad = rng.choice([0, 1, MAXEXTRA - TAG[m], rng.randrange(MAXEXTRA - TAG[m] + 1)]) if seq < PADFIRST else 0
        rnd = rng.randbytes(pad + TAG[m])
        c = dict(id='m%d' % cid[0], kind=kind, m=m, key=key, sid=sid, seq=seq, closing=closing, payload=payload, pad=pad, rnd=rnd)
        cid[0] += 1
        M.append(c)
        return c

    small = [1, 2, 15, 16, 17, 255, 256]
    draws = 30 if q else 120
    for m in range(4):
        for L in small:
            for seq in (0, 4):
                for _ in range(draws):
                    add_g(m, L, seq, rng.choice(LIMITS), 'small-padded')
            for seq in (5, 2 ** 32, 2 ** 64 - 1):
                add_g(m, L, seq, rng.choice(LIMITS), 'small-unpadded')
        nrand = 150 if q else 1500
        for _ in range(nrand):
            r = rng.random()
            L = rng.randrange(1, 64) if r < 0.3 else rng.randrange(1, 600) if r < 0.8 else rng.randrange(1, 3000)
            add_g(m, L, rng.choice(SEQS), rng.choice(LIMITS), 'random-length')
        # near the maximum (few: the Gallina ciphers cost ~0.25 s per pass over 16 KiB)
        for limit, d, seq in ((16401, 0, 0), (16401, 1, 5), (16640, 0, 2 ** 64 - 1), (16640, 1, 4)):
            add_g(m, limit - HDR - MAXEXTRA - d, seq, limit, 'near-max', seed=str(rng.randrange(1, 2 ** 62)))
        # buffer too small / just large enough (unpadded so that the needed size is known)
        for L in (1, 100):
            need = HDR + L + TAG[m]
            for bl in (need - 1, need):
                c = add_g(m, L, 7, need + 500, 'buffer-size')
                c['buflen'] = bl
        # the model encodes, Go decodes
        for L in small + [rng.randrange(1, 600) for _ in range(60 if q else 600)]:
            add_m(m, L, rng.choice(SEQS), 'model-encodes')
        for L in small:
            add_m(m, L, 0, 'model-encodes-maxpad', pad=MAXEXTRA - TAG[m])
        # a peer built from an independent implementation of the layout may pad ANY frame (the layout does not tie the
        # padding to the sequence number; C04_interop): frames numbered 5 and above, padded, must decode as well
        for L in small + [rng.randrange(1, 600) for _ in range(20 if q else 200)]:
            add_m(m, L, rng.choice([5, 6, 2 ** 32, 2 ** 64 - 1, rng.randrange(5, 2 ** 64)]), 'model-encodes-padded-late-frame',
                  pad=rng.choice([1, 17, MAXEXTRA - TAG[m], rng.randrange(1, MAXEXTRA - TAG[m] + 1)]))
        add_m(m, 16401 - HDR - MAXEXTRA, 1, 'model-encodes-near-max', pad=MAXEXTRA - TAG[m])
        if not q:
            step = 16 if m in (0, 2) else 64
            for L in list(range(1, 2049)) + list(range(2049, 16640 - HDR - MAXEXTRA + 1, step)):
                limit = 16640 if L > 16132 else rng.choice(LIMITS)
                add_g(m, L, rng.choice([0, 5]), limit, 'sweep', seed=str(rng.randrange(1, 2 ** 62)))
    # cipher primitives
    P = []
    for i in range(40 if q else 400):
        n = rng.choice([0, 1, 15, 16, 17, 63, 64, 65, 127, 128, 129, rng.randrange(0, 400)])
        P.append(('ps%d' % i, 'PRIM salsa %s %s %s' % (hx(rng.randbytes(32)), hx(rng.randbytes(8)), hx(rng.randbytes(n)))))
        for which, klens in (('chachapoly', [32]), ('gcm', [16, 32])):
            key = rng.randbytes(rng.choice(klens))
            nonce = rng.randbytes(12)
            pt = rng.randbytes(n)
            aad = rng.randbytes(rng.choice([0, 0, 1, 13, 16, 20]))
            P.append(('pa%d%s' % (i, which[0]), 'PRIM %s %s %s %s %s' % (which, hx(key), hx(nonce), hx(pt), hx(aad))))
    for which, kl in (('chachapoly', 32), ('gcm', 16), ('gcm', 32)):
        P.append(('pbig%s%d' % (which[0], kl), 'PRIM %s %s %s %s -' % (which, hx(rng.randbytes(kl)), hx(rng.randbytes(12)), hx(rng.randbytes(16387)))))
    P.append(('pbigs', 'PRIM salsa %s %s %s' % (hx(rng.randbytes(32)), hx(rng.randbytes(8)), hx(rng.randbytes(16387)))))
    return G, M, P


def g_line(c):
    return '%s GENC %d %s %x %x %x %s %s %d' % (c['id'], c['m'], hx(c['key']), c['sid'], c['seq'], c['closing'],
                                               hx(c['payload']), c['seed'], c['buflen'])


def m_line(c):
    return '%s ENC %d %s %x %x %x %s %d %s' % (c['id'], c['m'], hx(c['key']), c['sid'], c['seq'], c['closing'],
                                              hx(c['payload']), c['pad'], hx(c['rnd']))


def want_dec(c, sep):
    return sep.join(['ok', '%x' % c['sid'], '%x' % c['seq'], '%x' % c['closing'], hx(c['payload'])])


def short(c):
    d = {k: (v.hex() if isinstance(v, bytes) else v) for k, v in c.items()}
    return d


def run_go(ctx, lines, tag):
    inp = '%s/%s.go.in' % (ctx.work, tag)
    out = '%s/%s.go.out' % (ctx.work, tag)
    open(inp, 'w').write('\n'.join(lines) + '\n')
    rc, log, dt = vlib.go_test(ctx, 'multiplex', 'TestVerifC04', files=['c04_test.go', 'c04_sess_test.go'], env=dict(VERIF_IN=inp, VERIF_OUT=out))
    return rc, log, vlib.read_lines_by_id(out)


def run_model(ctx, lines, tag, nproc=4):
    """the extracted model on the case lines; the lines are dealt round-robin to nproc processes"""
    import subprocess
    binp = '%s/ocaml/bin/c04' % vlib.V
    if not os.path.exists(binp):
        return 127, 'model binary %s missing (extraction or OCaml build failed)' % binp, {}
    order = sorted(range(len(lines)), key=lambda i: -len(lines[i]))     # big cases first, spread evenly
    nproc = max(1, min(nproc, len(lines)))
    procs = []
    for k in range(nproc):
        inp = '%s/%s.model.%d.in' % (ctx.work, tag, k)
        out = '%s/%s.model.%d.out' % (ctx.work, tag, k)
        open(inp, 'w').write('\n'.join(lines[i] for i in order[k::nproc]) + '\n')
        procs.append((subprocess.Popen([binp], stdin=open(inp), stdout=open(out, 'w'), stderr=subprocess.PIPE, text=True), out))
    rc, err, res = 0, '', {}
    for p, out in procs:
        try:
            _, e = p.communicate(timeout=3000)
        except subprocess.TimeoutExpired:
            p.kill(); e = 'model timeout'
            rc = 124
        if p.returncode:
            rc = rc or p.returncode
            err += e or ''
        res.update(vlib.read_lines_by_id(out))
    return rc, err, res


def parse_g(out):
    d = {}
    for tok in out.split():
        k, _, v = tok.partition('=')
        d[k] = v
    return d


def oracle_g(c, g):
    """Model-independent: what C04 demands of one Go encoding (both placements).  Returns list of (signature, message)."""
    fails = []
    m = c['m']
    need = HDR + len(c['payload']) + TAG[m]
    if c['kind'] == 'buffer-size':
        if c['buflen'] < need:
            if not g.get('A', '').startswith('err:') or not g.get('B', '').startswith('err:'):
                fails.append(('buffer-too-small-accepted', 'obfuscate wrote a %d-byte message into a %d-byte buffer' % (need, c['buflen'])))
            return fails
    for which in ('A', 'B'):
        v = g.get(which, '')
        if v == 'same':
            continue
        if v.startswith('err:') or v.startswith('panic') or not v:
            fails.append(('encode-failed', 'obfuscate failed (%s) for a legal frame: payload %d bytes, limit %d, placement %s'
                          % (v[:100], len(c['payload']), c['limit'], which)))
            continue
        msg = unhx(v)
        if len(msg) > c['limit']:
            fails.append(('size-limit', 'message of %d bytes exceeds the limit %d (payload %d)' % (len(msg), c['limit'], len(c['payload']))))
        pad = len(msg) - need
        if pad < 0 or pad > MAXEXTRA - TAG[m]:
            fails.append(('length-formula', 'message length %d is not 14+payload+pad+tag with 0<=pad<=%d (payload %d, tag %d)'
                          % (len(msg), MAXEXTRA - TAG[m], len(c['payload']), TAG[m])))
        elif pad > 0 and c['seq'] >= PADFIRST:
            fails.append(('padding-threshold', 'frame with seq=%d carries %d bytes of padding' % (c['seq'], pad)))
        dec = g.get('D' + which, '')
        if dec != want_dec(c, ','):
            fails.append(('roundtrip', 'deobfuscate(obfuscate(f)) != f, placement %s: got %s' % (which, dec[:120])))
        # independent layout implementation (python): header fields, and the whole body for plain
        if len(msg) >= HDR + 8 and 0 <= pad <= MAXEXTRA - TAG[m]:
            sid, seq, closing, extra = py_header(c['key'], msg)
            if (sid, seq, closing, extra) != (c['sid'], c['seq'], c['closing'], pad + TAG[m]):
                fails.append(('header-layout', 'independent Cloak-v2 header decoder reads sid=%x seq=%x closing=%d extra=%d, frame was sid=%x seq=%x closing=%d extra=%d'
                              % (sid, seq, closing, extra, c['sid'], c['seq'], c['closing'], pad + TAG[m])))
            if m == 0 and msg[HDR:HDR + len(c['payload'])] != c['payload']:
                fails.append(('plain-layout', 'plain body does not start with the payload'))
    if g.get('B') not in ('same', None) and c['seed'] != 'real' and not g.get('A', '').startswith('err') and not g.get('B', '').startswith('err'):
        fails.append(('placement', 'in-place and separate-buffer encodings differ under identical randomness'))
    return fails


def abbreviate(out):
    import re
    return re.sub(r'[0-9a-f]{48,}', lambda m: '<%d bytes>' % (len(m.group(0)) // 2), out)


def session_replay(c, what, msg, out, nsame):
    eff = c04_sess.eff_limit(c['limit'])
    return dict(kind='session', case=c04_sess.short(c), line=c04_sess.go_line(c), method=MNAME[c['m']],
                configuration=dict(MsgOnWireSizeLimit=c['limit'], limit_in_force=eff, per_frame_maximum=eff - HDR - MAXEXTRA,
                                   unordered=bool(c['unordered']), method=MNAME[c['m']], session_key=c['key'].hex(),
                                   single_byte_random_script=c['script'].hex(), operations=c['ops']),
                message=(msg.hex() if msg else None), message_len=(len(msg) if msg else None),
                implementation=abbreviate(out)[:3000], cases_with_this_failure=nsame,
                how='python3 tools/check.py C04 --replay <this file>')


def shrink_sessions(ctx, chosen):
    """one round of shrinking for [(sig, c, what, msg, out)]: every operation of the case on its own (with and without
    the close), smallest first, all candidates in ONE run of the driver; an entry is kept as it is when no candidate
    fails with the same signature"""
    cands = {}
    lines = []
    for n, (sig, c, what, msg, out) in enumerate(chosen):
        ks = []
        for i, op in enumerate(c['ops']):
            if op == 'X':
                continue
            for tail in ([], ['X']):
                ks.append(dict(c, id='%s.s%d.%d%d' % (c['id'], n, i, len(tail)), ops=[op] + tail))
        ks.sort(key=lambda k: sum(int(x) for x in ' '.join(k['ops']).replace(':', ' ').replace(',', ' ').split() if x.isdigit()))
        cands[n] = ks
        lines += [c04_sess.go_line(k) for k in ks]
    try:
        rc, log, go = run_go(ctx, lines, 'shrink')
    except Exception:
        return chosen
    res = []
    for n, (sig, c, what, msg, out) in enumerate(chosen):
        best = (sig, c, what, msg, out)
        for k in cands[n]:
            o = go.get(k['id'])
            hit = [(w2, m2) for s2, w2, m2 in c04_sess.oracle(k, c04_sess.parse_go(o), py_header) if s2 == sig] if o else []
            if hit:
                best = (sig, k, hit[0][0], hit[0][1], o)
                break
        res.append(best)
    return res


def correspondence(ctx, verdict, pr):
    import time
    res = dict(broken=[])
    tphase = {}
    t0 = time.time()

    def lap(name):
        nonlocal t0
        tphase[name] = round(time.time() - t0, 1)
        t0 = time.time()
    G, M, P = gen_cases(ctx)
    S = c04_sess.gen_cases(random.Random(ctx.rng.getrandbits(64)), ctx.quick())
    cdir = vlib.V + '/corpus/C04'
    if os.path.isdir(cdir):
        for fn in sorted(os.listdir(cdir)):
            c = json.load(open(os.path.join(cdir, fn)))
            for k in ('key', 'payload', 'rnd', 'script'):
                if k in c:
                    c[k] = bytes.fromhex(c[k])
            (S if c['id'].startswith('q') else G if c['id'].startswith('g') else M).insert(0, c)
    key0 = hx(bytes(range(32)))
    sweeps = [('sw%d_%d' % (m, lim), '%s GSWEEP %d %s %d 1 %d 1' % ('sw%d_%d' % (m, lim), m, key0, lim, lim - HDR - MAXEXTRA))
              for m in range(4) for lim in LIMITS]
    # 1. the model encodes its own cases; primitives
    bufcases = [c for c in G if c['kind'] == 'buffer-size']
    encbuf = ['%s.mb ENCBUF %d %s %x %x %x %s 0 %s %d' % (c['id'], c['m'], hx(c['key']), c['sid'], c['seq'], c['closing'], hx(c['payload']),
                                                        hx(bytes(TAG[c['m']])), c['buflen']) for c in bufcases]
    mrc1, merr1, mo1 = run_model(ctx, [m_line(c) for c in M] + [i + ' ' + l for i, l in P] + encbuf, 'phase1')
    lap('model_phase1')
    if mrc1 != 0:
        res['broken'].append(('extracted model c04 failed (phase 1)', merr1[-2000:]))
    # 2. Go: encodes G, decodes the model's messages, primitives, exhaustive Go-only sweep
    golines = [g_line(c) for c in G]
    for c in M:
        msg = mo1.get(c['id'])
        if msg and msg != 'none':
            golines.append('%s.d DEC %d %s %s' % (c['id'], c['m'], hx(c['key']), msg))
    golines += [i + ' ' + l for i, l in P] + [l for _, l in sweeps] + [c04_sess.go_line(c) for c in S]
    rc, log, go = run_go(ctx, golines, 'phase2')
    lap('go_driver')
    if rc != 0:
        died = next((c for c in S if c['id'] not in go), None)
        res['broken'].append(('Go driver TestVerifC04 failed to build or run', log[-3000:] +
                              ('\nfirst session case without output (the process may have died in it): ' + c04_sess.go_line(died)[:600] if died else '')))
    # 3. the model decodes and re-encodes what Go produced
    m2 = []
    gparsed = {}
    for c in G:
        o = go.get(c['id'])
        if o is None:
            continue
        g = parse_g(o)
        gparsed[c['id']] = g
        for which in ('A', 'B'):
            v = g.get(which, '')
            if v and v != 'same' and not v.startswith('err') and not v.startswith('panic'):
                m2.append('%s.%s REENC %d %s %s' % (c['id'], which, c['m'], hx(c['key']), v))
    sparsed, snames, sre = {}, {}, {}
    nsmall, nbig = 0, 0
    for c in S:
        o = go.get(c['id'])
        if o is None:
            continue
        g = c04_sess.parse_go(o)
        sparsed[c['id']] = g
        if g['cfg'] is None:
            continue
        line, names = c04_sess.model_line(c, g, py_header)
        snames[c['id']] = names
        m2.append(line)
        # the independent decoder on a sample of what the sessions put on the wire
        for name in g['order']:
            if name[0] not in 'WRX':
                continue
            off = 0
            for k, msg in enumerate(g['ops'][name]['msgs']):
                take = (len(msg) <= 1100 and nsmall < (260 if ctx.quick() else 3000)) or (len(msg) > 8000 and nbig < (3 if ctx.quick() else 40))
                if take:
                    nsmall += len(msg) <= 1100
                    nbig += len(msg) > 8000
                    rid = '%s.%s.%d' % (c['id'], name, k)
                    sre[rid] = (c, name, k, off, msg)
                    m2.append('%s REENC %d %s %s' % (rid, c['m'], hx(c['key']), msg.hex()))
                if len(msg) >= HDR + 8:
                    off += len(msg) - HDR - py_header(c['key'], msg)[3]
    lap('prepare_phase3')
    mrc2, merr2, mo2 = run_model(ctx, m2, 'phase3', nproc=4 if ctx.quick() else 10)
    lap('model_phase3')
    if mrc2 != 0:
        res['broken'].append(('extracted model c04 failed (phase 3)', merr2[-2000:]))

    mism = []        # (size, what, replay)
    nfail = [0]
    known = 0

    def fail(sig, what, c, extra):
        nfail[0] += 1
        if nfail[0] <= 3:
            verdict.oracle_failure(sig, 'C04 oracle: ' + what,
                                   dict(case=short(c), line=(g_line(c) if c['id'].startswith('g') else m_line(c)), method=MNAME[c['m']],
                                        how='python3 tools/check.py C04 --replay <this file>', **extra))

    kinds, padseen, distinct = [], {m: set() for m in range(4)}, set()
    # Go-encoded cases
    for c in G:
        kinds.append('%s/%s' % (MNAME[c['m']], c['kind']))
        g = gparsed.get(c['id'])
        if g is None:
            continue
        distinct.add((c['m'], len(c['payload']), min(c['seq'], PADFIRST), len(g.get('A', ''))))
        for sig, what in oracle_g(c, g):
            fail(sig, what, c, dict(implementation=go.get(c['id'])[:2000]))
        if c['kind'] == 'buffer-size':
            want_none = c['buflen'] < HDR + len(c['payload']) + TAG[c['m']]
            mo = mo1.get(c['id'] + '.mb')
            if mo is not None and (mo == 'none') != want_none or (mo is not None and (mo == 'none') != g.get('A', '').startswith('err')):
                mism.append((len(c['payload']), 'buffer check: model says %s, Go says %s' % (mo[:40], g.get('A', '')[:40]), c))
            continue
        for which in ('A', 'B'):
            v = g.get(which, '')
            if not v or v == 'same' or v.startswith('err') or v.startswith('panic'):
                continue
            mo = mo2.get('%s.%s' % (c['id'], which))
            if mo is None:
                continue
            parts = mo.split(' ', 2)
            if parts[0] == 'none' or len(parts) < 3:
                what = 'the independent decoder (extracted Gallina model) rejects the message Go produced'
                fail('interop-decode', what, c, dict(message=v[:4000], model=mo[:200]))
                mism.append((len(v), what, c))
                continue
            padseen[c['m']].add(int(parts[1].split(':')[0]))
            if parts[1].endswith(':0'):
                what = 'the model\'s obfuscate (pad_len) never pads a frame with seq=%d, Go added %s bytes' % (c['seq'], parts[1].split(':')[0])
                mism.append((len(v), what, c))
            if parts[2] != want_dec(c, ' '):
                what = 'the independent decoder reads a different frame from the message Go produced: ' + parts[2][:120]
                fail('interop-decode', what, c, dict(message=v[:4000], model=parts[2][:300]))
                mism.append((len(v), what, c))
            elif parts[0] != v:
                what = 'the model re-encoding the frame with the recovered padding/random bytes gives different bytes (layout differs)'
                fail('interop-layout', what, c, dict(message=v[:4000], model_message=parts[0][:4000]))
                mism.append((len(v), what, c))
    # model-encoded cases decoded by Go
    for c in M:
        kinds.append('%s/%s' % (MNAME[c['m']], c['kind']))
        msg = mo1.get(c['id'])
        if msg is None:
            continue
        distinct.add((c['m'], len(c['payload']), min(c['seq'], PADFIRST), 'M', c['pad']))
        if msg == 'none':
            mism.append((0, 'model refused to encode a legal frame', c))
            continue
        d = go.get(c['id'] + '.d')
        if d is None:
            continue
        if d != want_dec(c, ' '):
            what = 'deobfuscate does not decode a message of the Cloak-v2 layout produced by the independent encoder: ' + d[:120]
            fail('interop-encode', what, c, dict(message=msg[:4000], implementation=d[:300]))
            mism.append((len(msg), what, c))
    # real Sessions with a configured limit
    skinds, sdistinct, smsgs, smism, sfails = [], set(), 0, [], {}
    for c in S:
        skinds.append('%s/%s/%s' % (MNAME[c['m']], c['kind'], 'unordered' if c['unordered'] else 'ordered'))
        g = sparsed.get(c['id'])
        if g is None:
            continue
        for name in g['order']:
            for msg in g['ops'][name]['msgs']:
                smsgs += 1
                sdistinct.add((c['m'], c['limit'], c['unordered'], name[0], len(msg)))
        for sig, what, msg in c04_sess.oracle(c, g, py_header):
            sfails.setdefault(sig, []).append((c, what, msg))
        mo = mo2.get(c['id'])
        if mo is not None and c['id'] in snames:
            for d in c04_sess.compare(c, g, mo, snames[c['id']], py_header):
                smism.append((sum(len(x) for x in c['ops']), d, c))
    for rid, (c, name, k, off, msg) in sre.items():
        mo = mo2.get(rid)
        if mo is None:
            continue
        parts = mo.split(' ', 2)
        if parts[0] == 'none' or len(parts) < 3:
            smism.append((len(msg), 'the independent decoder rejects message %d of %s (limit %d)' % (k, name, c['limit']), c))
            sfails.setdefault('session-interop-decode', []).append((c, 'the independent decoder (extracted Gallina model) rejects message %d of %s' % (k, name), msg))
            continue
        fld = parts[2].split(' ')
        if parts[0] != msg.hex():
            smism.append((len(msg), 'the model re-encoding message %d of %s gives different bytes' % (k, name), c))
        if name[0] in 'WR' and len(fld) >= 5:
            idx = int(name[1:])
            want = c04_sess.pattern(c['seed'], idx, int(c['ops'][idx].split(':')[1]))
            pl = unhx(fld[4])
            if fld[1] != '1' or fld[3] != '0' or pl != want[off:off + len(pl)]:
                sfails.setdefault('session-interop-decode', []).append(
                    (c, 'the independent decoder reads sid=%s closing=%s and a payload that is not the next %d bytes written (message %d of %s)'
                     % (fld[1], fld[3], len(pl), k, name), msg))
    # report order: the size clause first; within a signature the limit the commands configure, then the
    # documented small ones, then the rest; smallest message first
    prio = ['session-size-limit', 'session-frame-maximum', 'session-write-refused', 'session-peer-roundtrip']
    kprio = {'session/commands': 0, 'session/small': 1, 'session/default': 2, 'session/default-explicit': 2}
    chosen = []
    for sig in sorted(sfails, key=lambda x: (prio.index(x) if x in prio else len(prio), x)):
        lst = sfails[sig]
        c, what, msg = min(lst, key=lambda t: (kprio.get(t[0]['kind'], 3), len(t[2]) if t[2] else 0, sum(len(x) for x in t[0]['ops'])))
        nfail[0] += 1
        if nfail[0] <= 4:
            chosen.append((sig, c, what, msg, sparsed[c['id']]['raw'] if c['id'] in sparsed else ''))
    if chosen:
        for sig, c2, what2, msg2, out2 in shrink_sessions(ctx, chosen):
            verdict.oracle_failure(sig, 'C04 oracle: ' + what2, session_replay(c2, what2, msg2, out2, len(sfails[sig])))
    if smism and rc == 0 and mrc2 == 0:
        sz, what, c = min(smism, key=lambda t: t[0])
        res['broken'].append(('model SessionLimit.v vs MakeSession / Stream.Write / ReadFrom / closing notices: %d differences' % len(smism),
                              'smallest differing case: %s\n%s\nimplementation: %s' % (json.dumps(c04_sess.short(c))[:1500], what, abbreviate(sparsed[c['id']]['raw'])[:1500])))
    # primitives
    pbad = []
    for i, l in P:
        a, b = go.get(i), mo1.get(i)
        if a is not None and b is not None and a != b:
            pbad.append((i, l[:300], a[:80], b[:80]))
    if pbad:
        res['broken'].append(('Gallina cipher primitive differs from Go: %d of %d vectors' % (len(pbad), len(P)), json.dumps(pbad[0])))
    # exhaustive Go-only sweep
    sweep_n = 0
    for i, l in sweeps:
        o = go.get(i)
        if o is None:
            continue
        d = parse_g(o)
        sweep_n += int(d.get('n', 0))
        if d.get('fail') != 'none':
            m = int(i[2])
            fail('sweep-' + d.get('fail', '?').split(',')[-1].split(':')[0], 'exhaustive length sweep (Go only), %s limit %s: %s' % (MNAME[m], i.split('_')[1], d.get('fail')),
                 dict(id=i, m=m, key=bytes(range(32)), sid=0, seq=0, closing=0, payload=b''), dict(line=l, implementation=o))
        elif int(d.get('padded', 0)) == 0:
            fail('no-padding', 'no frame with seq < 5 carried padding in %s encodes' % d.get('n'),
                 dict(id=i, m=int(i[2]), key=bytes(range(32)), sid=0, seq=0, closing=0, payload=b''), dict(line=l, implementation=o))
    if mism and rc == 0 and mrc1 == 0 and mrc2 == 0:
        sz, what, c = min(mism, key=lambda t: t[0])
        res['broken'].append(('model Codec.v vs obfs.go: %d cases differ' % len(mism),
                              'smallest differing case: %s\n%s' % (json.dumps(short(c))[:1500], what)))
    lap('evaluation')
    ctx.c04 = dict(G=G, M=M, S=S)
    kinds += skinds
    verdict.cov.update(
        phase_seconds=tphase,
        sessions=dict(built=len(sparsed), limits=sorted(set(c['limit'] for c in S)), messages_on_the_wire=smsgs,
                      messages_through_the_independent_decoder=len(sre), model_differences=len(smism),
                      oracle_failures={k: len(v) for k, v in sfails.items()}),
        evaluations=len(G) + len(M) + len(P) + sweep_n + smsgs, distinct_nontrivial=len(distinct) + len(sdistinct),
        rule='sessions: distinct (method, configured limit, mode, operation, message length) of the messages real Sessions built by MakeSession put on the wire, each compared with the model plan and judged by the oracle; '
             'codec: distinct (method, payload length, seq class, message length / padding) among the model-compared cases; '
             'Go encodes -> model decodes + re-encodes with recovered padding (bytes identical); model encodes -> Go decodes; '
             'cipher primitives Go vs Gallina; plus a Go-only exhaustive sweep of every payload length 1..max for both limits, 4 methods, seq in {0,4,5,2^64-1}, both placements (%d encodes)' % sweep_n,
        samples=[g_line(G[0])[:300], m_line(M[0])[:300], P[0][1][:200], c04_sess.go_line(S[0])[:300]],
        traces_validated_against_impl=len(gparsed) + sum(1 for c in M if go.get(c['id'] + '.d')) + sum(1 for i, _ in P if go.get(i)) + len(snames),
        mismatches=len(mism), oracle_failures=nfail[0], primitive_vectors=len(P), primitive_mismatches=len(pbad),
        paddings_seen={MNAME[m]: len(s) for m, s in padseen.items()},
        go_only_sweep_encodes=sweep_n,
        input_distribution=vlib.summarize_dist(kinds), exhaustive=False)
    return res


def replay(ctx, verdict):
    r = ctx.replay
    line = r.get('line')
    if not line:
        print(json.dumps(r, indent=1)[:3000]); return 0
    if r.get('kind') == 'session':
        c = dict(r['case'])
        c['key'] = bytes.fromhex(c['key']); c['script'] = bytes.fromhex(c['script'])
        print('configuration:', json.dumps(r.get('configuration'))[:600])
        rc, log, go = run_go(ctx, [line], 'replay')
        o = go.get(c['id'])
        if o is None:
            print('the driver produced nothing:', log[-1500:]); return 1
        print('implementation:', abbreviate(o)[:2000])
        fails = c04_sess.oracle(c, c04_sess.parse_go(o), py_header)
        for sig, what, msg in fails:
            print('oracle:', sig, what)
            if msg:
                print('  message (%d bytes): %s' % (len(msg), msg.hex()[:160] + ('...' if len(msg) > 80 else '')))
        return 1 if fails else 0
    print('case:', line[:400])
    if ' ENC ' in line:
        mrc, merr, mo = run_model(ctx, [line], 'replay')
        cid = line.split()[0]
        msg = mo.get(cid)
        print('model encodes to:', (msg or '')[:400])
        f = line.split()
        rc, log, go = run_go(ctx, ['%s.d DEC %s %s %s' % (cid, f[2], f[3], msg)], 'replay')
        print('Go decodes it as:', go.get(cid + '.d'))
        want = 'ok %s %s %s %s' % (f[4], f[5], f[6], f[7])
        print('expected        :', want[:400])
        return 1 if go.get(cid + '.d') != want else 0
    cid = line.split()[0]
    f = line.split()
    if ' GENC ' in line and f[8] == 'real':
        # the case used the real crypto/rand: repeat it, the failure may depend on the draw
        lines = ['%s.%d %s' % (cid, k, line.split(' ', 1)[1]) for k in range(60)]
    else:
        lines = [line]
    rc, log, go = run_go(ctx, lines, 'replay')
    if ' GENC ' not in line:
        print('implementation:', (go.get(cid) or log[-1000:])[:1000])
        return 1 if 'fail=none' not in (go.get(cid) or '') else 0
    bad = False
    m2 = []
    cs = {}
    for ln in lines:
        i = ln.split()[0]
        g = parse_g(go.get(i) or '')
        c = dict(id=i, kind=r.get('case', {}).get('kind', ''), m=int(f[2]), key=unhx(f[3]), sid=int(f[4], 16), seq=int(f[5], 16), closing=int(f[6], 16),
                 payload=unhx(f[7]), seed=f[8], buflen=int(f[9]), limit=r.get('case', {}).get('limit', int(f[9])))
        cs[i] = (c, g)
        fails = oracle_g(c, g)
        if fails:
            bad = True
            print('implementation (%s):' % i, (go.get(i) or log[-1000:])[:600])
            for s_, w in fails:
                print('oracle:', s_, w)
        m2 += ['%s.%s REENC %s %s %s' % (i, w, f[2], f[3], g[w]) for w in ('A', 'B') if g.get(w) and g[w] != 'same' and not g[w].startswith('err')]
    mrc, merr, mo = run_model(ctx, m2, 'replay')
    nok = 0
    for k, v in sorted(mo.items()):
        i, w = k.rsplit('.', 1)
        c, g = cs[i]
        parts = v.split(' ', 2)
        ok = len(parts) == 3 and parts[2] == want_dec(c, ' ') and parts[0] == g[w] and not parts[1].endswith(':0')
        if ok:
            nok += 1
        else:
            print('independent decoder on %s: DIFFERS: %s' % (k, v[:300]))
            bad = True
    print('independent decoder: %d of %d messages decode to the frame and re-encode to identical bytes' % (nok, len(mo)))
    return 1 if bad else 0


MANIFEST = dict(
    technique='Coq proofs about a hand-written byte-level model of obfuscate/deobfuscate with real ciphers written in Gallina (generic encrypt-then-MAC round trip proved once, instantiated for AES-GCM and ChaCha20-Poly1305); model tied to the code by differential execution in both directions (Go encodes -> extracted model decodes and re-encodes bit-identically; model encodes -> Go decodes), primitives compared with Go on every run; Go-only exhaustive length sweep; independent Python header decoder; the derivation of the per-frame payload maximum and of the buffer sizes from the CONFIGURED MsgOnWireSizeLimit is part of the model (Model/SessionLimit.v: MakeSession, Stream.Write ordered/unordered, ReadFrom, closing notices) and is compared on every run with real Sessions built through MakeSession for a family of configured limits (the value the commands configure, the default, small and boundary values), traffic of 1x..3x the payload maximum through a harness-owned connection pair, every on-wire message judged against the configured limit and delivery checked at the peer session',
    level_text='C04_roundtrip, C04_size_limit, C04_layout, C04_interop, C04_padding_threshold and extra_len_fits_byte are proved in Coq for all four methods, every key, every stream id < 2^32, sequence number < 2^64, closing < 256, every non-empty payload of any length, every admissible padding length and all random bytes (no bound); the size-limit and byte-fit theorems are proved about the constants regenerated from /repo. C04_session_write_within_limit / _read_from_ / _closing_within_limit: for EVERY configured limit (any Go int; <= 0 selects the default), both modes, every method, key, input, padding draw and sequence number, every message a Session puts on the wire is at most the limit in force; C04_session_write_complete: above 269 a Write is accepted whole and its messages decode to the consecutive chunks of the input; C04_session_limit_below_overhead / _equal_overhead: what the code does for limits that carry no frame (panic / refused empty frame, nothing on the wire); C04_session_limits_in_use: the sizes a real MakeSession reported to the generator equal the derived ones. The extracted model is the independent implementation of the Cloak-v2 layout that the property asks for: on every run it decodes and bit-identically re-encodes what the real obfuscate emits (both buffer placements) and its own encodings are decoded by the real deobfuscate.',
    level_note='Trusted: Coq kernel, extraction, the hand-written model (sampled correspondence), Go crypto libraries only as comparison targets. Near-maximum payloads are sampled (the Gallina ciphers cost ~0.25 s per 16 KiB pass); the Go-only sweep covers every length exhaustively.',
    design_ref='DESIGN.md section 6, C04')
