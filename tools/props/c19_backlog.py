"""C19 - long-backlog scenario families and the oracle clause for intervals that begin when the valve is made.

Why: the limiter model (Model/Bucket.v) gives a request the wait its debt demands, WITHOUT an upper limit
(theorems C19_never_released_early, C19_backlog_wait, C19_wait_unbounded).  A valve that stops waiting
beyond some duration (seeded change C19_r2m2: WaitMaxDuration(n, 30 s), result ignored) behaves
identically until more than that many seconds of demand are queued on the user's bucket, so the
correspondence has to build such backlogs: message/rate ratios and summed demands of concurrently blocked
senders crossing 1 s, 10 s, 30 s, 31 s, 60 s, 10 min and 1 h (virtual time: free), on

  B  the library bucket with an injected clock (Take / TakeMaxDuration / Wait / WaitMaxDuration back to back),
  L  the real LimitedValve called directly (rxWait / txWait through the Valve interface, N goroutines),
  S  real Sessions with the real valve (several streams / connections / sessions on ONE valve), both directions,
  O  several sessions of one user admitted through the real userPanel (tools/props/c19.py: overlap driver).

Everything here is generated from the rng handed in; the L and multi-writer S cases with pairwise distinct
request times are deterministic and are compared with the model to the nanosecond (Q lines)."""

S = 10**9
THRESHOLDS = [1, 10, 30, 31, 60, 600, 3600]          # seconds of backlog the families cross
MAXUNIT = 16371
OVH = 30                                              # frame = payload + 14 (header) + 16 (AEAD tag); 16401 - 16371
PADMAX = 239                                          # maxExtraLen - tag: random padding of the first padFirstNFrames frames of a stream


def crossed(demand_s):
    """largest threshold the demand (seconds of the configured rate) reaches, 0 if none"""
    r = 0
    for th in THRESHOLDS:
        if demand_s >= th:
            r = th
    return r


def tally(stats, driver, dirn, fam, demand_s, new_failures):
    """coverage bookkeeping: scenarios per driver/direction by largest threshold crossed, per family, and which
    families produced an oracle failure that is not the known finding"""
    k = '%s:%s' % (driver, dirn)
    d = stats['by_threshold_crossed'].setdefault(k, {})
    t = '>=%ds' % crossed(demand_s)
    d[t] = d.get(t, 0) + 1
    f = stats.setdefault('families', {})
    fk = '%s:%s' % (driver, fam)
    f[fk] = f.get(fk, 0) + 1
    if new_failures:
        o = stats.setdefault('oracle_failures_by_family', {})
        ok = '%s:%s:%s' % (driver, dirn, fam)
        o[ok] = o.get(ok, 0) + 1


# ---------------------------------------------------------------------------------------------
# B: the library bucket with a fake clock
def bucket_lines(rng, quick):
    out = []

    def add(rate, cap, ops, fam):
        cid = 'BL%d' % len(out)
        out.append((cid, 'B %s %d %d %s' % (cid, rate, cap, ' '.join(ops)), dict(kind='B', rate=rate, cap=cap, nops=len(ops), family=fam)))
    # (i) one request whose wait is just below / at / just above each threshold; the limited variants asked
    #     with exactly that threshold as maximum (refused <=> wait > maximum, and a refusal takes nothing)
    for th in THRESHOLDS:
        for rate in (1000, 500, 37, 250000):
            for d in (-(rate // 100) - 1, 0, 1, rate // 100 + 1):
                m = rate + rate * th + d
                add(rate, rate, ['M:%d:%d' % (m, th * S), 'V', 'X:%d:%d' % (m, th * S), 'V', 'T:%d' % m, 'V',
                                 'M:1:%d' % (30 * S), 'X:1:%d' % (th * S + S), 'W:1', 'V', 'T:1'], 'single-request-at-threshold')
    # (ii) k requests back to back: the summed demand crosses every threshold in turn
    for rate, n in ((1000, 8000), (500, 16030), (100, 1400), (5000, 16401), (20, 8000), (1000, 100)):
        ops, demand, nxt = [], 0, 0
        k = 0
        while nxt < len(THRESHOLDS) and k < 400:
            ops.append('T:%d' % n); demand += n; k += 1
            if k % 7 == 3:
                ops.append('A:%d' % rng.choice([1, 1000, S // 1000]))
            while nxt < len(THRESHOLDS) and demand - rate >= THRESHOLDS[nxt] * rate:
                ops += ['M:%d:%d' % (n, 30 * S), 'X:%d:%d' % (n, 30 * S), 'V']
                nxt += 1
            if n * 400 < THRESHOLDS[min(nxt, len(THRESHOLDS) - 1)] * rate:
                break
        ops += ['W:%d' % n, 'V', 'T:1']
        add(rate, rate, ops, 'back-to-back')
    # (iii) seeded: a bucket driven deep into debt by all four entry points
    for _ in range(60 if quick else 1500):
        rate = rng.choice([1, 4, 27, 100, 263, 500, 1000, 1640, rng.randrange(1, 3000)])
        cap = rate if rng.random() < 0.8 else rng.choice([1, rate * 10])
        ops = []
        for _ in range(rng.randrange(6, 40)):
            r = rng.random()
            c = rng.choice([1, 100, 1400, 8000, 16030, 16401, rng.randrange(1, 40000), rate * rng.choice(THRESHOLDS)])
            mx = rng.choice([S, 10 * S, 30 * S, 30 * S, 31 * S, 60 * S, 600 * S, 3600 * S])
            if r < 0.35:
                ops.append('T:%d' % c)
            elif r < 0.5:
                ops.append('W:%d' % c)
            elif r < 0.65:
                ops.append('X:%d:%d' % (c, mx))
            elif r < 0.8:
                ops.append('M:%d:%d' % (c, mx))
            elif r < 0.9:
                ops.append('A:%d' % rng.choice([0, 1, S // 1000, S, rng.randrange(40 * S)]))
            else:
                ops.append('V')
        add(rate, cap, ops, 'seeded-debt')
    return out


# ---------------------------------------------------------------------------------------------
# L: the real valve called directly
def valve_lines(rng, quick):
    out = []

    def add(dirn, rate, callers, fam):
        other = rate * 7 + 13
        rx, tx = (other, rate) if dirn == 'tx' else (rate, other)
        cid = 'L%d' % len(out)
        line = 'L %s %s %d %d %s' % (cid, dirn, rx, tx, ' '.join('C:%d:%d:%d:%d' % c for c in callers))
        demand = sum(n * cnt for (_, n, cnt, _) in callers)
        out.append((cid, line, dict(kind='L', dir=dirn, rate=rate, rx=rx, tx=tx, callers=callers, nsess=len(callers), tag=fam,
                                    demand_s=demand / float(rate), line=line)))
    # (i) one caller, message/rate ratio at each threshold (the wait of the 2nd and 3rd call is the ratio itself)
    for th in THRESHOLDS:
        rate = 1000 if th <= 60 else (100 if th == 600 else 10)
        for dirn in ('tx', 'rx'):
            add(dirn, rate, [(0, rate * th + rate, 3, 0)], 'ratio')
            add(dirn, rate, [(0, rate * th + rate + 1 + rate // 100, 2, 0)], 'ratio')
    for dirn in ('tx', 'rx'):
        add(dirn, 500, [(0, 16030, 3, 0)], 'ratio')                # a 16000-byte write at 500 B/s: 31.06 s per frame
        add(dirn, 520, [(0, 16030, 3, 0)], 'ratio')                # 29.8 s: just below
        add(dirn, 4, [(0, 16030, 2, 0)], 'ratio')                  # more than an hour per frame
    # (ii) N callers blocked on the one valve at (almost) the same time: summed demand crosses the thresholds
    k = 0
    for rate, n, counts in ((1000, 8000, (1, 2, 4, 5, 8, 76, 451)), (100, 1400, (3, 5, 44, 258)), (500, 16030, (1, 2, 3))):
        for N in counts:
            if quick and N > 100 and rate != 1000:
                continue
            for dirn in (('tx', 'rx') if N <= 8 else (('tx', 'rx')[k % 2],)):
                add(dirn, rate, [(i, n, 1, 0) for i in range(N)], 'blocked-callers')
            k += 1
    # (iii) mixtures: small messages behind a big one, a big one behind small ones, a trickle beside a big one
    for dirn in ('tx', 'rx'):
        add(dirn, 500, [(0, 16030, 1, 0)] + [(1000 + i, 200, 10, 0) for i in range(5)], 'small-behind-big')
        add(dirn, 1000, [(i, 1000, 3, 0) for i in range(10)] + [(100, 16030, 2, 0)], 'big-behind-small')
        add(dirn, 1000, [(0, 40000, 1, 0), (S // 2, 100, 100, S // 2)], 'trickle-beside-big')
        add(dirn, 1000, [(0, 16401, 2, 0), (5, 16401, 2, 0), (7 * S, 50, 40, 0)], 'two-big-then-burst')
    # (iv) seeded
    for _ in range(30 if quick else 600):
        rate = rng.choice([4, 100, 500, 1000, 1000, 5000, rng.randrange(10, 20000)])
        N = rng.choice([1, 2, 3, 4, 6, 12])
        delays = rng.sample(range(0, 2000), N)
        callers = []
        for i in range(N):
            n = rng.choice([1, 100, 1400, 8000, 16030, 16401, 40000, rate * rng.choice(THRESHOLDS)])
            callers.append((delays[i] if rng.random() < 0.7 else delays[i] + rng.choice([S, 29 * S, 31 * S]), n,
                            rng.randrange(1, 5), rng.choice([0, 0, 1, S // 10, 2 * S])))
        add(rng.choice(['tx', 'rx']), rate, callers, 'seeded')
    return out


def parse_L(out):
    head, _, ev = out.partition('|')
    d = dict(tok.partition('=')[::2] for tok in head.split())
    d['calls'] = [tuple(int(x) for x in e.split(':')) for e in ev.split()]        # (req, rel, n, who)
    # events as the session scenarios report them: (release time, bytes, who), in order of release
    d['events'] = [(rel, n, who) for (req, rel, n, who) in sorted(d['calls'], key=lambda c: (c[1], c[0]))]
    d['wire'] = {}
    return d


def q_line(cid, params, reqs):
    """reqs = [(t rel. to the bucket's start, count)] in the order they reach the bucket"""
    q, F, cap = params
    return 'Q %s %d %d %d %s' % (cid, q, F, cap, ' '.join('%d:%d' % r for r in reqs))


def model_line_L(cid, d, params):
    """the model's [run] on the calls in the order they reached the bucket.  Calls made at the same instant
    are ordered by their observed return (release ticks are monotone in bucket order: Proofs/Bucket.v rel_mono),
    an input read off the implementation like every scheduler choice; -> (Q line, expected output)"""
    t0 = int(d['t0'])
    calls = sorted(d['calls'], key=lambda c: (c[0], c[1], c[2]))
    return (q_line(cid, params, [(req - t0, n) for (req, rel, n, who) in calls]),
            ' '.join('%d:%d' % (rel - t0, n) for (req, rel, n, who) in calls))


# ---------------------------------------------------------------------------------------------
# S: real sessions
def session_scens(scen, rng, quick):
    """scen(dir, rate, nsess, nconn, writers[(session, size, count, gap, delay)], tag)"""
    for dirn in ('tx', 'rx'):
        # message/rate ratio: a 16000-byte write (one 16030-byte frame) at rates from 1 s to more than 1 h per frame
        for rate in (16030, 1603, 520, 500, 263, 27, 4):
            scen(dirn, rate, 1, 1, [(0, 16000, 2, 0, 0)], 'backlog-ratio')
        scen(dirn, 1000, 1, 1, [(0, 40000, 2, 0, 0)], 'backlog-ratio')                 # 3 frames per write, 79 s in all
        # N senders blocked at once on ONE valve: streams of one session, connections, sessions of one user
        for N in (2, 4, 5, 8):
            ws = [(0, 8000, 1, 0, i * 1000) for i in range(N)]
            if dirn == 'tx':
                scen(dirn, 1000, 1, 1, ws, 'blocked-streams')
            scen(dirn, 1000, 1, min(N, 4), ws, 'blocked-conns')
            scen(dirn, 1000, N, 1, [(i, 8000, 1, 0, i * 1000) for i in range(N)], 'blocked-sessions')
        scen(dirn, 100, 8, 1, [(i, 8000, 1, 0, i * 1000) for i in range(8)], 'blocked-sessions')     # 640 s
        scen(dirn, 20, 9, 1, [(i, 8000, 1, 0, i * 1000) for i in range(9)], 'blocked-sessions')      # 1 h
        scen(dirn, 1000, 2, 1, [(s, 8000, 1, 0, 1000 * (3 * s + j)) for s in range(2) for j in range(3)], 'two-sessions-three-streams')
        scen(dirn, 1000, 3, 2, [(s, 8000, 2, 0, 1000 * (2 * s + j)) for s in range(3) for j in range(2)], 'three-sessions-two-conns')
        # mixtures
        scen(dirn, 500, 2, 1, [(0, 16000, 1, 0, 0), (1, 200, 10, 0, 1000), (1, 100, 10, 0, 2000)], 'small-behind-big')
        scen(dirn, 1000, 3, 1, [(0, 1000, 6, 0, 0), (1, 1000, 6, 0, 1000), (2, 16000, 2, 0, 2000)], 'big-behind-small')
        scen(dirn, 1000, 2, 1, [(0, 16000, 3, 0, 0), (1, 100, 60, S // 2, S // 2)], 'trickle-beside-big')
    if not quick:
        for _ in range(120):
            rate = rng.choice([4, 27, 263, 500, 1000, 1640, rng.randrange(50, 5000)])
            nsess = rng.randrange(1, 5)
            ws = []
            for i in range(rng.randrange(1, 9)):
                ws.append((rng.randrange(nsess), rng.choice([100, 1400, 8000, 16000, 16371, 30000]), rng.randrange(1, 4),
                           rng.choice([0, 0, S // 10]), i * 1000 + rng.choice([0, 0, S, 31 * S])))
            scen(rng.choice(['tx', 'rx']), rate, nsess, rng.randrange(1, 3), ws, 'backlog-random')


def model_line_Q(cid, m, d, params):
    """Several writers, each sending ONE frame at its own instant: the order in which the requests reach the
    bucket is the order of the delays, so the release times are determined: -> (Q line, expected) or None.
    tx: any placement (Stream.Write -> switchboard.send -> txWait, nothing shared in front of the valve);
    rx: every writer on a session of its own with one connection (one deplex goroutine per frame)."""
    ws = m['writers']
    if len(ws) < 2 or any(c != 1 or sz > MAXUNIT for (_, sz, c, _, _) in ws):
        return None
    if len(set(w[4] for w in ws)) != len(ws):
        return None
    if m['dir'] == 'rx' and (m['nconn'] != 1 or len(set(w[0] for w in ws)) != len(ws)):
        return None
    t0 = int(d['t0'])
    evs = sorted((e[0] - t0, e[1]) for e in d['events'])
    if len(evs) != len(ws):
        return 'BAD'
    if any(evs[i][0] == evs[i + 1][0] and evs[i][1] != evs[i + 1][1] for i in range(len(evs) - 1)):
        return None                       # two different frames released in the same instant: which was first is not observable
    # the i-th frame released is the i-th requested (release ticks are monotone in bucket order); its size is read off
    # the implementation: the first frames of a stream carry 0..PADMAX random padding bytes
    wsd = sorted(ws, key=lambda w: w[4])
    for w, (t, n) in zip(wsd, evs):
        if not (w[1] + OVH <= n <= w[1] + OVH + PADMAX):
            return 'BAD'
    return q_line(cid, params, [(w[4], n) for w, (t, n) in zip(wsd, evs)]), evs


def parse_q_out(txt):
    return sorted(tuple(int(x) for x in tok.split(':')) for tok in (txt or '').split())


# ---------------------------------------------------------------------------------------------
# O: sessions of one user admitted through the real userPanel (server->client direction)
def overlap_cases():
    out = []

    def add(tag, up, down, sched, writers):
        cid = 'OL%d' % len(out)
        line = 'O %s %d %d %s %s' % (cid, up, down, ','.join(sched), ' '.join('W:%d:%d:%d:%d:%d' % w for w in writers))
        out.append((cid, line, dict(kind='O', dir='tx', rate=down, rx=up, tx=down, nsess=len(set(w[0] for w in writers)), tag=tag,
                                    schedule=sched, writers=writers, line=line)))
    # the demonstration of seeded change C19_r2m2: two sessions, three streams each with 8000 bytes pending at 1000 B/s
    add('backlog-two-sessions-three-streams', 50000, 1000, ['s0a', 's1a', 'r1', 'r0'],
        [(s, 8000, 1, 0, 1000 * (3 * s + j)) for s in range(2) for j in range(3)])
    add('backlog-one-big-message', 50000, 500, ['s0', 's1'], [(0, 16000, 2, 0, 0), (1, 200, 10, 0, 1000)])
    add('backlog-four-sessions', 50000, 1000, ['s0a', 's1a', 's2', 's3', 'r0', 'r1'], [(i, 8000, 2, 0, 1000 * i) for i in range(4)])
    add('backlog-ten-minutes', 5000, 100, ['s0', 's1', 's2'], [(i, 8000, 3, 0, 1000 * i) for i in range(3)])
    add('backlog-one-hour', 5000, 20, ['s0a', 's1', 'r0'], [(i, 16000, 3, 0, 1000 * i) for i in range(2)])
    return out


# ---------------------------------------------------------------------------------------------
# oracle clause: intervals that begin when the valve is made (theorem C19_bound_from_start)
def from_start_excess(q, F, cap, ts, pre):
    """ts[j] = time of event j since the valve was made, pre[j+1] = bytes of events 0..j.
    Everything released in [0, e] <= capacity + quantum * (e div fillInterval): no allowance for the largest
    message (the literal bound of the property holds for these intervals, so an excess here is never F14).
    -> (excess, j, bytes, bound) of the worst instant, or None"""
    worst = None
    n = len(ts)
    for j in range(n):
        if j + 1 < n and ts[j + 1] == ts[j]:
            continue
        lim = cap + q * (max(ts[j], 0) // F)
        if pre[j + 1] > lim:
            ex = pre[j + 1] - lim
            if worst is None or ex > worst[0]:
                worst = (ex, j, pre[j + 1], lim)
    return worst
