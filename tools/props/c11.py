"""C11 - forged, foreign or modified frames are rejected; garbage never breaks a session."""
import os, json, re, subprocess
import vlib

PROP_FILES = ['Properties/C11']
EXTRA_OBLIGATION_FILES = ['Proofs/AEAD', 'Proofs/Crypto', 'Proofs/Codec', 'Proofs/CodecAuth', 'Proofs/AtomMux']
TRUSTED = [
    'Coq 8.16.1 kernel incl. vm_compute (no native_compute); C11_no_panic, C11_refuted, C11_witness_*, C11_partial, C11_accepted_is_sealed, C11_partial_not_vacuous, C11_drop_no_effect: Closed under the global context',
    'hand-written model coq/Model/Codec.v of deobfuscate (Go slices as checked zslice with explicit Panic; the in-place Open is modelled as plaintext ++ remaining tag bytes) and of the first step of recvDataFromRemote (abstract session state + handler)',
    'C11_partial / C11_accepted_is_sealed are conditional on two hypotheses in the theorem statement (not axioms): ideal_aead "Open n c = Some p -> c = Seal n p" and ideal_binding "Seal n p = Seal n\' p\' -> n = n\' /\\ p = p\'" for 12-byte nonces; unforgeability is computational and is not a theorem about AES-GCM or ChaCha20-Poly1305; satisfiability shown by C11_partial_not_vacuous (toy scheme)',
    'Gallina re-implementations of the ciphers (validated against Go in the C04 check and on RFC / FIPS vectors inside Coq)',
    'correspondence: in-package Go driver harness/multiplex/c11_test.go on the real Obfuscator / Session vs extracted OCaml model ocaml/c11_driver.ml (ExtrOcamlBasic only)',
    'live-session part is Go-only (no model): real MakeSession + recvDataFromRemote under recover(), state = (len(streams), activeStreamCount, len(acceptCh), closed)',
]
ASSUMPTIONS = [
    'modifications considered by the correspondence: single-bit flips, truncations, extensions by 1..16 bytes, 2..7-byte corruptions, foreign key / foreign method; the theorems C11_no_panic and C11_drop_no_effect cover every byte string',
    'plain method: only the no-crash part applies (the property excludes it from authenticity)',
]

MNAME = {0: 'plain', 1: 'aes-256-gcm', 2: 'chacha20-poly1305', 3: 'aes-128-gcm'}
AEADS = [1, 2, 3]
UNAUTH = 'aead-unauthenticated-header-byte-%d'
# the Coq witness (Proofs/CodecAuth.v: ex_key, ex_frame, padLen 3, rnd = 200,201,...)
EX_KEY = bytes(range(32))
EX_PAYLOAD = b'hello'


def hx(b):
    return b.hex() if b else '-'


def unhx(s):
    return b'' if s == '-' else bytes.fromhex(s)


def run_go(ctx, lines, tag):
    inp = '%s/%s.go.in' % (ctx.work, tag)
    out = '%s/%s.go.out' % (ctx.work, tag)
    open(inp, 'w').write('\n'.join(lines) + '\n')
    rc, log, dt = vlib.go_test(ctx, 'multiplex', 'TestVerifC11', files=['c11_test.go'], env=dict(VERIF_IN=inp, VERIF_OUT=out))
    return rc, log, vlib.read_lines_by_id(out)


def run_model(ctx, lines, tag, nproc=6):
    binp = '%s/ocaml/bin/c11' % vlib.V
    if not os.path.exists(binp):
        return 127, 'model binary %s missing (extraction or OCaml build failed)' % binp, {}
    if not lines:
        return 0, '', {}
    order = sorted(range(len(lines)), key=lambda i: -len(lines[i]))
    nproc = max(1, min(nproc, len(lines)))
    procs = []
    for k in range(nproc):
        inp = '%s/%s.model.%d.in' % (ctx.work, tag, k)
        out = '%s/%s.model.%d.out' % (ctx.work, tag, k)
        open(inp, 'w').write('\n'.join(lines[i] for i in order[k::nproc]) + '\n')
        procs.append((subprocess.Popen([binp], stdin=open(inp), stdout=open(out, 'w'), stderr=subprocess.PIPE, text=True), out))
    rc, err, res = 0, '', {}
    for p, out in procs:
        try:
            _, e = p.communicate(timeout=3000)
        except subprocess.TimeoutExpired:
            p.kill(); e = 'model timeout'; rc = 124
        if p.returncode:
            rc = rc or p.returncode
            err += e or ''
        res.update(vlib.read_lines_by_id(out))
    return rc, err, res


def gen(ctx):
    rng = ctx.rng
    q = ctx.quick()
    cases = []   # dict(id, op, m, spec fields, extra)
    n = [0]

    def spec(m, plen, seq):
        return dict(m=m, key=rng.randbytes(32), sid=rng.choice([1, 2, 0xffffffff, rng.randrange(2 ** 32)]), seq=seq,
                    closing=rng.choice([0, 0, 1, 2]), payload=rng.randbytes(plen), seed=rng.randrange(1, 2 ** 62))

    def add(op, sp, **extra):
        c = dict(sp); c.update(id='%s%d' % (op[0].lower(), n[0]), op=op, **extra)
        n[0] += 1
        cases.append(c)

    padded = [1, 2, 9, 17, 33, 50] if q else [1, 2, 3, 5, 9, 17, 33, 50, 64, 100, 200, 300]
    unpadded = [1, 16, 64, 120, 200, 370] if q else [1, 2, 15, 16, 17, 64, 120, 200, 370, 700, 1200, 2000]
    ncorr = 42 if q else 300
    for m in AEADS:
        honest = [spec(m, L, rng.choice([0, 1, 2, 3, 4])) for L in padded] + \
                 [spec(m, L, rng.choice([5, 6, 2 ** 32, 2 ** 64 - 1])) for L in unpadded]
        for sp in honest:
            add('FLIPS', sp)
            add('TRUNC', sp)
            add('EXT', sp, ext=rng.randbytes(16))
            add('CORR', sp, cseed=rng.randrange(1, 2 ** 62), count=ncorr)
            add('FOREIGN', sp, m2=m, key2=rng.randbytes(32))
            flipped = bytearray(sp['key']); flipped[rng.randrange(32)] ^= 1 << rng.randrange(8)
            add('FOREIGN', sp, m2=m, key2=bytes(flipped))
            for m2 in AEADS:
                if m2 != m:
                    add('FOREIGN', sp, m2=m2, key2=sp['key'])
    # arbitrary strings (also given to the model), all four methods
    garbage = []
    for m in range(4):
        key = rng.randbytes(32)
        strs = [rng.randbytes(L) for L in (0, 1, 13, 14, 15, 21, 22, 23, 29, 30, 31, 37, 38, 39)]
        strs += [rng.randbytes(rng.randrange(0, 300)) for _ in range(100 if q else 1000)]
        strs += [bytes(L) for L in (22, 30, 38, 100)] + [b'\xff' * L for L in (22, 30, 38, 100)]
        garbage.append(dict(id='l%d' % m, m=m, key=key, strs=strs, seed=rng.randrange(1, 2 ** 62),
                            nrand=2000 if q else 20000, maxlen=20480))
    return cases, garbage


def spec_str(c):
    return '%d %s %x %x %x %s %d' % (c['m'], hx(c['key']), c['sid'], c['seq'], c['closing'], hx(c['payload']), c['seed'])


def go_line(c):
    s = '%s %s %s' % (c['id'], c['op'], spec_str(c))
    if c['op'] == 'EXT':
        s += ' ' + hx(c['ext'])
    elif c['op'] == 'CORR':
        s += ' %d %d' % (c['cseed'], c['count'])
    elif c['op'] == 'FOREIGN':
        s += ' %d %s' % (c['m2'], hx(c['key2']))
    return s


def parse_variants(rest):
    toks = rest.split()
    chars = toks[0] if toks else ''
    if chars == '-':
        chars = ''
    accs = {}
    for t in toks[1:]:
        if t.startswith('acc:'):
            _, label, dec = t.split(':', 2)
            accs[label] = dec
    return chars, accs


def short(c):
    return {k: (v.hex() if isinstance(v, (bytes, bytearray)) else v) for k, v in c.items() if k != 'strs'}


def correspondence(ctx, verdict, pr):
    res = dict(broken=[])
    cases, garbage = gen(ctx)
    cdir = vlib.V + '/corpus/C11'
    corpus = []
    if os.path.isdir(cdir):
        for fn in sorted(os.listdir(cdir)):
            corpus.append(json.load(open(os.path.join(cdir, fn))))   # dict(id, m, key, msg): byte strings that must be rejected
    # phase 0: the Coq witnesses, produced by the model's own encoder
    wit = []
    for m in AEADS:
        wit.append('w%d ENC %d %s deadbeef 4 1 %s 3 %s' % (m, m, hx(EX_KEY), hx(EX_PAYLOAD), hx(bytes(range(200, 200 + 3 + 16)))))
    mrc0, merr0, mo0 = run_model(ctx, wit, 'phase0', nproc=1)
    if mrc0 != 0:
        res['broken'].append(('extracted model c11 failed (phase 0)', merr0[-2000:]))
    # phase 1: Go
    golines = [go_line(c) for c in cases]
    decs = []    # (id, m, key, msg bytes, kind, info)
    for g in garbage:
        for i, s in enumerate(g['strs']):
            decs.append(('%s.s%d' % (g['id'], i), g['m'], g['key'], s, 'garbage', None))
        golines.append('%s LIVE %d %s %d %d %d %s' % (g['id'], g['m'], hx(g['key']), g['seed'], g['nrand'], g['maxlen'],
                                                   ' '.join(hx(s) for s in g['strs'])))
    for m in AEADS:
        h = mo0.get('w%d' % m)
        if h and h != 'none':
            hb = bytearray(unhx(h))
            for (i, b) in ((12, 0), (13, 0), (13, 2), (0, 0), (11, 7), (14, 0), (len(hb) - 1, 0)):
                mm = bytearray(hb); mm[i] ^= 1 << b
                decs.append(('w%d.%d.%d' % (m, i, b), m, EX_KEY, bytes(mm), 'witness', (i, b)))
    for c in corpus:
        decs.append((c['id'], c['m'], unhx(c['key']), unhx(c['msg']), 'corpus', None))
    golines += ['%s DEC %d %s %s' % (i, m, hx(k), hx(s)) for i, m, k, s, _, _ in decs]
    rc, log, go = run_go(ctx, golines, 'phase1')
    if rc != 0:
        res['broken'].append(('Go driver TestVerifC11 failed to build or run', log[-3000:]))
    # phase 2: the model on the same messages
    mlines = ['%s DEC %d %s %s' % (i, m, hx(k), hx(s)) for i, m, k, s, _, _ in decs]
    honest = {}
    corr_items = {}
    for c in cases:
        o = go.get(c['id'])
        if not o or not o.startswith('hon='):
            continue
        hon, _, rest = o.partition(' ')
        msg = hon[4:]
        honest[c['id']] = (msg, rest)
        if c['op'] == 'FLIPS':
            nb = len(msg) // 2
            for lo in range(0, nb, 48):
                mlines.append('%s.%d FLIPS %d %s %s %d %d' % (c['id'], lo, c['m'], hx(c['key']), msg, lo, lo + 48))
        elif c['op'] == 'TRUNC':
            mlines.append('%s TRUNC %d %s %s' % (c['id'], c['m'], hx(c['key']), msg))
        elif c['op'] == 'EXT':
            mlines.append('%s EXT %d %s %s %s' % (c['id'], c['m'], hx(c['key']), msg, hx(c['ext'])))
        elif c['op'] == 'CORR':
            items = []
            for j, t in enumerate(rest.split()):
                _, cm, r = t.split(':', 2)
                items.append((cm, r))
                mlines.append('%s.%d DEC %d %s %s' % (c['id'], j, c['m'], hx(c['key']), cm))
            corr_items[c['id']] = items
        elif c['op'] == 'FOREIGN':
            mlines.append('%s DEC %d %s %s' % (c['id'], c['m2'], hx(c['key2']), msg))
    mrc, merr, mo = run_model(ctx, mlines, 'phase2', nproc=6 if ctx.quick() else 12)
    if mrc != 0:
        res['broken'].append(('extracted model c11 failed (phase 2)', merr[-2000:]))

    mism = []
    seen_sig = {}
    counts = dict(flips=0, trunc=0, ext=0, corr=0, foreign=0, garbage=0, live_fed=0, accepted_flips=0, accepted_other=0, panics=0)
    kinds = []
    nfail = [0]

    def orc(sig, what, rep):
        """at most one report per signature (known ones print one KNOWN-FINDING line), at most 3 fresh ones"""
        if sig in seen_sig:
            seen_sig[sig] += 1
            return
        seen_sig[sig] = 1
        is_known = any(re.fullmatch(f['signature'], sig) for f in vlib.known_findings('C11') if f.get('status', 'open') == 'open')
        if nfail[0] >= 3 and not is_known:
            return
        r = verdict.oracle_failure(sig, 'C11 oracle: ' + what, rep)
        if r != 'known':
            nfail[0] += 1

    def cmp(cid, impl, model, c, what):
        if model is not None and impl != model:
            mism.append((len(impl), '%s (%s): implementation %s / model %s' % (what, cid, impl[:200], model[:200]), c))

    for c in cases:
        kinds.append('%s/%s' % (MNAME[c['m']], c['op']))
        if c['id'] not in honest:
            continue
        msg, rest = honest[c['id']]
        mname = MNAME[c['m']]
        rep = dict(case=short(c), line=go_line(c), honest_message=msg, method=mname, how='python3 tools/check.py C11 --replay <this file>')
        if c['op'] == 'FLIPS':
            chars, accs = parse_variants(rest)
            counts['flips'] += len(chars)
            nb = len(msg) // 2
            mparts = [mo.get('%s.%d' % (c['id'], lo)) for lo in range(0, nb, 48)]
            if all(p is not None for p in mparts):
                mchars, maccs = '', {}
                for p in mparts:
                    a, b = parse_variants(p)
                    mchars += a; maccs.update(b)
                if chars != mchars or accs != maccs:
                    d = next((i for i in range(min(len(chars), len(mchars))) if chars[i] != mchars[i]), None)
                    where = 'byte %d bit %d: implementation %s, model %s' % (d // 8, d % 8, chars[d], mchars[d]) if d is not None else \
                            'accepted frames differ: %s vs %s' % (sorted(accs.items())[:3], sorted(maccs.items())[:3])
                    mism.append((len(msg), 'single-bit flips of %s (%s): %s' % (c['id'], mname, where), c))
            for i, ch in enumerate(chars):
                if ch == 'K':
                    counts['accepted_flips'] += 1
                    byte, bit = i // 8, i % 8
                    orc(UNAUTH % byte, '%s: honest message with bit %d of byte %d flipped is accepted as %s (honest frame sid=%x seq=%x closing=%d payload=%s)'
                        % (mname, bit, byte, accs.get('%d.%d' % (byte, bit)), c['sid'], c['seq'], c['closing'], hx(c['payload'])[:64]),
                        dict(rep, flipped_byte=byte, flipped_bit=bit))
                elif ch == 'P':
                    counts['panics'] += 1
                    orc('panic-on-modified-message', '%s: deobfuscate panics on an honest message with bit %d of byte %d flipped' % (mname, i % 8, i // 8),
                        dict(rep, flipped_byte=i // 8, flipped_bit=i % 8))
        elif c['op'] in ('TRUNC', 'EXT'):
            chars, accs = parse_variants(rest)
            counts['trunc' if c['op'] == 'TRUNC' else 'ext'] += len(chars)
            cmp(c['id'], rest, mo.get(c['id']), c, c['op'])
            for i, ch in enumerate(chars):
                lab = i if c['op'] == 'TRUNC' else i + 1
                if ch == 'K':
                    counts['accepted_other'] += 1
                    orc('aead-accepted-%s' % ('truncation' if c['op'] == 'TRUNC' else 'extension'),
                        '%s: honest message %s %d bytes is accepted as %s' % (mname, 'truncated to' if c['op'] == 'TRUNC' else 'extended by', lab, accs.get(str(lab))),
                        dict(rep, variant=lab))
                elif ch == 'P':
                    counts['panics'] += 1
                    orc('panic-on-modified-message', '%s: deobfuscate panics on an honest message %s %d bytes' % (mname, 'truncated to' if c['op'] == 'TRUNC' else 'extended by', lab),
                        dict(rep, variant=lab))
        elif c['op'] == 'CORR':
            hb = unhx(msg)
            for j, (cm, r) in enumerate(corr_items.get(c['id'], [])):
                counts['corr'] += 1
                cmp('%s.%d' % (c['id'], j), r.replace(',', ' '), mo.get('%s.%d' % (c['id'], j)), c, 'multi-byte corruption')
                if r.startswith('ok'):
                    cb = unhx(cm)
                    diff = [i for i in range(len(hb)) if hb[i] != cb[i]]
                    if diff and set(diff) <= {12, 13}:
                        counts['accepted_flips'] += 1
                        orc(UNAUTH % diff[0], '%s: corruption confined to header bytes %s accepted as %s' % (mname, diff, r), dict(rep, corrupted=cm))
                    elif diff:
                        counts['accepted_other'] += 1
                        orc('aead-accepted-corruption', '%s: message corrupted at byte offsets %s accepted as %s' % (mname, diff, r), dict(rep, corrupted=cm))
                elif r == 'panic':
                    counts['panics'] += 1
                    orc('panic-on-modified-message', '%s: deobfuscate panics on corrupted message %s' % (mname, cm[:200]), dict(rep, corrupted=cm))
        elif c['op'] == 'FOREIGN':
            counts['foreign'] += 1
            cmp(c['id'], rest.replace(',', ' '), mo.get(c['id']), c, 'foreign key/method')
            if rest.startswith('ok'):
                counts['accepted_other'] += 1
                orc('aead-accepted-foreign', 'message sealed under %s with another key is accepted under %s as %s' % (mname, MNAME[c['m2']], rest), rep)
            elif rest == 'panic':
                counts['panics'] += 1
                orc('panic-on-foreign-message', 'deobfuscate (%s) panics on a message sealed under %s' % (MNAME[c['m2']], mname), rep)
    # explicit byte strings: garbage, witnesses, corpus
    wit_seen = {}
    for i, m, k, s, kind, info in decs:
        r = go.get(i)
        if r is None:
            continue
        counts['garbage'] += 1
        kinds.append('%s/%s' % (MNAME[m], kind))
        rep = dict(line='%s DEC %d %s %s' % (i, m, hx(k), hx(s)), method=MNAME[m], how='python3 tools/check.py C11 --replay <this file>')
        cmp(i, r, mo.get(i), dict(id=i, m=m, key=k, msg=s), kind)
        if r == 'panic':
            counts['panics'] += 1
            orc('panic-on-garbage', '%s: deobfuscate panics on a %d-byte string' % (MNAME[m], len(s)), rep)
        elif r.startswith('ok') and m != 0:
            if kind == 'witness':
                wit_seen[(m,) + info] = r
                if info[0] in (12, 13):
                    counts['accepted_flips'] += 1
                    orc(UNAUTH % info[0], '%s: the Coq witness (C11_witness_*) replayed on the real code: bit %d of byte %d flipped, accepted as %s' % (MNAME[m], info[1], info[0], r), rep)
                    continue
            counts['accepted_other'] += 1
            orc('aead-accepted-%s' % kind, '%s: a %s byte string is accepted as %s' % (MNAME[m], kind, r[:200]), rep)
    # the witnesses of C11_refuted must behave on the real code as they do in Coq
    for m in AEADS:
        if mo0.get('w%d' % m) and go.get('w%d.12.0' % m) is not None:
            want = 'ok deadbeef 4 0 %s' % hx(EX_PAYLOAD)
            if go.get('w%d.12.0' % m) != want:
                res['broken'].append(('C11_witness_closing does not replay on the real code (%s)' % MNAME[m],
                                      'expected %s, implementation %s' % (want, go.get('w%d.12.0' % m))))
    # live sessions (Go only)
    live = {}
    for g in garbage:
        o = go.get(g['id'])
        if o is None:
            continue
        d = dict(t.split('=', 1) for t in o.split() if '=' in t)
        live[MNAME[g['m']]] = {k: v for k, v in d.items() if k not in ('panicinput', 'acceptedinput')}
        counts['live_fed'] += int(d.get('fed', 0))
        kinds.append('%s/live-session' % MNAME[g['m']])
        rep = dict(line='%s LIVE %d %s %d %d %d %s' % (g['id'], g['m'], hx(g['key']), g['seed'], g['nrand'], g['maxlen'], ' '.join(hx(s) for s in g['strs'])),
                   method=MNAME[g['m']], implementation={k: v[:400] for k, v in d.items()}, how='python3 tools/check.py C11 --replay <this file>')
        if int(d.get('panics', 0)) > 0:
            counts['panics'] += int(d['panics'])
            orc('panic-in-live-session', '%s: recvDataFromRemote panicked on %s of %s received strings; first input %s' % (MNAME[g['m']], d['panics'], d['fed'], d.get('panicinput', '')[:200]), rep)
        if g['m'] != 0:
            if d.get('accepted') != '0' or d.get('changed') != '0':
                orc('garbage-changed-session', '%s: %s of %s garbage strings were accepted / session state changed=%s; first %s' % (MNAME[g['m']], d.get('accepted'), d.get('fed'), d.get('changed'), d.get('acceptedinput', '')[:200]), rep)
            if d.get('after') != 'ok':
                orc('valid-frame-lost-after-garbage', '%s: a valid frame sent after the garbage was not delivered: %s' % (MNAME[g['m']], d.get('after')), rep)
    if mism and rc == 0 and mrc == 0:
        sz, what, c = min(mism, key=lambda t: t[0])
        res['broken'].append(('model Codec.v (deobfuscate) vs obfs.go: %d comparisons differ' % len(mism),
                              'smallest differing case: %s\n%s' % (json.dumps(short(c))[:1500], what)))
    total = sum(counts[k] for k in ('flips', 'trunc', 'ext', 'corr', 'foreign', 'garbage'))
    verdict.cov.update(
        evaluations=total + counts['live_fed'], distinct_nontrivial=total,
        rule='each counted evaluation is one distinct modified / foreign / arbitrary byte string decoded by the real deobfuscate AND by the extracted model (outcome and decoded fields compared); live-session strings (Go only) are counted in evaluations only',
        samples=[go_line(cases[0])[:300], go_line(cases[3])[:300], golines[-1][:200]],
        traces_validated_against_impl=total, mismatches=len(mism), counts=counts,
        accepted_signatures={k: v for k, v in sorted(seen_sig.items())},
        live_sessions=live, witnesses_replayed={'%s byte %d bit %d' % (MNAME[k[0]], k[1], k[2]): v for k, v in wit_seen.items()},
        input_distribution=vlib.summarize_dist(kinds), exhaustive=False)
    return res


def replay(ctx, verdict):
    r = ctx.replay
    line = r.get('line')
    if not line:
        print(json.dumps(r, indent=1)[:3000]); return 0
    print('case:', line[:600])
    rc, log, go = run_go(ctx, [line], 'replay')
    cid = line.split()[0]
    o = go.get(cid)
    print('implementation:', (o or log[-1500:])[:3000])
    if o is None:
        return 1
    op = line.split()[1]
    if op == 'LIVE':
        d = dict(t.split('=', 1) for t in o.split() if '=' in t)
        aead = line.split()[2] != '0'
        bad = int(d.get('panics', 0)) > 0 or (aead and (d.get('accepted') != '0' or d.get('changed') != '0' or d.get('after') != 'ok'))
        return 1 if bad else 0
    if op == 'DEC':
        mline = line
        mrc, merr, mo = run_model(ctx, [mline], 'replay', nproc=1)
        print('model:         ', mo.get(cid))
        return 1 if (o.startswith('ok') and line.split()[2] != '0') or o == 'panic' else 0
    hon, _, rest = o.partition(' ')
    f = line.split()
    if op in ('FLIPS', 'TRUNC', 'EXT'):
        chars, accs = parse_variants(rest)
        for lab, dec in sorted(accs.items()):
            print('accepted variant %s -> %s' % (lab, dec))
        ml = '%s %s %s %s %s' % (cid, op, f[2], f[3], hon[4:]) + (' ' + f[9] if op == 'EXT' else '')
        mrc, merr, mo = run_model(ctx, [ml], 'replay', nproc=1)
        print('model agrees:', mo.get(cid) == rest)
        if op == 'FLIPS':
            bad = [i for i, ch in enumerate(chars) if ch == 'P' or (ch == 'K' and i // 8 not in (12, 13))]
            print('accepted flips outside header bytes 12/13 or panics:', [(i // 8, i % 8) for i in bad][:40])
            return 1 if bad else 0
        return 1 if ('K' in chars or 'P' in chars) else 0
    print('result:', rest[:2000])
    return 1 if (':ok' in rest or rest.startswith('ok') or 'panic' in rest) else 0


MANIFEST = dict(
    technique='Coq: no-panic theorem over every byte string (index arithmetic of deobfuscate), refutation of the stated property by computed witnesses with the real ciphers, exact partial theorem under an ideal-AEAD hypothesis, drop-no-effect theorem; correspondence: real deobfuscate vs extracted model on every single-bit flip / truncation / extension / corruption / foreign key of honest messages; Go-only garbage injection into live Sessions',
    level_text='C11_no_panic (deobfuscate never panics, all methods, every byte string) and C11_drop_no_effect (a rejected message leaves the session state as it was, for every handler and history) are unconditional theorems about the model. The authenticity part as stated is false of the code (finding F3): C11_refuted exhibits, by computation with the Gallina ChaCha20-Poly1305 / AES-GCM, honest messages whose header byte 12 or 13 is altered and which are accepted; the same witnesses are replayed on the real code on every run. C11_partial proves that under an ideal AEAD nothing but these two header bytes escapes.',
    level_note='Unforgeability itself is a computational property and is an explicit hypothesis of C11_partial (shown satisfiable); the sweeps (every single-bit flip of 12 messages per method, all truncations, extensions, corruptions, foreign keys) are samples; accepted flips at byte offsets 12 and 13 are the known finding, anything else is a violation.',
    design_ref='DESIGN.md section 6, C11; section 7, F3')


# ---- receive-loop level (tools/props/winlib.py): garbage written to a real connection of a real session
import winlib

TRUSTED = TRUSTED + ['receive loop: harness/multiplex/c11_loop_test.go drives switchboard.deplex through TLSConns over harness-owned byte streams; "the loop has consumed everything" is the loop being back in Read on an empty stream (a condition variable of the harness connection, no timing); outcomes judged by the property predicate (valid frames before and after delivered, session and connections open, no stream appears or closes, nothing sent)']
MANIFEST = dict(MANIFEST, level_note=MANIFEST['level_note'] + ' Receive loop: the same kinds of garbage are also written to real connections of a real session between valid frames (switchboard.deplex), all four methods, ordered and unordered.')
_corr_before_loop = correspondence
_replay_before_loop = replay


def correspondence(ctx, verdict, pr):
    res = _corr_before_loop(ctx, verdict, pr)
    res['broken'] += winlib.c11_loop(ctx, verdict)
    return res


def replay(ctx, verdict):
    if ctx.replay.get('kind') == 'window':
        return winlib.replay(ctx, verdict)
    return _replay_before_loop(ctx, verdict)


if 'search' not in globals():
    def search(ctx, verdict, problems):
        return winlib.search(ctx, verdict, problems)
MANIFEST = dict(MANIFEST, level_note=MANIFEST.get('level_note', '') + ' Frames whose unauthenticated header bytes 12-13 were altered (accepted: known finding F3) are also driven through live sessions, in order on a stream of their own, for every bit and method: whatever they then mean, the process must not crash and the other stream goes on.')
TRUSTED = list(TRUSTED) + ['receive path of a session as GENERATED obligations (Proofs/AtomMux.v about coq/Gen/Atomicity.v, tools/lockscan): the pooled receive frame is handed back exactly once and never touched afterwards, whatever the decode result (a message that is rejected must leave no trace for later valid frames)']
