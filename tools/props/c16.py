"""C16 - usage is charged exactly once and exhausted or expired users are cut off."""
import os, json, re
import vlib
from props import panellib
from props import overlap

panellib.refresh_gen()

PROP_FILES = ['Properties/C16']
EXTRA_OBLIGATION_FILES = ['Proofs/AtomPanel', 'Proofs/LockOrder', 'Proofs/PanelLocks', 'Proofs/PanelWF', 'Proofs/PanelOwn',
                          'Proofs/PanelC16', 'Proofs/PanelRefute', 'Extract/C16']
TRUSTED = [
    'atomic steps of the hand-written model as GENERATED obligations (Proofs/AtomPanel.v, re-proved on every run about coq/Gen/Atomicity.v; in a private re-generated copy under VERIF_EXTRA_OVERLAY): tools/lockscan (go/ast, syntactic types) is trusted to list, per function of internal/{server,multiplex,common,client}, every field access / call / sync/atomic operation with the critical sections (Lock..Unlock / RLock..RUnlock / deferred unlock, mutex identity by name) it lies in, every sync.Pool.Put with the later mentions of the object, and every variable a go statement shares with its spawner (anything it cannot resolve is in atomicity_errors, which must be empty); it does not follow calls (a region is what one function writes between Lock and Unlock), does no alias analysis, treats callbacks as running with no lock held, and counts call sites, not executions (a loop around one call site is invisible); who removes entries (AtomReplay/AtomPanel/AtomMux): the scanner distinguishes element stores (w), delete/clear (del), assignment of the whole field (set), address-of (addr) and the map being handed on as a value (val); a delete on a local map is recorded under the name of that local',
    'Coq 8.16.1 kernel incl. vm_compute; all C16 theorems: Closed under the global context',
    'hand-written LTS coq/Model/Panel.v with ghost ledgers (counted / charged / reported-for-deleted / admin changes); valve and queue counters are unbounded integers (int64 wrap is modelled only where UploadStatus subtracts: a counter would need 2^63 bytes to wrap); Nullify is one step, the updateUsageQueue loop is one step, commitUpdate reads the queue when it leaves its critical section (generated obligation C16_queue_guarded_by_queueM)',
    'correspondence: lock-step engine harness/server/c17_common_test.go + c16_test.go: real userPanel, real LimitedValves, real localManager on bolt, admin changes through the real API router; bytes are injected through the real switchboard (deplex -> AddRx, Stream.Write -> send -> AddTx) on in-memory connections that count what they carry (the wire tap the oracle uses); compared step by step (queue contents, stored credits, session states) with the extracted model (ocaml/c16_driver.ml); one run of the real regularQueueUpload loop on a 25 ms interval',
    'bolt transactions are atomic; Go sync/atomic has sequentially consistent semantics',
    'overlapped calls: the engine hands the real panel a wrapper around the real localManager (userPanel.Manager is an interface) that holds a commitUpdate goroutine inside Manager.UploadStatus (and dispatches inside AuthenticateUser / AuthoriseNewSession) until the scenario releases it; the model thread is stopped at M8 (coq/Model/PanelPark.v); the strict accounting oracle for these families assumes what their generator guarantees (ample credit, no expiry, terminations only by closing a last session); Model/PanelSplit.v + Proofs/PanelSplit.v: commitUpdate with the place of the queue reset as a parameter',
]
ASSUMPTIONS = ['traffic byte counts are non-negative and notice frames have non-negative size (C16_at_most_once, C16_per_user)',
               '"exactly once" is claimed for users that stay active; bytes counted on a record after its final Nullify are lost at termination (stated in C16_conservation as the valve residue of records activeUsers no longer holds); orphan records are C17\'s finding F5']

USERS = ['1:2:100000:100000:100', '1:2:100000:100000:100,2:3:100000:100000:100',
         '1:3:900:700:100,2:2:100000:100000:100,b9', '1:2:100000:100000:60,2:1:400:100000:100',
         '1:2:5000:5000:100,2:2:5000:5000:100,3:1:100000:100000:100']


def gen_random(rng, n):
    users = rng.choice(USERS)
    limited = [int(e.split(':')[0]) for e in users.split(',') if e[0] != 'b']
    uids = limited + [int(e[1:]) for e in users.split(',') if e[0] == 'b']
    steps = []
    nthr = 0
    nd = 0
    nextsid = {u: 1 for u in uids}

    def dispatch():
        nonlocal nthr, nd
        u = rng.choice(uids)
        if rng.random() < 0.25 and nextsid[u] > 1:
            sd = rng.randrange(1, nextsid[u])
        else:
            sd = nextsid[u]; nextsid[u] += 1
        steps.append('D%d.%d' % (u, sd)); nthr += 1; nd += 1

    def other(kinds):
        nonlocal nthr
        k = rng.choice(kinds)
        if k == 'D':
            dispatch()
        elif k == 'C':
            steps.append('C%d' % rng.randrange(max(1, nd))); nthr += 1
        elif k == 'B':
            steps.append('B%d' % rng.randrange(max(1, nd)))
        elif k == 'T':
            steps.append('T%d.%d.%d' % (rng.randrange(max(1, nd)), rng.choice([0, 1, 40, 333, 2000, 9000]), rng.choice([0, 0, 1, 50, 700])))
        elif k in 'UMR':
            steps.append(k); nthr += 1
        elif k == 'A':
            u = rng.choice(limited)
            f = rng.choice(['top', 'zero', 'exp', 'small'])
            if f == 'top':
                steps.append('Aw%d.u100000.d100000' % u)
            elif f == 'zero':
                steps.append('Aw%d.%s0' % (u, rng.choice('ud')))
            elif f == 'small':
                steps.append('Aw%d.u%d.d%d' % (u, rng.choice([30, 600]), rng.choice([30, 600])))
            else:
                steps.append('Aw%d.e%d' % (u, rng.choice([5, 1000])))
        elif k == 'X':
            steps.append('Ad%d' % rng.choice(limited))
        elif k == 'K':
            steps.append('K%d' % rng.choice([1, 30, 200]))

    dispatch(); dispatch()
    for _ in range(n):
        r = rng.random()
        if r < 0.15:
            kind = rng.choice(['U', 'U', 'R'])
            steps.append(kind + 'h'); t = nthr; nthr += 1
            if rng.random() < 0.9:
                other(['M', 'M', 'C', 'C', 'U', 'T', 'T', 'D', 'A'] if kind == 'U' else ['T', 'T', 'D', 'A', 'K'])
            steps.append('G%d' % t)
        else:
            other(['D', 'D', 'C', 'B', 'T', 'T', 'T', 'T', 'T', 'U', 'M', 'R', 'R', 'A', 'A', 'X', 'K'])
    steps += ['R', 'R']
    return users, steps


DET = [
    ('det_basic', '1:2:1000:1000:100', 'D1.1 T0.5.7 R R'.split()),
    ('det_two_sessions', '1:2:100000:100000:100', 'D1.1 D1.2 T0.100.30 T1.200.0 U T0.50.0 M R R'.split()),
    ('det_last_session', '1:2:100000:100000:100', 'D1.1 T0.321.12 C0 R R'.split()),
    ('det_exhaust', '1:2:300:100000:100,2:1:100000:100000:100', 'D1.1 D2.1 T0.500.0 T1.40.0 R R D1.2'.split()),
    ('det_expire', '1:2:100000:100000:50', 'D1.1 T0.10.0 K100 R R'.split()),
    ('det_delete', '1:2:100000:100000:100', 'D1.1 T0.10.0 Ad1 R R'.split()),
    ('det_overlap_term', '1:2:100000:100000:100', 'D1.1 T0.700.0 Uh C0 G1 R R'.split()),
    ('det_twice_in_queue', '1:2:100000:100000:100', 'D1.1 T0.70.0 U T0.30.0 U M R R'.split()),
]


def gen_cases(ctx):
    rng = ctx.rng
    cases = [(cid, users, steps, 'deterministic') for cid, users, steps in DET]
    nrand = 200 if ctx.quick() else 2500
    for i in range(nrand):
        users, steps = gen_random(rng, rng.choice([6, 10, 10, 16, 24]))
        cases.append(('r%d' % i, users, steps, 'random'))
    # calls OVERLAPPING through the UserManager seam: an upload round held inside Manager.UploadStatus while
    # usage is collected / users terminate / further rounds run (every release order), first connections held
    # inside AuthenticateUser, GetSession held inside AuthoriseNewSession - see overlap.py
    cases += overlap.cases(rng, 80 if ctx.quick() else 1200)
    return cases


def strict_modes(kind):
    """(strict accounting, strict cut-off) for a scenario kind.  Strict accounting: the overlap families whose generator
    guarantees that no TERMINATE verdict occurs unless the final credit shows it.  Strict cut-off: all overlap
    families - none of them contains the schedule of C17's finding F5 (a dispatch held between GetUser and GetSession,
    a stale CloseSession), so an open session of a cut-off user is not excused by being unreachable."""
    k = str(kind)
    ov = k.startswith('overlap') or k.startswith('ov')
    return (ov and not any(x in k for x in ('reconnect', 'cutoff', 'ovRC', 'ovc'))), ov


def round_cutoff(users, steps_replayed, obs, ses):
    """C16's cut-off clause at the moment it applies: when an upload round (M / R thread) has finished in a step in which
    the stored credit of a user changed (the round uploaded that user's usage) and the credit is now <= 0 in a direction,
    or the user has expired, that user has no open session in the observation of that very step.  -> [(sig, msg)]"""
    bad = []
    exp, prev = {}, {}
    for e in users.split(','):
        if e and e[0] != 'b':
            f = e.split(':')
            exp[int(f[0])] = int(f[4]); prev[int(f[0])] = (int(f[2]), int(f[3]))
    uid_of = {e[0]: e[1] for e in ses}
    kinds = [st[0] for st in steps_replayed if st[0] in 'DCUMR']
    now = 10
    for j, (st, o) in enumerate(zip(steps_replayed, obs)):
        if st.startswith('K'):
            now += int(st[1:])
        m = re.search(r'^Aw(\d+).*\.e(\d+)', st)
        if m:
            exp[int(m.group(1))] = int(m.group(2))
        d = {}
        for e in o[5].split(','):
            if e:
                f = e.split(':')
                d[int(f[0])] = None if f[1] == 'x' else (int(f[1]), int(f[2]))
        done = [int(t.split(':')[0]) for t in o[0].split(',') if ':F' in t]
        if any(i < len(kinds) and kinds[i] in 'MR' for i in done) and not st.startswith('A'):
            for u, cr in d.items():
                if cr is None or prev.get(u) is None or prev[u] == cr:
                    continue
                why = None
                if cr[0] <= 0 or cr[1] <= 0:
                    why = 'credit %d/%d after this upload' % cr
                elif exp.get(u, 10**12) < now:
                    why = 'expired (expiry %d, server time %d)' % (exp[u], now)
                if why:
                    still = [k for k, c in enumerate(o[2]) if c == '0' and uid_of.get(k) == u]
                    if still:
                        bad.append(('not-cut-off-when-the-round-completed',
                                    'user %d (%s): the upload round that charged it finished in step %d (%s) and the user still has open session(s) %s' % (
                                        u, why, j, st, still)))
        prev = d
    return bad


def oracle(users, steps_replayed, obs, ses, orph, strict=False, strict_cutoff=False):
    """Model-independent accounting.  users: initial records; steps_replayed: steps with observed byte counts;
    obs: list of 6-tuples per step; ses: [(k,uid,closed,born,readN,written,notice)].  Returns [(sig, msg)].
    strict (the overlap families: ample credit, no expiry, every termination is the CloseSession of a last
    session, whose notice frame is sent BEFORE the final collection): a user that was terminated in between
    must be charged exactly too, unless one of its sessions was lost by the panel (C17's finding)."""
    bad = []
    init = {}
    exp = {}
    for e in users.split(','):
        if e and e[0] != 'b':
            f = e.split(':')
            init[int(f[0])] = (int(f[2]), int(f[3])); exp[int(f[0])] = int(f[4])

    def dbof(o):
        d = {}
        for e in o[5].split(','):
            if not e:
                continue
            f = e.split(':')
            d[int(f[0])] = None if f[1] == 'x' else (int(f[1]), int(f[2]))
        return d

    def tabof(o):
        t = {}
        if o[1] == '?':
            return None
        for e in o[1].split(','):
            if e:
                u, v = e.split('=')
                t[int(u)] = v
        return t
    adm = {u: [0, 0] for u in init}
    deleted_ever = set()
    terminated_ever = set()
    was_active = set()
    now = 10
    prevdb = {u: init[u] for u in init}
    for st, o in zip(steps_replayed, obs):
        d = dbof(o)
        if st.startswith('K'):
            now += int(st[1:])
        if st.startswith('Aw') or st.startswith('Ad'):
            u = int(st[2:].split('.')[0])
            old = prevdb.get(u) or (0, 0)
            new = d.get(u) or (0, 0)
            adm.setdefault(u, [0, 0]); init.setdefault(u, (0, 0))
            adm[u][0] += new[0] - old[0]; adm[u][1] += new[1] - old[1]
            if st.startswith('Ad'):
                deleted_ever.add(u)
            m = re.search(r'\.e(\d+)', st)
            if m:
                exp[u] = int(m.group(1))
        t = tabof(o)
        if t is not None:
            for u, v in t.items():
                if v != '-':
                    was_active.add(u)
                elif u in was_active:
                    terminated_ever.add(u)
        prevdb = d
    final = dbof(obs[-1])
    counted = {}
    for e in ses:
        counted.setdefault(e[1], [0, 0])
        counted[e[1]][0] += e[4]; counted[e[1]][1] += e[5]
    finaltab = tabof(obs[-1]) or {}
    queue_empty = obs[-1][4] == ''
    for u in init:
        cnt = counted.get(u, [0, 0])
        if final.get(u) is None:
            continue
        for dname, i in (('up', 0), ('down', 1)):
            charged = init[u][i] + adm[u][i] - final[u][i]
            if u in deleted_ever:
                if charged > cnt[i]:
                    bad.append(('charged-more-than-carried', 'user %d %s: charged %d but its connections carried %d' % (u, dname, charged, cnt[i])))
                continue
            if charged > cnt[i]:
                bad.append(('charged-more-than-carried', 'user %d %s: charged %d (initial %d + admin %d - stored %d) but its connections carried only %d' % (
                    u, dname, charged, init[u][i], adm[u][i], final[u][i], cnt[i])))
            elif charged < cnt[i] and u not in terminated_ever and queue_empty:
                bad.append(('carried-but-not-charged', 'user %d %s stayed active, traffic has stopped and two upload rounds completed: charged %d, carried %d' % (
                    u, dname, charged, cnt[i])))
            elif charged < cnt[i] and strict and queue_empty and final[u][0] > 0 and final[u][1] > 0 \
                    and not any(e[1] == u and (e[3] or e[0] in orph) for e in ses) and not any(st[0] == 'K' for st in steps_replayed):
                bad.append(('carried-but-not-charged', 'user %d %s (terminated only by closing its last session, never cut off): traffic has stopped and two upload rounds completed: charged %d, carried %d' % (
                    u, dname, charged, cnt[i])))
    # cut-off: after the final rounds, exhausted / expired / deleted users have no live reachable session
    for e in ses:
        k, u, closed = e[0], e[1], e[2]
        if u not in init or closed or (k in orph and not strict_cutoff):
            continue
        f = final.get(u)
        why = None
        if f is None:
            why = 'deleted'
        elif f[0] <= 0 or f[1] <= 0:
            why = 'credit %d/%d' % f
        elif exp.get(u, 10**12) < now:
            why = 'expired'
        if why and (finaltab.get(u, '-') != '-' or strict_cutoff):
            bad.append(('not-cut-off', 'user %d (%s) still has live session %d after the uploads%s' % (
                u, why, k, ' (a session the panel can no longer reach: nothing collects from it or closes it)' if k in orph else '')))
    if strict_cutoff:
        bad += round_cutoff(users, steps_replayed, obs, ses)
    return bad


def run_and_judge(ctx, batch, tag, strict=True, kinds=None):
    """[(id, users, steps)] through the real panel; -> {id: [(sig, msg)]} of the accounting oracle, go output"""
    lines = ['%s 00 10 %s %s' % (cid, users, ' '.join(steps)) for cid, users, steps in batch]
    rc, log, out, dt = panellib.run_go(ctx, lines, tag, test='TestVerifC16', files=('c16_test.go', 'c17_common_test.go'))
    go = panellib.parse_go(out)
    res = {}
    for cid, users, steps in batch:
        io = go['obs'].get(cid)
        if io is None or cid in go['blocked']:
            continue
        sa, sc = strict_modes((kinds or {}).get(cid, kinds.get('*', cid) if kinds else cid)) if strict else (False, False)
        bad = oracle(users, go['replay'].get(cid, [])[3:], panellib.split_obs(io), go['ses'].get(cid, []), go['orph'].get(cid, []), strict=sa, strict_cutoff=sc)
        if bad:
            res[cid] = bad
    return res, go


def shrink_case(ctx, obj, sig):
    case = obj['case']
    n = [0]

    def judge(batch):
        n[0] += 1
        res, go = run_and_judge(ctx, batch, 'shrink%d' % n[0], kinds={'*': case.get('kind', case['id'])})
        return set(cid for cid, bad in res.items() if any(sg == sig for sg, _ in bad))
    # the two final upload rounds are what the oracle's "traffic has stopped and an upload completed" needs
    tail = case['steps'][-2:] if case['steps'][-2:] == ['R', 'R'] else []
    body = case['steps'][:len(case['steps']) - len(tail)]

    def judge_with_tail(batch):
        return judge([(cid, u, st + tail) for cid, u, st in batch])
    small = overlap.shrink(judge_with_tail, case['users'], body) + tail
    if len(small) < len(case['steps']):
        res, go = run_and_judge(ctx, [(case['id'], case['users'], small)], 'shrunk', kinds={'*': case.get('kind', case['id'])})
        if case['id'] in res:
            return dict(obj, case=dict(case, steps=small), original_case=case, steps_as_executed=go['replay'].get(case['id'], [])[3:],
                        implementation=go['obs'].get(case['id']), sessions=go['ses'].get(case['id']), oracle=res[case['id']])
    return obj


def search(ctx, verdict, problems):
    """A proof obligation (e.g. a generated atomicity obligation about commitUpdate) or the correspondence broke
    and the seeded scenarios showed no mis-charge: look for one among overlapped calls, densely (the exhaustive
    families of overlap.py + many seeded compositions), judged by the model-independent accounting oracle."""
    cs = overlap.cases(ctx.rng, 400 if ctx.quick() else 4000)
    res, go = run_and_judge(ctx, [(cid, u, st) for cid, u, st, _ in cs], 'search', kinds={c[0]: c[3] for c in cs})
    by = {c[0]: c for c in cs}
    new = False
    for cid in sorted(res, key=lambda c: len(by[c][2])):
        sig, msg = res[cid][0]
        obj = dict(case=dict(id=cid, users=by[cid][1], steps=by[cid][2], kind=by[cid][3]), steps_as_executed=go['replay'].get(cid, [])[3:],
                   implementation=go['obs'].get(cid), sessions=go['ses'].get(cid), no_longer_checks=[p[0] for p in problems][:6],
                   how='python3 tools/check.py C16 --replay <this file>')
        obj = shrink_case(ctx, obj, sig)
        obj['schedule'] = overlap.describe(obj['case']['steps'])
        if verdict.oracle_failure(sig + ':' + cid, 'C16 oracle (search): ' + msg, obj) == 'new':
            new = True
            break
    ctx.notes.append('search over %d overlapped scenarios: %d with an accounting failure' % (len(cs), len(res)))
    return new


def correspondence(ctx, verdict, pr):
    res = dict(broken=[])
    gen = panellib.check_generated_obligations(ctx)
    if gen['error']:
        res['broken'].append(('generated obligation about the lock graph / guarded-by sets (Proofs/LockOrder.v)', gen['error']))
    cases = []
    cdir = vlib.V + '/corpus/C16'
    if os.path.isdir(cdir):
        for fn in sorted(os.listdir(cdir)):
            c = json.load(open(os.path.join(cdir, fn)))
            cases.append((c['id'], c['users'], c['steps'], 'corpus'))
    ncorpus = len(cases)
    cases += gen_cases(ctx)
    lines = ['%s 00 10 %s %s' % (cid, users, ' '.join(steps)) for cid, users, steps, _ in cases] + ['!timer']
    rc, log, out, dt = panellib.run_go(ctx, lines, 'cases', test='TestVerifC16', files=('c16_test.go', 'c17_common_test.go'))
    go = panellib.parse_go(out)
    if rc != 0 or not go['obs']:
        res['broken'].append(('Go driver TestVerifC16 failed to build or run', log[-3000:]))
    mlines = panellib.model_lines(go, gen['prefix_order'])
    mrc, merr, model = panellib.run_model(ctx, mlines, 'cases', name='c16')
    if mrc != 0:
        res['broken'].append(('extracted model c16 failed', merr[-2000:]))
    mism = []
    orc = 0
    reported = {}
    kinds = []
    failures = []
    tot_rx = tot_tx = 0
    nterm = 0
    for cid, users, steps, kind in cases:
        io = go['obs'].get(cid)
        if io is None:
            continue
        kinds.append(kind)
        mo = model.get(cid)
        if mo is not None and mo != io:
            mism.append((cid, io, mo))
        rp = go['replay'].get(cid, [])
        ses = go['ses'].get(cid, [])
        tot_rx += sum(e[4] for e in ses); tot_tx += sum(e[5] for e in ses)
        if cid in go['blocked']:
            orc += 1
            verdict.oracle_failure('deadlock:' + cid, 'C16 scenario deadlocked (C17\'s property)', dict(case=dict(id=cid, users=users, steps=steps), implementation=io))
            continue
        sa, sc = strict_modes(kind)
        for sig, msg in oracle(users, rp[3:], panellib.split_obs(io), ses, go['orph'].get(cid, []), strict=sa, strict_cutoff=sc):
            orc += 1
            failures.append((len(steps), len(failures), sig, msg,
                             dict(case=dict(id=cid, users=users, steps=steps, kind=kind), steps_as_executed=rp[3:], implementation=io, model=mo,
                                  sessions=ses, how='python3 tools/check.py C16 --replay <this file>')))
    # report the shortest scenarios, at most two per kind of failure; overlapped ones are shrunk first
    for _, _, sig, msg, obj in sorted(failures, key=lambda x: x[:2]):
        reported[sig] = reported.get(sig, 0) + 1
        if reported[sig] <= 2:
            if reported[sig] == 1 and obj['case']['kind'].startswith('overlap'):
                obj = shrink_case(ctx, obj, sig)
            obj['schedule'] = overlap.describe(obj['case']['steps'])
            verdict.oracle_failure(sig + ':' + obj['case']['id'], 'C16 oracle: ' + msg, obj)
    timer = [x for x in go['extra'] if x.startswith('#timer')]
    tm = dict(x.split('=') for x in timer[0].split()[1:]) if timer else {}
    if not tm or 'err' in tm:
        res['broken'].append(('regularQueueUpload run did not produce a result', str(timer)))
    elif tm.get('rounds_seen') != '1' or tm['charged_up'] != tm['counted_up'] or tm['charged_down'] != tm['counted_down']:
        orc += 1
        verdict.oracle_failure('timer-upload:' + ('nothing-charged' if tm.get('rounds_seen') != '1' else 'wrong-amount'),
                               'C16 oracle (real regularQueueUpload loop, 25 ms interval): charged %s/%s, the connection carried %s/%s' % (
                                   tm.get('charged_up'), tm.get('charged_down'), tm.get('counted_up'), tm.get('counted_down')),
                               dict(case='!timer', observed=tm))
    if mism and rc == 0 and mrc == 0:
        cid, io, mo = min(mism, key=lambda m: len(m[1]))
        c = [x for x in cases if x[0] == cid][0]
        res['broken'].append(('model Panel.v vs real userPanel: %d of %d scenarios differ' % (len(mism), len(go['obs'])),
                              'smallest differing scenario: %s %s %s\nsteps as executed: %s\nimplementation: %s\nmodel:          %s' % (
                                  cid, c[1], ' '.join(c[2]), ' '.join(go['replay'].get(cid, [])), io, mo)))
    verdict.cov.update(
        evaluations=len(cases), distinct_nontrivial=len(set((c[1], ' '.join(c[2])) for c in cases)),
        rule='distinct (users, step list); each scenario = 10..35 lock-step operations: traffic in both directions through the real switchboard on several sessions of 1..3 users, updateUsageQueue / commitUpdate / rounds (also held between their two lock acquisitions with one operation overlapping), closures incl. the last session, connection loss, top-ups, zeroed credits, expiry changes, deletions, clock; two final upload rounds; + the real regularQueueUpload loop; calls OVERLAPPING through the UserManager seam (an upload round held inside Manager.UploadStatus by a wrapper around the real localManager while usage is collected, users terminate and re-join, further rounds run and are released in every order; first connections held inside AuthenticateUser; GetSession held inside AuthoriseNewSession): exhaustive small families + seeded compositions, judged with the strict accounting rule',
        samples=[' '.join(mlines[0].split()[1:]) if mlines else '', ' '.join(mlines[len(mlines) // 2].split()[1:])[:400] if mlines else ''],
        traces_validated_against_impl=len(go['obs']), mismatches=len(mism), oracle_failures=orc,
        input_distribution=dict(kinds=vlib.summarize_dist(kinds), bytes_up_carried=tot_rx, bytes_down_carried=tot_tx,
                                scenarios_with_unreachable_sessions_excluded_from_cutoff=len(go['orph'])),
        corpus_cases=ncorpus, exhaustive=False, go_driver_seconds=round(dt, 1), regularQueueUpload=tm)
    return res


def replay(ctx, verdict):
    r = ctx.replay
    case = r.get('case')
    if not isinstance(case, dict):
        lines = ['!timer']
        rc, log, out, dt = panellib.run_go(ctx, lines, 'replay', test='TestVerifC16', files=('c16_test.go', 'c17_common_test.go'))
        print(open(out).read() if os.path.exists(out) else log[-2000:]); return 0
    gen = panellib.check_generated_obligations(ctx)
    line = '%s 00 10 %s %s' % (case['id'], case['users'], ' '.join(case['steps']))
    rc, log, out, dt = panellib.run_go(ctx, [line], 'replay', test='TestVerifC16', files=('c16_test.go', 'c17_common_test.go'))
    go = panellib.parse_go(out)
    mrc, merr, model = panellib.run_model(ctx, panellib.model_lines(go, gen['prefix_order']), 'replay', name='c16')
    cid = case['id']
    io = go['obs'].get(cid, '')
    print('scenario:      ', line); print('as executed:   ', ' '.join(go['replay'].get(cid, [])))
    print('implementation:', io); print('model:         ', model.get(cid)); print('sessions:', go['ses'].get(cid))
    sa, sc = strict_modes(case.get('kind', case['id']))
    bad = oracle(case['users'], go['replay'].get(cid, [])[3:], panellib.split_obs(io), go['ses'].get(cid, []), go['orph'].get(cid, []), strict=sa, strict_cutoff=sc) if io else [('driver', log[-1500:])]
    for sig, msg in bad:
        print('oracle:', sig, msg)
    for ln in overlap.describe(case['steps']):
        print('   ', ln)
    return 1 if bad else 0


MANIFEST = dict(
    technique='Coq proof of a ledger invariant over all interleavings of the panel LTS with ghost counters (every counted byte is in exactly one place), int64 credit arithmetic modulo 2^64; lock-step trace conformance of the model against the real panel with bytes passing the real switchboard, independent byte accounting on the harness connections',
    level_text='C16_conservation (the ledger), C16_stored, C16_at_most_once, C16_per_user, C16_exact_when_collected, C16_update_collects and C16_cutoff are proved for every reachable state of every interleaving, any number of users, sessions, uploads, terminations and admin changes (no bound).  "Exactly once" needs the valves of all records of the user to have been collected: the collection step does that for the record activeUsers holds; for other records this is C17\'s ownership (open finding F5) - the lost amount is exactly the valve residue of records the panel has forgotten.',
    level_note='Counters are unbounded in the model (2^63 bytes to wrap).  Liveness (an upload round completes) is C17_deadlock_free plus the straight-line structure of commitUpdate.',
    design_ref='DESIGN.md section 6, C16')


# ---- metered = carried, also when sends fail (harness/multiplex/c16_tx_test.go)
def tx_metering(ctx, verdict):
    import vlib
    cases = ['tx%d TX %d %d %d' % (i, un, nok, more) for i, (un, nok, more) in enumerate([(0, 0, 3), (0, 1, 3), (0, 5, 4), (1, 0, 2), (1, 3, 3), (0, 4, 0)])]
    inp, out = '%s/tx.in' % ctx.work, '%s/tx.out' % ctx.work
    open(inp, 'w').write('\n'.join(cases) + '\n')
    rc, log, dt = vlib.go_test(ctx, 'multiplex', 'TestVerifC16Tx', files=['c16_tx_test.go'], env=dict(VERIF_IN=inp, VERIF_OUT=out), timeout=300)
    got = vlib.read_lines_by_id(out)
    broken = []
    if rc != 0 or len(got) < len(cases):
        broken.append(('Go driver TestVerifC16Tx failed rc=%d' % rc, log[-3000:]))
    for c in cases:
        g = got.get(c.split()[0])
        if g is None:
            continue
        d = dict(x.split('=') for x in g.split())
        if d['carried'] != d['metered']:
            f = c.split()
            verdict.oracle_failure('tx-metered-not-carried', 'C16 oracle: a limited user\'s session (%s) whose connection accepts %s writes and then refuses: the valve metered %s bytes as sent, the connection carried %s (%s writes returned nil, %s an error) - traffic is charged exactly once, what was not carried is not charged' % (
                'unordered' if f[2] == '1' else 'ordered', f[3], d['metered'], d['carried'], d['ok'], d['failed']),
                dict(kind='tx-metering', case=c, observed=g, how='go test -run TestVerifC16Tx with harness/multiplex/c16_tx_test.go (VERIF_IN = the case line)'))
            break
    verdict.cov['tx_metering_cases'] = dict(cases=len(cases), results=[got.get(c.split()[0]) for c in cases])
    return broken


_corr_before_tx = correspondence


def correspondence(ctx, verdict, pr):
    res = _corr_before_tx(ctx, verdict, pr)
    res['broken'] += tx_metering(ctx, verdict)
    return res
