"""Shared machinery of the session-pair checks (C01 C03 C12 C13): run lock-step scenarios
on real Sessions (harness/multiplex/mux_test.go, synctest) and on the extracted model
(coq/Model/Mux.v), compare, and parse observations for the oracles."""
import os, re, json
import vlib

UNIT = lambda lim: lim - 14 - 255


class Scn:
    """A scenario: configuration + abstract steps (may contain E meta labels)."""
    def __init__(self, sid, k=1, sp=0, m=0, lim=600, toA=30, toB=30, steps=None, meta=None):
        self.id = sid; self.k = k; self.sp = sp; self.m = m; self.lim = lim; self.toA = toA; self.toB = toB
        self.steps = steps or []
        self.meta = meta or {}

    def head(self):
        return '%s k=%d sp=%d m=%d lim=%d toA=%d toB=%d' % (self.id, self.k, self.sp, self.m, self.lim, self.toA, self.toB)

    def line(self, steps=None):
        return self.head() + ' | ' + ' '.join(steps if steps is not None else self.steps)


def canon_events(evs):
    """canonical form of one step's events: tap events (f, c) as a sorted multiset, then
    the call's result, then resolved blocked calls in order"""
    evs = [e for e in evs if e and not e.startswith('=') and not re.match(r'x[AB]\d+$', e)]   # x = a failed send (pick only)
    tap = sorted(e for e in evs if e[0] in 'fc')
    rest = [e for e in evs if e[0] not in 'fc']
    return tap + rest


def parse_obs(line):
    """'<id> obs obs ...' -> list of event lists"""
    toks = line.split(' ') if line else []
    return [t.split(',') for t in toks]


def concretise(scn, go_steps):
    """Replace E meta labels by the D label the driver resolved them to, and attach the
    connection picks (frames of side A in emission order, then of side B)."""
    out = []
    for stp, evs in zip(scn.steps, go_steps):
        for e in evs:
            if e.startswith('=D:'):
                stp = e[1:]
        picks = []
        for side in 'AB':
            for e in evs:
                m = re.match(r'f([AB])(\d+):', e) or re.match(r'x([AB])(\d+)$', e)
                if m and m.group(1) == side:
                    picks.append(m.group(2))
        if picks and stp[0] in 'WXZDT':
            stp = stp + '@' + '.'.join(picks)
        out.append(stp)
    return out


def run(ctx, scns, tag, race=False):
    """Returns dict id -> dict(go=[[ev]], model=[[ev]], concrete=[steps]) plus build/run problems."""
    inp = '%s/%s.in' % (ctx.work, tag)
    gout = '%s/%s.go.out' % (ctx.work, tag)
    open(inp, 'w').write('\n'.join(s.line() for s in scns) + '\n')
    if os.path.exists(gout):
        os.remove(gout)
    rc, log, dt = vlib.go_test(ctx, 'multiplex', 'TestVerifMux', files=['mux_test.go'], synctest=True, race=race,
                               env=dict(VERIF_IN=inp, VERIF_OUT=gout), timeout=1500)
    problems = []
    go = vlib.read_lines_by_id(gout)
    if rc != 0 or len(go) < len(scns):
        problems.append(('Go driver TestVerifMux failed (rc=%d, %d of %d scenarios completed)' % (rc, len(go), len(scns)), log[-3000:]))
    res = {}
    minp = '%s/%s.model.in' % (ctx.work, tag)
    mout = '%s/%s.model.out' % (ctx.work, tag)
    lines = []
    for s in scns:
        g = go.get(s.id)
        if g is None:
            continue
        if g.startswith('PANIC:'):
            res[s.id] = dict(go=None, panic=g, concrete=s.steps, model=None)
            continue
        gs = parse_obs(g)
        conc = concretise(s, gs)
        res[s.id] = dict(go=gs, concrete=conc, model=None)
        lines.append(s.line(conc))
    open(minp, 'w').write('\n'.join(lines) + '\n')
    mrc, merr = vlib.run_model('mux', minp, mout)
    if mrc != 0:
        problems.append(('extracted model mux failed', merr[-2000:]))
    mo = vlib.read_lines_by_id(mout)
    for sid, r in res.items():
        if sid in mo:
            r['model'] = parse_obs(mo[sid])
    return res, problems, dt


def diff(r):
    """first differing step between implementation and model, or None"""
    if r.get('go') is None or r.get('model') is None:
        return None
    for i, (g, m) in enumerate(zip(r['go'], r['model'])):
        if canon_events(g) != canon_events(m):
            return i
    if len(r['go']) != len(r['model']):
        return min(len(r['go']), len(r['model']))
    return None


# ---- observation helpers for the oracles -------------------------------------------------
def ret_of(evs):
    for e in evs:
        if e.startswith('r'):
            c, n, d = e[1:].split(':')
            return int(c), int(n), ('' if d == '-' else d)
    return None


def pends_of(evs):
    out = []
    for e in evs:
        if e.startswith('p'):
            kind, side = e[1], e[2]
            sid, k, c, n, d = e[4:].split(':')
            out.append((kind, side, int(sid), int(k), int(c), int(n), '' if d == '-' else d))
    return out


def frames_of(evs):
    out = []
    for e in evs:
        m = re.match(r'f([AB])(\d+):(\d+):(\d+):(\d+):(\d+)$', e)
        if m:
            out.append((m.group(1), int(m.group(2)), int(m.group(3)), int(m.group(4)), int(m.group(5)), int(m.group(6))))
    return out


def query_of(evs):
    q = {}
    for e in evs:
        if e.startswith('qp'):
            t = e[2:].split(':')
            q['pending'] = int(t[0])
            if len(t) == 3:
                q['pendA'], q['pendB'] = int(t[1]), int(t[2])
        elif e.startswith('qc'):
            c, fl, la, lb = e[2:].split(':')
            q['c' + c] = dict(clA=fl[0] == '1', clB=fl[1] == '1', failed=fl[2] == '1', toA=int(la), toB=int(lb))
        elif e.startswith('q'):
            side = e[1]
            cl, cnt, live = e[3:].split(':')
            q[side] = dict(closed=cl == '1', count=int(cnt), live=int(live))
    return q


def pattern(tag, n):
    """n deterministic bytes identifying a stream/direction/offset (hex)"""
    return bytes(((tag * 131 + i * 7 + (i >> 8)) & 0xff) for i in range(n)).hex() if n else '-'


def shrink(ctx, scn, oracle, max_rounds=14):
    """Batch delta debugging over the abstract step list: every round tries all 'drop one chunk'
    candidates in ONE run of the driver and keeps the shortest one on which the oracle still fails."""
    cur = list(scn.steps)
    gran = 2
    for rnd in range(max_rounds):
        if len(cur) <= 1:
            break
        chunk = max(1, len(cur) // gran)
        cands = []
        for i in range(0, len(cur), chunk):
            st = cur[:i] + cur[i + chunk:]
            if st:
                if st[-1] != 'Q':
                    st = st + ['Q']
                cands.append(Scn('k%d_%d' % (rnd, i), scn.k, scn.sp, scn.m, scn.lim, scn.toA, scn.toB, st, scn.meta))
        res, problems, dt = run(ctx, cands, 'shrink')
        best = None
        for c in cands:
            r = res.get(c.id)
            if r and r.get('go') and oracle(c, history(c, r)):
                if best is None or len(c.steps) < len(best.steps):
                    best = c
        if best is not None:
            cur = best.steps
            gran = max(2, gran - 1)
        else:
            if chunk == 1:
                break
            gran = min(len(cur), gran * 2)
    return Scn(scn.id + '_min', scn.k, scn.sp, scn.m, scn.lim, scn.toA, scn.toB, cur, scn.meta)


# ---- scenario generation ----------------------------------------------------------------
def gen_scenario(rng, sid, profile):
    """profile: 'data' (no close/fault/timer), 'close' (stream closes), 'fault' (conn failures,
    session closes, timers), 'mixed'"""
    if profile == 'sendfail':
        return gen_sendfail(rng, sid)
    sp = 1 if rng.random() < 0.12 else 0
    k = 1 if sp else rng.choice([1, 2, 2, 3, 4, 8])
    lim = rng.choice([600, 600, 600, 16401])
    unit = UNIT(lim)
    m = rng.randrange(4)
    toA, toB = 30, 45
    steps = []
    nstreams = 1 if sp else rng.choice([1, 1, 2, 3, 5, 8] if profile != 'big' else [20, 40])
    opened = []       # sids opened by A
    known_b = set()   # sids B may have learnt of (approx: after any delivery)
    inflight = {'A': 0, 'B': 0}   # upper bound of messages travelling towards a side
    wcount = {}
    closedA, closedB = set(), set()
    tag = [0]

    def sizes():
        return rng.choice([1, 1, 2, 7, unit - 1, unit, unit + 1, 2 * unit + 5, 3 * unit] if lim == 600
                          else [1, 5, 100, 1000, unit, unit + 1, 2 * unit + 3])

    def write(side, s):
        n = sizes()
        if profile in ('close', 'mixed', 'sendfail') and rng.random() < 0.08:
            n = 0          # a zero-length Write: accepted on an open stream (nothing sent), refused on a closed one
        tag[0] += 1
        steps.append('W:%s:%d:%s' % (side, s, pattern(tag[0], n)))
        inflight['B' if side == 'A' else 'A'] += (n + unit - 1) // unit

    def deliver(side):
        steps.append('E:%s:%d' % (side, rng.randrange(8)))
        if inflight[side] > 0:
            inflight[side] -= 1

    nops = rng.choice([6, 12, 25, 40]) if profile != 'big' else 120
    for i in range(nops):
        r = rng.random()
        if (not opened) or (len(opened) < nstreams and r < 0.15):
            steps.append('O:A')
            opened.append(len(opened) + 1)
            continue
        s = rng.choice(opened)
        if r < 0.40:
            write('A', s)
        elif r < 0.50:
            write('B', s)
        elif r < 0.72:
            deliver('B')
        elif r < 0.80:
            deliver('A')
        elif r < 0.90:
            side = rng.choice('AB')
            steps.append('R:%s:%d:%d' % (side, s, rng.choice([1, 3, 50, 100000])))
        elif r < 0.93:
            steps.append('A:B')
        else:
            if profile in ('close', 'mixed') and r < 0.97:
                side = rng.choice('AAB')
                steps.append('X:%s:%d' % (side, s))
                inflight['B' if side == 'A' else 'A'] += 1
                if rng.random() < 0.3:
                    # writes after the close, the empty one included, must fail
                    tag[0] += 1
                    steps.append('W:%s:%d:%s' % (side, s, pattern(tag[0], rng.choice([0, 0, 1]))))
            elif profile in ('fault', 'mixed'):
                q = rng.random()
                if q < 0.25:
                    steps.append('F:%d' % rng.randrange(k))
                elif q < 0.45:
                    # the connection breaks but no read loop has noticed: the next send on it fails
                    for c in (range(k) if rng.random() < 0.5 else [rng.randrange(k)]):
                        steps.append('B:%d' % c)
                    if rng.random() < 0.5:
                        steps.append(rng.choice(['X:%s:%d' % (rng.choice('AB'), s), 'W:%s:%d:%s' % (rng.choice('AB'), s, pattern(99, 3))]))
                elif q < 0.55:
                    steps.append('N:%s:%d' % (rng.choice('AB'), rng.randrange(k)))
                elif q < 0.75:
                    steps.append('Z:%s' % rng.choice('AB'))
                    inflight['A'] += 1; inflight['B'] += 1
                else:
                    steps.append('T:%d' % rng.choice([1, 29, 31, 46]))
                    inflight['A'] += 1; inflight['B'] += 1
            else:
                steps.append('Q')
    # drain: deliver everything, then read everything
    for _ in range(3):
        for side in 'BA':
            for _ in range(inflight[side] + k + 2):
                steps.append('E:%s:%d' % (side, rng.randrange(8)))
        inflight = {'A': k + 2, 'B': k + 2}
    for s in opened:
        for side in 'AB':
            steps.append('R:%s:%d:1000000' % (side, s))
            steps.append('R:%s:%d:1' % (side, s)) if profile != 'data' else None
    steps = [x for x in steps if x]
    steps.append('Q')
    return Scn(sid, k=k, sp=sp, m=m, lim=lim, toA=toA, toB=toB, steps=steps, meta=dict(profile=profile))


def gen_sendfail(rng, sid):
    """a send that fails before any read loop has noticed the broken connection: streams with blocked
    reads, then connections break (B), then a Close / Write / session Close has to send on one"""
    k = rng.choice([1, 1, 2, 3])
    lim = 600
    unit = UNIT(lim)
    steps = ['O:A']
    nst = rng.choice([1, 1, 2, 3])
    for _ in range(nst - 1):
        steps.append('O:A')
    sids = list(range(1, nst + 1))
    tag = 0
    for s in sids:                      # make the streams known to B
        tag += 1
        steps.append('W:A:%d:%s' % (s, pattern(tag, rng.choice([1, 5, unit + 3]))))
    for _ in range(2 * nst + 2):
        steps.append('E:B:%d' % rng.randrange(8))
    for s in sids:
        if rng.random() < 0.7:
            steps.append('R:B:%d:100000' % s)        # drains what arrived
        if rng.random() < 0.8:
            steps.append('R:%s:%d:10' % (rng.choice('AB'), s))   # very likely blocks
    if rng.random() < 0.5:
        steps.append('R:A:%d:10' % rng.choice(sids))
    broken = list(range(k)) if rng.random() < 0.7 else [rng.randrange(k)]
    for c in broken:
        steps.append('B:%d' % c)
    for _ in range(rng.choice([1, 1, 2, 3])):
        side = rng.choice('AB')
        s = rng.choice(sids)
        tag += 1
        steps.append(rng.choice(['X:%s:%d' % (side, s), 'X:%s:%d' % (side, s), 'W:%s:%d:%s' % (side, s, pattern(tag, 4)), 'Z:%s' % side, 'O:A']))   # only the client opens streams (fresh ids)
        if rng.random() < 0.3:
            steps.append('Q')
    for c in broken:
        for side in 'AB':
            if rng.random() < 0.7:
                steps.append('N:%s:%d' % (side, c))
    for _ in range(k + 2):
        for side in 'BA':
            steps.append('E:%s:%d' % (side, rng.randrange(8)))
    for s in sids:
        for side in 'AB':
            steps.append('R:%s:%d:1000000' % (side, s))
    steps.append('Q')
    return Scn(sid, k=k, sp=0, m=rng.randrange(4), lim=lim, toA=30, toB=45, steps=steps, meta=dict(profile='sendfail'))


# ---- generic check driver -----------------------------------------------------------------
def history(scn, r):
    """Per-scenario digest used by the oracles: for each step (label, ret, pends, frames, query)."""
    h = []
    for stp, evs in zip(r['concrete'], r['go']):
        h.append(dict(step=stp.split('@')[0], ret=ret_of(evs), pends=pends_of(evs), frames=frames_of(evs),
                      q=query_of(evs) if stp.startswith('Q') else None,
                      closes=[e for e in evs if re.match(r'c[AB]\d+$', e)]))
    return h


def check(ctx, verdict, pid, scns, oracle, extra_broken=None, race=False):
    """Run scenarios, compare with the model, apply the oracle.  oracle(scn, hist) -> None | (signature, message)."""
    res, problems, dt = run(ctx, scns, pid.lower(), race=race)
    broken = list(problems)
    ndiff, first = 0, None
    nfail = 0
    failing = []
    kinds = {}
    labels = {}
    distinct = set()
    for s in scns:
        r = res.get(s.id)
        kinds[s.meta.get('profile', '?')] = kinds.get(s.meta.get('profile', '?'), 0) + 1
        if r is None:
            continue
        if r.get('panic'):
            nfail += 1
            verdict.oracle_failure('panic', '%s: implementation panicked: %s' % (pid, r['panic'][:200]),
                                   dict(scenario=s.line(), how='tools/check.py %s --replay <this file>' % pid))
            continue
        distinct.add(' '.join(r['concrete']))
        for stp in r['concrete']:
            labels[stp[0]] = labels.get(stp[0], 0) + 1
        d = diff(r)
        if d is not None:
            ndiff += 1
            cand = (len(r['concrete']), s, r, d)
            if first is None or cand[0] < first[0]:
                first = cand
        msg = oracle(s, history(s, r))
        if msg:
            nfail += 1
            failing.append((len(s.steps), s))
    if failing:
        failing.sort(key=lambda t: t[0])
        s0 = failing[0][1]
        sm = shrink(ctx, s0, oracle)
        rr, _, _ = run(ctx, [sm], pid.lower() + '_min')
        r = rr.get(sm.id)
        if not (r and r.get('go') and oracle(sm, history(sm, r))):
            ctx.notes.append('shrunk scenario did not reproduce; reporting the original')
            sm = s0; r = res[s0.id]
        sig, what = oracle(sm, history(sm, r))
        verdict.oracle_failure(sig, '%s oracle: %s' % (pid, what),
                               dict(scenario=sm.line(r['concrete']), abstract=sm.line(), implementation=[','.join(e) for e in r['go']],
                                    model=[','.join(e) for e in (r['model'] or [])], failing_scenarios=len(failing),
                                    how='python3 tools/check.py %s --replay <this file>' % pid))
    if first is not None:
        n, s, r, d = first
        broken.append(('model Mux.v vs multiplex.Session: %d of %d scenarios differ' % (ndiff, len(scns)),
                       'smallest differing scenario %s, first difference at step %d (%s)\nconfig: %s\nsteps: %s\nimplementation: %s\nmodel:          %s'
                       % (s.id, d, r['concrete'][d][:80] if d < len(r['concrete']) else '?', s.head(),
                          ' '.join(x[:60] for x in r['concrete'][:d + 1])[-3000:],
                          ','.join(r['go'][d]) if d < len(r['go']) else None,
                          ','.join(r['model'][d]) if r['model'] and d < len(r['model']) else None)))
    if extra_broken:
        broken += extra_broken
    verdict.cov.update(evaluations=len(scns), distinct_nontrivial=len(distinct),
                       traces_validated_against_impl=sum(1 for s in scns if res.get(s.id) and res[s.id].get('go')),
                       mismatches=ndiff, oracle_failures=nfail,
                       input_distribution=dict(profiles=kinds, labels=labels),
                       samples=[scns[0].line()[:600], scns[len(scns) // 2].line()[:600]],
                       exhaustive=False)
    return dict(broken=broken)


def replay_scenario(ctx, verdict, pid, oracle):
    r0 = ctx.replay
    line = r0.get('scenario') or r0.get('abstract')
    if not line:
        print(json.dumps(r0, indent=1)[:3000]); return 0
    head, steps = line.split('|', 1)
    hf = head.split()
    kv = dict(x.split('=') for x in hf[1:])
    s = Scn(hf[0], k=int(kv['k']), sp=int(kv['sp']), m=int(kv['m']), lim=int(kv['lim']), toA=int(kv['toA']), toB=int(kv['toB']),
            steps=[x.split('@')[0] for x in steps.split()], meta=dict(profile='replay'))
    res, problems, dt = run(ctx, [s], 'replay')
    r = res.get(s.id)
    print('problems:', problems)
    if r and r.get('go'):
        for stp, g, m in zip(r['concrete'], r['go'], r['model'] or [[]] * len(r['go'])):
            print('%-40s impl=%s model=%s' % (stp[:40], ','.join(g)[:200], ','.join(m)[:200]))
        msg = oracle(s, history(s, r))
        print('oracle:', msg)
        return 1 if msg else 0
    return 1


# ---- property oracles (model-independent: they read only what the implementation did) -----
def digest(hist):
    """written / read byte strings per (side, sid), emission log per (side, sid), who closed what."""
    W, R, E = {}, {}, {}
    info = dict(local_close=set(), sess_close=set(), fail=False, tick=False, werr=[], after_close_write_ok=[], open_ret=[])
    closed_stream = set()   # (side, sid) closed locally (X returned 0)
    for i, h in enumerate(hist):
        f = h['step'].split(':')
        ret = h['ret']
        for fr in h['frames']:
            side, c, sid, seq, cl, ln = fr
            E.setdefault((side, sid), []).append((seq, cl, ln, i))
        for (kind, side, sid, k, code, n, d) in h['pends']:
            if kind == 'R' and code == 0:
                R[(side, sid)] = R.get((side, sid), '') + d
        if f[0] == 'W' and ret:
            side, sid, data = f[1], int(f[2]), ('' if f[3] == '-' else f[3])
            code, n, _ = ret
            if code != 4 or n > 0:
                W[(side, sid)] = W.get((side, sid), '') + data[:2 * n]
            if code not in (0, 6):
                info['werr'].append((i, side, sid, code))
            if code == 0 and (side, sid) in closed_stream:
                info['after_close_write_ok'].append((i, side, sid))
        elif f[0] == 'R' and ret and ret[0] == 0:
            R[(f[1], int(f[2]))] = R.get((f[1], int(f[2])), '') + ret[2]
        elif f[0] == 'X' and ret:
            info['local_close'].add((f[1], int(f[2])))
            if ret[0] == 0:
                closed_stream.add((f[1], int(f[2])))
        elif f[0] == 'Z':
            info['sess_close'].add(f[1])
        elif f[0] in 'FBN':
            info['fail'] = True
        elif f[0] == 'T':
            info['tick'] = True
        elif f[0] == 'O' and ret:
            info['open_ret'].append((i, f[1], ret[0], ret[1]))
    return W, R, E, info


def other(side):
    return 'B' if side == 'A' else 'A'


def drained(hist):
    """the last step is a state dump showing no message in flight on any connection"""
    q = hist[-1]['q'] if hist else None
    if not q:
        return False
    return all(v['toA'] == 0 and v['toB'] == 0 for c, v in q.items() if c.startswith('c'))


def oracle_c01(scn, hist):
    """every stream, both directions: what was read is a prefix of what was written on that same
    stream; in scenarios without close / fault / timer it is all of it once everything has been
    delivered and read, no write fails and both sessions are still up."""
    W, R, E, info = digest(hist)
    for (side, sid), got in R.items():
        want = W.get((other(side), sid), '')
        if not want.startswith(got):
            return ('corrupt', 'stream %d towards %s: read %d bytes that are not a prefix of the %d bytes written (first difference at byte %d)'
                    % (sid, side, len(got) // 2, len(want) // 2, next((j // 2 for j in range(0, min(len(got), len(want)), 2) if got[j:j + 2] != want[j:j + 2]), min(len(got), len(want)) // 2)))
    if scn.meta.get('profile') in ('data', 'big') and not scn.sp and drained(hist) and not (info['fail'] or info['sess_close'] or info['tick'] or info['local_close']):
        lastD = max([i for i, h in enumerate(hist) if h['step'][0] in 'DW'] + [-1])
        bigread = set()
        for i, h in enumerate(hist):
            f = h['step'].split(':')
            if f[0] == 'R' and i > lastD and int(f[3]) >= 1000000:
                bigread.add((f[1], int(f[2])))
        for (side, sid), want in W.items():
            got = R.get((other(side), sid), '')
            if (other(side), sid) not in bigread:
                continue   # the scenario does not drain this stream after the last delivery
            if got != want:
                return ('lost', 'stream %d from %s: %d bytes written, %d read after everything was delivered and drained' % (sid, side, len(want) // 2, len(got) // 2))
        if info['werr']:
            i, side, sid, code = info['werr'][0]
            return ('write-failed', 'step %d: write on healthy session failed with code %d' % (i, code))
        q = hist[-1]['q'] or {}
        for side in 'AB':
            if q.get(side, {}).get('closed'):
                return ('session-down', 'session %s closed although nothing failed and nobody closed it' % side)
    return None


def oracle_c13(scn, hist):
    """per direction of each stream: sequence numbers 0,1,2,.. each used once, in emission order;
    data frames carry the written bytes in order (lengths add up); the closing frame is numbered
    after every frame of the writes completed before; (sid, seq) pairs unique per endpoint."""
    W, R, E, info = digest(hist)
    for (side, sid), frames in E.items():
        if sid == 4294967295:
            if len(frames) > 1:
                return ('dup-session-close', 'endpoint %s sent %d session-closing frames (same nonce)' % (side, len(frames)))
            continue
        seqs = [f[0] for f in frames]
        if len(set(seqs)) != len(seqs):
            return ('dup-seq', 'endpoint %s stream %d reused a sequence number: %s' % (side, sid, seqs[:20]))
        if seqs != sorted(seqs):
            return ('order', 'endpoint %s stream %d emitted sequence numbers out of order: %s' % (side, sid, seqs[:20]))
        failures = any(h['ret'] and h['ret'][0] == 4 and h['step'][0] in 'WXZ' for h in hist)
        if not failures and seqs != list(range(len(seqs))):
            return ('gap', 'endpoint %s stream %d: sequence numbers %s are not 0..n-1 although no send failed' % (side, sid, seqs[:20]))
        closing = [f for f in frames if f[1] != 0]
        if closing and closing[0][0] != max(seqs) and not scn.sp:
            return ('close-not-last', 'endpoint %s stream %d: closing frame numbered %d but a frame numbered %d exists' % (side, sid, closing[0][0], max(seqs)))
        datalen = sum(f[2] for f in frames if f[1] == 0)
        if not failures and datalen != len(W.get((side, sid), '')) // 2:
            return ('length', 'endpoint %s stream %d: data frames carry %d bytes, writes accepted %d' % (side, sid, datalen, len(W.get((side, sid), '')) // 2))
    return None


def oracle_c03(scn, hist):
    """sender writes B then closes; the other side, not having closed the stream itself and with
    nothing failing, reads exactly B and then the broken-stream error; after a close (local or
    processed) writes fail and blocked reads return; buffered bytes stay readable after a local close."""
    W, R, E, info = digest(hist)
    if info['after_close_write_ok']:
        i, side, sid = info['after_close_write_ok'][0]
        return ('write-after-close', 'step %d: write on stream %d succeeded at %s after %s had closed it' % (i, sid, side, side))
    # a blocked read on a stream returns once that side has closed the stream (whatever Close returned)
    blocked = set()
    for i, h in enumerate(hist):
        f = h['step'].split(':')
        for (kind, side, sid, k, code, n, d) in h['pends']:
            if kind == 'R':
                blocked.discard((side, sid))
        if f[0] == 'R' and h['ret'] and h['ret'][0] == 3:
            blocked.add((f[1], int(f[2])))
        if f[0] == 'X' and h['ret'] and h['ret'][0] != 6 and (f[1], int(f[2])) in blocked:
            return ('read-left-blocked', 'step %d: %s closed stream %s (Close returned code %d) but its blocked Read has not returned' % (i, f[1], f[2], h['ret'][0]))
    quiet = not info['fail'] and not info['sess_close'] and not info['tick'] and not scn.sp and drained(hist)
    q = hist[-1]['q'] or {}
    if quiet and (q.get('A', {}).get('closed') or q.get('B', {}).get('closed')):
        quiet = False
    # the final reads of the scenario: R:<side>:<sid>:1000000 then R:<side>:<sid>:1
    final = {}
    for h in hist:
        f = h['step'].split(':')
        if f[0] == 'R' and h['ret']:
            final[(f[1], int(f[2]))] = h['ret']
    if quiet:
        for (side, sid) in info['local_close']:
            o = other(side)
            if (o, sid) in info['local_close']:
                continue   # simultaneous / both-side closes: prefix only (checked by C01's oracle)
            if (side, sid) not in E or not any(f[1] != 0 for f in E[(side, sid)]):
                # no closing frame on the wire: fine if the stream was already closed at that side or never
                # existed there; on a healthy session the FIRST Close of an open stream must send its notice
                firstx = next((h for h in hist if h['step'].split(':')[:3] == ['X', side, str(sid)]), None)
                if firstx and firstx['ret'] and firstx['ret'][0] not in (6,) and (side, sid) in W or (firstx and firstx['ret'] and firstx['ret'][0] == 4 and any(
                        h['step'].split(':')[0] == 'O' and h['ret'] and h['ret'][0] == 0 and h['ret'][1] == sid and h['step'].split(':')[1] == side for h in hist)):
                    return ('close-not-sent', 'stream %d: %s closed it on a healthy session (Close returned code %d) but no closing notice was put on the wire: the peer never learns of the close' % (sid, side, firstx['ret'][0]))
                continue
            want = W.get((side, sid), '')
            got = R.get((o, sid), '')
            if got != want:
                return ('lost-tail', 'stream %d: %s wrote %d bytes and closed, %s read %d bytes' % (sid, side, len(want) // 2, o, len(got) // 2))
            fin = final.get((o, sid))
            if fin is not None and fin[0] != 1:
                return ('no-eof', 'stream %d: after reading everything %s got code %d instead of the broken-stream error' % (sid, o, fin[0]))
    return None


def oracle_c12(scn, hist):
    """after a fault or a session close every reader got a prefix then an error (prefix: C01's
    oracle), nothing stays blocked, new streams are refused, all connections of a closed session
    end up closed; count of active streams = number of open streams at every quiescent moment of a
    live session; the inactivity timer closes a multiplexed session only while it has no open stream."""
    W, R, E, info = digest(hist)
    r = oracle_c01(Scn(scn.id, meta=dict(profile='prefix-only')), hist)
    if r:
        return r
    closed_seen = {'A': False, 'B': False}
    for i, h in enumerate(hist):
        f = h['step'].split(':')
        if h['q']:
            for side in 'AB':
                qs = h['q'].get(side)
                if qs and not qs['closed'] and qs['count'] != qs['live']:
                    return ('count-drift', 'step %d: session %s is live with activeStreamCount=%d but %d open streams' % (i, side, qs['count'], qs['live']))
                if qs and qs['closed']:
                    closed_seen[side] = True
        if f[0] == 'O' and h['ret'] and closed_seen.get(f[1]) and h['ret'][0] == 0:
            return ('open-after-close', 'step %d: OpenStream succeeded on closed session %s' % (i, f[1]))
        if f[0] == 'T':
            # a session-closing frame sent during a tick = inactivity close: only with no open stream
            for fr in h['frames']:
                if fr[2] == 4294967295:
                    prevq = next((x['q'] for x in reversed(hist[:i]) if x['q']), None)
                    if prevq and prevq.get(fr[0], {}).get('live', 0) > 0 and not prevq[fr[0]]['closed']:
                        return ('timer-with-open-stream', 'step %d: session %s closed itself on the inactivity timer with %d open streams' % (i, fr[0], prevq[fr[0]]['live']))
    for i, h in enumerate(hist):
        q = h['q']
        if not q:
            continue
        for side in 'AB':
            if q[side]['closed']:
                # at every quiescent moment a closed session has closed its end of every connection
                for c, v in q.items():
                    if c.startswith('c') and c[1:].isdigit() and not v['cl' + side]:
                        return ('conn-left-open', 'step %d: session %s is closed but its end of connection %s is still open' % (i, side, c[1:]))
    q = hist[-1]['q']
    if q:
        if q['A']['closed'] and q['B']['closed'] and q.get('pending', 0) > 0:
            return ('left-blocked', '%d application calls are still blocked although both sessions are closed' % q['pending'])
        for side in 'AB':
            if q[side]['closed'] and q.get('pend' + side, 0) > 0:
                return ('left-blocked', '%d application calls of side %s are still blocked although its session is closed' % (q['pend' + side], side))
    return None
