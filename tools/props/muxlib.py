"""Shared machinery of the session-pair checks (C01 C03 C12 C13): run lock-step scenarios
on real Sessions (harness/multiplex/mux_test.go, synctest) and on the extracted model
(coq/Model/Mux.v), compare, and parse observations for the oracles."""
import os, re, json
import vlib

UNIT = lambda lim: lim - 14 - 255


class Scn:
    """A scenario: configuration + abstract steps (may contain E meta labels)."""
    def __init__(self, sid, k=1, sp=0, m=0, lim=600, toA=30, toB=30, steps=None, meta=None):
        self.id = sid; self.k = k; self.sp = sp; self.m = m; self.lim = lim; self.toA = toA; self.toB = toB
        self.steps = steps or []
        self.meta = meta or {}

    def head(self):
        return '%s k=%d sp=%d m=%d lim=%d toA=%d toB=%d' % (self.id, self.k, self.sp, self.m, self.lim, self.toA, self.toB)

    def line(self, steps=None):
        return self.head() + ' | ' + ' '.join(steps if steps is not None else self.steps)


def canon_events(evs):
    """canonical form of one step's events: tap events (f, c) as a sorted multiset, then
    the call's result, then resolved blocked calls in order"""
    evs = [e for e in evs if e and not e.startswith('=')]
    tap = sorted(e for e in evs if e[0] in 'fc')
    rest = [e for e in evs if e[0] not in 'fc']
    return tap + rest


def parse_obs(line):
    """'<id> obs obs ...' -> list of event lists"""
    toks = line.split(' ') if line else []
    return [t.split(',') for t in toks]


def concretise(scn, go_steps):
    """Replace E meta labels by the D label the driver resolved them to, and attach the
    connection picks (frames of side A in emission order, then of side B)."""
    out = []
    for stp, evs in zip(scn.steps, go_steps):
        for e in evs:
            if e.startswith('=D:'):
                stp = e[1:]
        picks = []
        for side in 'AB':
            for e in evs:
                m = re.match(r'f([AB])(\d+):', e)
                if m and m.group(1) == side:
                    picks.append(m.group(2))
        if picks and stp[0] in 'WXZDT':
            stp = stp + '@' + '.'.join(picks)
        out.append(stp)
    return out


def run(ctx, scns, tag, race=False):
    """Returns dict id -> dict(go=[[ev]], model=[[ev]], concrete=[steps]) plus build/run problems."""
    inp = '%s/%s.in' % (ctx.work, tag)
    gout = '%s/%s.go.out' % (ctx.work, tag)
    open(inp, 'w').write('\n'.join(s.line() for s in scns) + '\n')
    if os.path.exists(gout):
        os.remove(gout)
    rc, log, dt = vlib.go_test(ctx, 'multiplex', 'TestVerifMux', files=['mux_test.go'], synctest=True, race=race,
                               env=dict(VERIF_IN=inp, VERIF_OUT=gout), timeout=1500)
    problems = []
    go = vlib.read_lines_by_id(gout)
    if rc != 0 or len(go) < len(scns):
        problems.append(('Go driver TestVerifMux failed (rc=%d, %d of %d scenarios completed)' % (rc, len(go), len(scns)), log[-3000:]))
    res = {}
    minp = '%s/%s.model.in' % (ctx.work, tag)
    mout = '%s/%s.model.out' % (ctx.work, tag)
    lines = []
    for s in scns:
        g = go.get(s.id)
        if g is None:
            continue
        if g.startswith('PANIC:'):
            res[s.id] = dict(go=None, panic=g, concrete=s.steps, model=None)
            continue
        gs = parse_obs(g)
        conc = concretise(s, gs)
        res[s.id] = dict(go=gs, concrete=conc, model=None)
        lines.append(s.line(conc))
    open(minp, 'w').write('\n'.join(lines) + '\n')
    mrc, merr = vlib.run_model('mux', minp, mout)
    if mrc != 0:
        problems.append(('extracted model mux failed', merr[-2000:]))
    mo = vlib.read_lines_by_id(mout)
    for sid, r in res.items():
        if sid in mo:
            r['model'] = parse_obs(mo[sid])
    return res, problems, dt


def diff(r):
    """first differing step between implementation and model, or None"""
    if r.get('go') is None or r.get('model') is None:
        return None
    for i, (g, m) in enumerate(zip(r['go'], r['model'])):
        if canon_events(g) != canon_events(m):
            return i
    if len(r['go']) != len(r['model']):
        return min(len(r['go']), len(r['model']))
    return None


# ---- observation helpers for the oracles -------------------------------------------------
def ret_of(evs):
    for e in evs:
        if e.startswith('r'):
            c, n, d = e[1:].split(':')
            return int(c), int(n), ('' if d == '-' else d)
    return None


def pends_of(evs):
    out = []
    for e in evs:
        if e.startswith('p'):
            kind, side = e[1], e[2]
            sid, k, c, n, d = e[4:].split(':')
            out.append((kind, side, int(sid), int(k), int(c), int(n), '' if d == '-' else d))
    return out


def frames_of(evs):
    out = []
    for e in evs:
        m = re.match(r'f([AB])(\d+):(\d+):(\d+):(\d+):(\d+)$', e)
        if m:
            out.append((m.group(1), int(m.group(2)), int(m.group(3)), int(m.group(4)), int(m.group(5)), int(m.group(6))))
    return out


def query_of(evs):
    q = {}
    for e in evs:
        if e.startswith('qc'):
            c, fl, la, lb = e[2:].split(':')
            q['c' + c] = dict(clA=fl[0] == '1', clB=fl[1] == '1', failed=fl[2] == '1', toA=int(la), toB=int(lb))
        elif e.startswith('q'):
            side = e[1]
            cl, cnt, live = e[3:].split(':')
            q[side] = dict(closed=cl == '1', count=int(cnt), live=int(live))
    return q


def pattern(tag, n):
    """n deterministic bytes identifying a stream/direction/offset (hex)"""
    return bytes(((tag * 131 + i * 7 + (i >> 8)) & 0xff) for i in range(n)).hex() if n else '-'


def shrink_steps(ctx, scn, fails, tag='shrink', max_tests=60):
    """ddmin over the step list; fails(steps)->bool runs the real code."""
    return vlib.ddmin(scn.steps, fails, max_tests=max_tests)


# ---- scenario generation ----------------------------------------------------------------
def gen_scenario(rng, sid, profile):
    """profile: 'data' (no close/fault/timer), 'close' (stream closes), 'fault' (conn failures,
    session closes, timers), 'mixed'"""
    sp = 1 if rng.random() < 0.12 else 0
    k = 1 if sp else rng.choice([1, 2, 2, 3, 4, 8])
    lim = rng.choice([600, 600, 600, 16401])
    unit = UNIT(lim)
    m = rng.randrange(4)
    toA, toB = 30, 45
    steps = []
    nstreams = 1 if sp else rng.choice([1, 1, 2, 3, 5, 8] if profile != 'big' else [20, 40])
    opened = []       # sids opened by A
    known_b = set()   # sids B may have learnt of (approx: after any delivery)
    inflight = {'A': 0, 'B': 0}   # upper bound of messages travelling towards a side
    wcount = {}
    closedA, closedB = set(), set()
    tag = [0]

    def sizes():
        return rng.choice([1, 1, 2, 7, unit - 1, unit, unit + 1, 2 * unit + 5, 3 * unit] if lim == 600
                          else [1, 5, 100, 1000, unit, unit + 1, 2 * unit + 3])

    def write(side, s):
        n = sizes()
        tag[0] += 1
        steps.append('W:%s:%d:%s' % (side, s, pattern(tag[0], n)))
        inflight['B' if side == 'A' else 'A'] += (n + unit - 1) // unit

    def deliver(side):
        steps.append('E:%s:%d' % (side, rng.randrange(8)))
        if inflight[side] > 0:
            inflight[side] -= 1

    nops = rng.choice([6, 12, 25, 40]) if profile != 'big' else 120
    for i in range(nops):
        r = rng.random()
        if (not opened) or (len(opened) < nstreams and r < 0.15):
            steps.append('O:A')
            opened.append(len(opened) + 1)
            continue
        s = rng.choice(opened)
        if r < 0.40:
            write('A', s)
        elif r < 0.50:
            write('B', s)
        elif r < 0.72:
            deliver('B')
        elif r < 0.80:
            deliver('A')
        elif r < 0.90:
            side = rng.choice('AB')
            steps.append('R:%s:%d:%d' % (side, s, rng.choice([1, 3, 50, 100000])))
        elif r < 0.93:
            steps.append('A:B')
        else:
            if profile in ('close', 'mixed') and r < 0.97:
                side = rng.choice('AAB')
                steps.append('X:%s:%d' % (side, s))
                inflight['B' if side == 'A' else 'A'] += 1
            elif profile in ('fault', 'mixed'):
                q = rng.random()
                if q < 0.4:
                    steps.append('F:%d' % rng.randrange(k))
                elif q < 0.7:
                    steps.append('Z:%s' % rng.choice('AB'))
                    inflight['A'] += 1; inflight['B'] += 1
                else:
                    steps.append('T:%d' % rng.choice([1, 29, 31, 46]))
                    inflight['A'] += 1; inflight['B'] += 1
            else:
                steps.append('Q')
    # drain: deliver everything, then read everything
    for _ in range(3):
        for side in 'BA':
            for _ in range(inflight[side] + k + 2):
                steps.append('E:%s:%d' % (side, rng.randrange(8)))
        inflight = {'A': k + 2, 'B': k + 2}
    for s in opened:
        for side in 'AB':
            steps.append('R:%s:%d:1000000' % (side, s))
            steps.append('R:%s:%d:1' % (side, s)) if profile != 'data' else None
    steps = [x for x in steps if x]
    steps.append('Q')
    return Scn(sid, k=k, sp=sp, m=m, lim=lim, toA=toA, toB=toB, steps=steps, meta=dict(profile=profile))
