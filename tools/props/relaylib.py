"""Relay level (common.Copy, the uplink of client.RouteTCP): correspondence of coq/Model/Copy.v with the real
code + a model-independent oracle.  Used by C01 (and listed by C03 / C09, whose relays are the same pump).

Part 1 (harness/common/relay_copy_test.go): the real common.Copy between two scripted connections; every call
made on them is compared with the extracted model; the oracle demands that what was handed to dst.Write is, byte
for byte, what the consumed src.Read calls returned, that both ends are closed last of all and only then, that
nothing is read or written after a failed write, and that a complete source arrives complete.
Part 2 (harness/client/relay_uplink_test.go): the real client.RouteTCP fed by a scripted local connection into a
real Session pair; the bytes the far end of the stream reads are compared with the model's uplink
(route_tcp_up) and, by the oracle, with the bytes the local connection's reads returned."""
import os, json, vlib

MAXBUF = 32768


def _bytes(rng, n, tag):
    return bytes(((tag * 29 + i * 7 + (i >> 8) * 3 + 1) & 0xff) for i in range(n))


def _hex(b):
    return b.hex() if b else '-'


def gen_copy_case(rng, cid, big=False):
    kind = rng.choice(['P'] * 12 + ['W', 'R'])
    nr = rng.choice([0, 1, 1, 2, 3, 4, 5, 8])
    reads = []
    sizes = [0, 0, 1, 1, 2, 3, 7, 16, 100, 511, 2000]
    for i in range(nr):
        n = rng.choice(sizes)
        if big and rng.random() < 0.3:
            n = rng.choice([MAXBUF - 1, MAXBUF])
        reads.append((_bytes(rng, n, rng.randrange(256)), 'n'))
    # the script always ends with an error entry (possibly accompanied by bytes)
    n = rng.choice([0, 0, 0, 1, 5, 300])
    reads.append((_bytes(rng, n, rng.randrange(256)), rng.choice(['e', 'e', 'e', 'o'])))
    if rng.random() < 0.1:
        reads.append((_bytes(rng, 3, 1), 'n'))        # never consumed
    writes = []
    flavour = rng.choice(['honest'] * 6 + ['mixed'] * 4)
    for d, _ in reads:
        if not d:
            continue
        if flavour == 'honest' or rng.random() < 0.7:
            writes.append('f0')
        else:
            k = rng.choice(['f1', 'short', 'zero', 'over', 'neg', 'shorterr', 'fullcount_err'])
            if k == 'f1' or k == 'fullcount_err':
                writes.append('f1')
            elif k == 'short':
                writes.append('n%d:0' % max(0, len(d) - 1))
            elif k == 'zero':
                writes.append('n0:0')
            elif k == 'over':
                writes.append('n%d:0' % (len(d) + 1))
            elif k == 'neg':
                writes.append('n-1:0')
            else:
                writes.append('n%d:1' % (len(d) // 2))
    writes.append('f0')
    dn = rng.choice([0, 5, 1 << 33])
    line = '%s C %s %d %s %s' % (cid, kind, dn, ','.join('%s:%s' % (_hex(d), e) for d, e in reads) or '-', ','.join(writes) or '-')
    return dict(id=cid, kind=kind, dn=dn, reads=reads, writes=writes, line=line)


FIXED_COPY = [
    # (kind, reads, writes)
    ('P', [(b'', 'e')], ['f0']),
    ('P', [(b'abc', 'e')], ['f0']),                                # bytes together with the EOF must be forwarded
    ('P', [(b'abc', 'o')], ['f0']),
    ('P', [(b'', 'n'), (b'', 'n'), (b'x', 'n'), (b'', 'e')], ['f0', 'f0']),
    ('P', [(b'ab', 'n'), (b'cd', 'n'), (b'ef', 'e')], ['f0', 'f0', 'f0']),
    ('P', [(b'ab', 'n'), (b'cd', 'n'), (b'ef', 'e')], ['f0', 'n1:0', 'f0']),
    ('P', [(b'ab', 'n'), (b'cd', 'n'), (b'ef', 'e')], ['f1', 'f0', 'f0']),
    ('P', [(b'ab', 'n'), (b'cd', 'n')] + [(b'q' * 40, 'n')] * 6 + [(b'', 'e')], ['f0'] * 9),
    ('W', [(b'ab', 'e')], ['f0']),
    ('R', [(b'ab', 'e')], ['f0']),
]


def copy_cases(ctx):
    rng = ctx.rng
    cases = []
    for i, (k, reads, writes) in enumerate(FIXED_COPY):
        line = 'f%d C %s 7 %s %s' % (i, k, ','.join('%s:%s' % (_hex(d), e) for d, e in reads), ','.join(writes))
        cases.append(dict(id='f%d' % i, kind=k, dn=7, reads=reads, writes=writes, line=line))
    n = 400 if ctx.quick() else 6000
    for i in range(n):
        cases.append(gen_copy_case(rng, 'c%d' % i, big=(i % 25 == 0)))
    return cases


def parse_copy_out(rest):
    f = rest.split()
    if len(f) < 4:
        return None
    left = f[3].split('=')[1].split('/')
    return dict(written=int(f[0]), err=f[1], fuel=f[2] == 'fuel=1', rleft=int(left[0]), wleft=int(left[1]), evs=f[4:])


def oracle_copy(case, o):
    """the property's own predicate on what the real Copy did (no model involved); returns a complaint or None"""
    evs = o['evs']
    if any(e.startswith('PANIC') for e in evs):
        return 'Copy panicked: ' + ' '.join(evs)[:200]
    if len(evs) < 2 or evs[-2:] != ['Cs', 'Cd'] or any(e in ('Cs', 'Cd') for e in evs[:-2]):
        return 'the two connections are not closed exactly once each, source first, as the last two calls: ' + ' '.join(e[:12] for e in evs[-6:])
    body = evs[:-2]
    if case['kind'] != 'P':
        want = ['WT'] if case['kind'] == 'W' else ['RF']
        if body != want or o['written'] != case['dn'] or o['err'] != 'delegated':
            return 'delegation to %s not passed through unchanged: %s written=%d err=%s' % (want[0], ' '.join(body)[:80], o['written'], o['err'])
        return None
    if o['fuel']:
        return None
    consumed = case['reads'][:len(case['reads']) - o['rleft']]
    src = b''.join(d for d, _ in consumed)
    handed = b''.join(bytes.fromhex(e[2:]) if e[2:] != '-' else b'' for e in body if e.startswith('W:'))
    if handed != src:
        # find the first difference for the report
        i = next((k for k in range(min(len(handed), len(src))) if handed[k] != src[k]), min(len(handed), len(src)))
        return 'bytes handed to dst.Write differ from the bytes the %d consumed src.Read calls returned (%d vs %d bytes, first difference at offset %d)' % (len(consumed), len(handed), len(src), i)
    nw = sum(1 for e in body if e.startswith('W:'))
    used = case['writes'][:nw]
    honest = all(w == 'f0' for w in used)
    if honest:
        if o['written'] != len(src):
            return 'written=%d but %d bytes were handed over to a sink that took them all' % (o['written'], len(src))
        last = consumed[-1][1] if consumed else None
        if last == 'e' and o['err'] != 'nil':
            return 'source ended with EOF, sink took everything, yet err=%s' % o['err']
        if last == 'o' and o['err'] != 'read':
            return 'source failed, yet err=%s' % o['err']
        if last == 'n':
            return 'Copy returned although the last read reported no error'
    else:
        bad = next(i for i, w in enumerate(used) if w != 'f0')
        # after the first bad write: no further call on either connection
        k = [i for i, e in enumerate(body) if e.startswith('W:')][bad]
        w = used[bad]
        stops = True
        if w.startswith('n') and w.endswith(':0'):
            cnt = int(w[1:].split(':')[0])
            ln = len(bytes.fromhex(body[k][2:])) if body[k][2:] != '-' else 0
            stops = cnt != ln
        if stops and k != len(body) - 1:
            return 'calls were made after a Write that failed or came up short: ' + ' '.join(e[:10] for e in body[k:k + 4])
        if stops and o['err'] not in ('write', 'short'):
            return 'a Write failed or came up short, yet err=%s' % o['err']
    return None


def run_copy(ctx, verdict, pid):
    broken = []
    cases = copy_cases(ctx)
    inp = '%s/relay_copy.in' % ctx.work
    open(inp, 'w').write('\n'.join(c['line'] for c in cases) + '\n')
    gout, mout = inp[:-3] + '.go.out', inp[:-3] + '.model.out'
    rc, log, dt = vlib.go_test(ctx, 'common', 'TestVerifRelayCopy', files=['relay_copy_test.go'], env=dict(VERIF_IN=inp, VERIF_OUT=gout), timeout=600)
    got = vlib.read_lines_by_id(gout)
    if rc != 0 or len(got) < len(cases):
        broken.append(('Go driver TestVerifRelayCopy failed rc=%d (%d of %d cases answered)' % (rc, len(got), len(cases)), log[-3000:]))
    mrc, merr = vlib.run_model('relay', inp, mout)
    mod = vlib.read_lines_by_id(mout)
    if mrc != 0:
        broken.append(('relay model failed rc=%d' % mrc, merr[-2000:]))
    mism, fails = [], 0
    errs = {}
    for c in cases:
        g = got.get(c['id'])
        if g is None:
            continue
        o = parse_copy_out(g)
        errs[o['err']] = errs.get(o['err'], 0) + 1
        why = oracle_copy(c, o)
        if why:
            fails += 1
            if fails <= 2:
                verdict.oracle_failure('copy:' + why.split(':')[0][:60], '%s oracle (common.Copy between scripted connections, case %s): %s' % (pid, c['id'], why),
                                       dict(kind='relay-copy', case=c['line'][:4000], observed=g[:4000], how='go test -run TestVerifRelayCopy with harness/common/relay_copy_test.go'))
        if mod.get(c['id']) is not None and mod[c['id']] != g and len(mism) < 3:
            mism.append(dict(case=c['line'][:1500], model=mod[c['id']][:1500], impl=g[:1500]))
    if mism:
        broken.append(('model != implementation on common.Copy (%s)' % mism[0]['case'][:200], json.dumps(mism, indent=1)))
    verdict.cov['relay_copy'] = dict(cases=len(cases), compared=len([c for c in cases if c['id'] in got and c['id'] in mod]), oracle_failures=fails,
                                     outcome_distribution=errs, kinds=vlib.summarize_dist([c['kind'] for c in cases]),
                                     reads_per_case=vlib.summarize_dist([len(c['reads']) for c in cases]))
    return broken


# ---------------------------------------------------------------------------------------------------------
# part 2: the uplink of client.RouteTCP
FIXED_UP = [
    [(b'', 'e')],                                       # nothing ever arrives: no stream, local connection closed
    [(b'', 'o')],
    [(b'', 'n'), (b'', 'n'), (b'hello', 'n'), (b'', 'e')],
    [(b'hello', 'e')],                                  # first packet together with EOF
    [(b'a', 'n'), (b'bc', 'n'), (b'def', 'n'), (b'', 'e')],
    [(b'a', 'n'), (b'bc', 'n'), (b'def', 'e')],          # Stream.ReadFrom drops bytes that come with an error (model: same)
    [(b'a', 'n'), (b'', 'n'), (b'zz', 'n'), (b'', 'e')],  # a zero-byte read ends ReadFrom (model: same)
]


def uplink_cases(ctx):
    rng = ctx.rng
    cases = []
    for i, reads in enumerate(FIXED_UP):
        cases.append(dict(id='uf%d' % i, reads=reads))
    n = 60 if ctx.quick() else 1500
    for i in range(n):
        reads = []
        for _ in range(rng.choice([0, 0, 1, 2])):
            reads.append((b'', 'n'))
        k = rng.choice([1, 1, 2, 3, 5, 9, 20])
        for j in range(k):
            sz = rng.choice([1, 1, 2, 10, 100, 1000, 5000, 10239, 10240, 10241, 16000, 16381, 16382, 30000]) if rng.random() < 0.8 else rng.randrange(1, 40000)
            reads.append((_bytes(rng, sz, rng.randrange(256)), 'n'))
        r = rng.random()
        if r < 0.7:
            reads.append((b'', rng.choice(['e', 'e', 'o'])))
        elif r < 0.85:
            reads.append((_bytes(rng, rng.choice([1, 50, 900]), 7), rng.choice(['e', 'o'])))
        elif r < 0.93:
            reads.insert(rng.randrange(len(reads)), (b'', 'n'))
            reads.append((b'', 'e'))
        # else: the script simply ends (the fake then reports EOF)
        cases.append(dict(id='u%d' % i, reads=reads))
    for c in cases:
        c['line'] = '%s U %s' % (c['id'], ','.join('%s:%s' % (_hex(d), e) for d, e in c['reads']))
    return cases


def _kv(rest):
    return dict(x.split('=', 1) for x in rest.split())


def run_uplink(ctx, verdict, pid):
    broken = []
    cases = uplink_cases(ctx)
    inp = '%s/relay_up.in' % ctx.work
    open(inp, 'w').write('\n'.join(c['line'] for c in cases) + '\n')
    gout, mout = inp[:-3] + '.go.out', inp[:-3] + '.model.out'
    rc, log, dt = vlib.go_test(ctx, 'client', 'TestVerifRelayUplink', files=['relay_uplink_test.go'], env=dict(VERIF_IN=inp, VERIF_OUT=gout), timeout=900)
    got = vlib.read_lines_by_id(gout)
    if rc != 0 or len(got) < len(cases):
        broken.append(('Go driver TestVerifRelayUplink failed rc=%d (%d of %d cases answered)' % (rc, len(got), len(cases)), log[-3000:]))
    mrc, merr = vlib.run_model('relay', inp, mout)
    mod = vlib.read_lines_by_id(mout)
    if mrc != 0:
        broken.append(('relay model failed rc=%d' % mrc, merr[-2000:]))
    # load-sensitive judgement (a stream that appeared only after the driver's patience): re-run those cases alone
    late = [c for c in cases if c['id'] in got and _kv(got[c['id']]).get('late') == '1']
    if late:
        inp2 = inp + '.late'
        open(inp2, 'w').write('\n'.join(c['line'] for c in late) + '\n')
        rc2, log2, _ = vlib.go_test(ctx, 'client', 'TestVerifRelayUplink', files=['relay_uplink_test.go'], env=dict(VERIF_IN=inp2, VERIF_OUT=gout + '.late'), timeout=900)
        got.update(vlib.read_lines_by_id(gout + '.late'))
    mism, fails, total = [], 0, 0
    for c in cases:
        g = got.get(c['id'])
        if g is None:
            continue
        o = _kv(g)
        if o.get('late') == '1':
            continue
        up = bytes.fromhex(o['up']) if o['up'] != '-' else b''
        total += len(up)
        src = b''.join(d for d, _ in c['reads'])
        why = None
        if o['wedged'] == '1' or o['closed'] != '1':
            why = 'the relay never closed the local connection although its reads had ended'
        elif not src.startswith(up):
            i = next((k for k in range(min(len(up), len(src))) if up[k] != src[k]), min(len(up), len(src)))
            why = 'the far end of the stream read bytes that are not a prefix of what the local connection delivered (%d bytes read, %d delivered, first difference at offset %d)' % (len(up), len(src), i)
        elif all(e == 'n' for _, e in c['reads'][:-1]) and c['reads'] and c['reads'][-1][0] == b'' and all(d for d, _ in c['reads'][next((k for k, (d, _) in enumerate(c['reads']) if d), 0):-1]) and up != src:
            # every read but the last succeeded with data (after leading empty ones), the last one only reports the end
            why = 'bytes lost: the local connection delivered %d bytes before its end, the far end read %d' % (len(src), len(up))
        elif o['accepted'] == '1' and o['ended'] != '1':
            why = 'the stream was not closed towards the far end after the local connection had ended'
        if why:
            fails += 1
            if fails <= 2:
                verdict.oracle_failure('uplink:' + why.split('(')[0].strip()[:60], '%s oracle (client.RouteTCP fed by a scripted local connection, case %s): %s' % (pid, c['id'], why),
                                       dict(kind='relay-uplink', case=c['line'][:6000], observed=g[:6000], how='go test -run TestVerifRelayUplink with harness/client/relay_uplink_test.go'))
        m = mod.get(c['id'])
        if m is not None:
            acts = m.split()
            mup = b''.join(bytes.fromhex(a[2:]) for a in acts if a.startswith('W:') and a[2:] != '-')
            want = dict(up=mup, accepted='1' if any(a.startswith('W:') for a in acts) else '0', ended='1' if 'CS' in acts else '0', closed='1' if 'CL' in acts else '0')
            have = dict(up=up, accepted=o['accepted'], ended=o['ended'], closed=o['closed'])
            if want != have and len(mism) < 3:
                mism.append(dict(case=c['line'][:800], differs=[k for k in want if want[k] != have[k]],
                                 model={k: (v.hex()[:80] if isinstance(v, bytes) else v) for k, v in want.items()},
                                 impl={k: (v.hex()[:80] if isinstance(v, bytes) else v) for k, v in have.items()}))
    if mism:
        broken.append(('model != implementation on the uplink of client.RouteTCP (%s)' % mism[0]['case'][:160], json.dumps(mism, indent=1)))
    verdict.cov['relay_uplink'] = dict(cases=len(cases), answered=len(got), bytes_through=total, oracle_failures=fails, rerun_alone=len(late),
                                       reads_per_case=vlib.summarize_dist([len(c['reads']) for c in cases]))
    return broken


def run_deadlines(ctx, verdict, pid):
    """TLSConn's pass-through methods reach the underlying connection unchanged (harness/common/relay_copy_test.go)"""
    inp, out = '%s/relay_dl.in' % ctx.work, '%s/relay_dl.out' % ctx.work
    open(inp, 'w').write('dl0 D\n')
    rc, log, dt = vlib.go_test(ctx, 'common', 'TestVerifRelayDeadlines', files=['relay_copy_test.go'], env=dict(VERIF_IN=inp, VERIF_OUT=out), timeout=300)
    got = vlib.read_lines_by_id(out)
    if rc != 0 or 'dl0' not in got:
        return [('Go driver TestVerifRelayDeadlines failed rc=%d' % rc, log[-2000:])]
    want = 'SetDeadline=d:1700000001000000011 SetReadDeadline=r:1700000002000000022 SetWriteDeadline=w:1700000003000000033 Close=c OversizeRead=0:true:R:'
    if got['dl0'] != want:
        verdict.oracle_failure('tlsconn-passthrough', '%s oracle: common.TLSConn does not pass its deadline / close calls through to the underlying connection unchanged (each as the same single call with the same argument), or its Read of a record larger than the buffer does more than read the header and report io.ErrShortBuffer (it must put nothing on the wire): observed %s' % (pid, got['dl0']),
                               dict(kind='relay-deadlines', case='dl0 D', observed=got['dl0'], expected=want, how='go test -run TestVerifRelayDeadlines with harness/common/relay_copy_test.go'))
    verdict.cov['tlsconn_passthrough'] = got['dl0']
    return []


def run(ctx, verdict, pid):
    return run_copy(ctx, verdict, pid) + run_uplink(ctx, verdict, pid) + run_serve(ctx, verdict, pid) + run_deadlines(ctx, verdict, pid)


def replay(ctx, verdict, pid):
    r = ctx.replay
    kind = r.get('kind')
    inp = '%s/relay_replay.in' % ctx.work
    open(inp, 'w').write(r['case'] + '\n')
    out = inp + '.out'
    if kind == 'relay-copy':
        rc, log, _ = vlib.go_test(ctx, 'common', 'TestVerifRelayCopy', files=['relay_copy_test.go'], env=dict(VERIF_IN=inp, VERIF_OUT=out), timeout=600)
    elif kind == 'relay-serve':
        rc, log, _ = vlib.go_test(ctx, 'server', 'TestVerifRelayServe', files=['relay_serve_test.go'], env=dict(VERIF_IN=inp, VERIF_OUT=out), timeout=600, util=False)
    else:
        rc, log, _ = vlib.go_test(ctx, 'client', 'TestVerifRelayUplink', files=['relay_uplink_test.go'], env=dict(VERIF_IN=inp, VERIF_OUT=out), timeout=600)
    print(open(out).read() if os.path.exists(out) else log[-2000:])
    print('recorded when the violation was reported:', r.get('observed', '')[:2000])
    return 0 if rc == 0 else 1


# ---------------------------------------------------------------------------------------------------------
# part 3: server.serveSession - the two relay goroutines of one stream (coq/Model/RelayPair.v)
def serve_cases(ctx):
    rng = ctx.rng
    cases = []
    fixed = [(1, [5, 100, 3000], 1, [], 0), (0, [5, 100, 3000], 1, [], 0), (1, [], 1, [], 0), (1, [1], 1, [], 0),
             (1, [16381, 16382, 1], 1, [], 0), (0, [20000, 20000], 0, [7, 900], 0), (1, [10], 0, [4], 1), (0, [2], 0, [3, 3], 1),
             (1, [40000], 1, [], 0), (1, [700] * 8, 1, [], 0)]
    n = 14 if ctx.quick() else 400
    for i in range(n):
        kind = rng.choice(['closes', 'closes', 'closes', 'open', 'proxyends'])
        cs = [rng.choice([1, 2, 50, 1000, 5000, 16381, 16382, 20000]) for _ in range(rng.choice([0, 1, 1, 2, 3, 5]))]
        if kind == 'closes':
            fixed.append((rng.choice([0, 1, 1]), cs, 1, [], 0))
        elif kind == 'open':
            fixed.append((rng.choice([0, 1]), cs, 0, [rng.choice([1, 10, 3000]) for _ in range(rng.choice([0, 1, 2]))], 0))
        else:
            fixed.append((rng.choice([0, 1]), cs, rng.choice([0, 1]), [rng.choice([1, 10, 3000]) for _ in range(rng.choice([0, 1, 2]))], 1))
    # a client that neither writes nor closes has not told the server about its stream at all
    fixed = [(g, (cs if (cs or cc) else [3]), cc, ps, pe) for g, cs, cc, ps, pe in fixed]
    for i, (gate, cs, cc, ps, pe) in enumerate(fixed):
        cases.append(dict(id='v%d' % i, gate=gate, cs=cs, cc=cc, ps=ps, pe=pe,
                          line='v%d S %d %s %d %s %d' % (i, gate, ','.join(map(str, cs)) or '-', cc, ','.join(map(str, ps)) or '-', pe)))
    return cases


def _is_prefix(cmp, length):
    """'BAD:want-<n>-first-difference-at-<k>': what arrived is a proper prefix of what was wanted iff k = its own length"""
    import re
    m = re.match(r'BAD:want-(\d+)-first-difference-at-(\d+)$', cmp)
    return bool(m) and m.group(2) == str(length) and int(m.group(1)) > int(length)


def run_serve(ctx, verdict, pid):
    broken = []
    cases = serve_cases(ctx)
    inp = '%s/relay_serve.in' % ctx.work
    open(inp, 'w').write('\n'.join(c['line'] for c in cases) + '\n')
    gout, mout = inp[:-3] + '.go.out', inp[:-3] + '.model.out'
    rc, log, dt = vlib.go_test(ctx, 'server', 'TestVerifRelayServe', files=['relay_serve_test.go'], env=dict(VERIF_IN=inp, VERIF_OUT=gout), timeout=1200, util=False)
    got = vlib.read_lines_by_id(gout)
    if rc != 0 or len(got) < len(cases):
        broken.append(('Go driver TestVerifRelayServe failed rc=%d (%d of %d cases answered)' % (rc, len(got), len(cases)), log[-3000:]))
    mrc, merr = vlib.run_model('relay', inp, mout)
    mod = vlib.read_lines_by_id(mout)
    if mrc != 0:
        broken.append(('relay model failed rc=%d' % mrc, merr[-2000:]))
    mism, fails = [], 0
    for c in cases:
        g = got.get(c['id'])
        if g is None or '=' not in g:
            if g is not None:
                broken.append(('serveSession driver case %s: %s' % (c['id'], g), c['line']))
            continue
        o = _kv(g)
        nwant = sum(c['cs'])
        glen, gok = o['got'].split(':', 1)
        dlen, dok = o['down'].split(':', 1)
        why = None
        quiet = not c['ps'] and not c['pe']
        if o.get('cwfail') == '1' and not c['pe']:
            why = 'a Write of the client on its healthy stream failed although the proxy side had not ended'
        elif o['wedged'] == '1':
            why = 'the relay did not wind down (proxy connection not closed / bytes not delivered) within the patience of the driver'
        elif c['cc'] and quiet and gok != 'ok':
            why = 'the client wrote %d bytes and closed the stream, the proxy server stayed silent: the proxy connection was handed %s bytes (%s) before the relay closed it' % (nwant, glen, gok)
        elif not c['cc'] and not c['pe'] and (gok != 'ok' or dok != 'ok'):
            why = 'both sides stay open: proxy connection got %s, client got %s' % (o['got'], o['down'])
        elif gok != 'ok' and not _is_prefix(gok, glen):
            why = 'the proxy connection was handed bytes that are not a prefix of what the client wrote: ' + o['got']
        elif dok != 'ok' and not _is_prefix(dok, dlen):
            why = 'the client read bytes that are not a prefix of what the proxy server sent: ' + o['down']
        elif (c['cc'] or c['pe']) and (o['closed'] != '1' or o['cliEnd'] != '1'):
            why = 'one side ended but the relay did not close the %s' % ('proxy connection' if o['closed'] != '1' else 'stream towards the client')
        if why:
            fails += 1
            if fails <= 2:
                verdict.oracle_failure('serve:' + why.split(':')[0][:70], '%s oracle (server.serveSession between a real Session pair and a harness-owned proxy connection, case "%s"): %s' % (pid, c['line'], why),
                                       dict(kind='relay-serve', case=c['line'], observed=g, how='go test -run TestVerifRelayServe with harness/server/relay_serve_test.go; gate=1: the dial is held until the client\'s writes and close have reached the server; the proxy connection lets a pending Close overtake a Write'))
        m = mod.get(c['id'])
        if m is not None and (quiet or not c['pe']) and o.get('cwfail') != '1':
            mo = _kv(m)
            mlen = 0 if mo['out'] == '-' else len(mo['out']) // 2
            mup = 0 if mo['up'] == '-' else len(mo['up']) // 2
            want = dict(got=mlen, closed=mo['closed'], down=mup)
            have = dict(got=int(glen), closed=o['closed'], down=int(dlen))
            if want != have and len(mism) < 3:
                mism.append(dict(case=c['line'], model=want, impl=have, impl_line=g))
    if mism:
        broken.append(('model != implementation on the relay pair of server.serveSession (%s)' % mism[0]['case'], json.dumps(mism, indent=1)))
    verdict.cov['relay_serve'] = dict(cases=len(cases), answered=len(got), oracle_failures=fails,
                                      gated=sum(c['gate'] for c in cases), client_closes=sum(c['cc'] for c in cases), proxy_ends=sum(c['pe'] for c in cases))
    return broken
